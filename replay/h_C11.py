"""Native harness functions for C11 (run on the real code by /venv/bin/python with the real codecs)."""
import bz2
import gzip
import io
import os
import random
import shutil
import sys
import tempfile
import types

MAGIC = {"gzip": b"\x1f\x8b", "bz2": b"BZh", "lz4": b"\x04\x22\x4d\x18", "zstd": b"\x28\xb5\x2f\xfd"}
EXT = {"none": "", "gzip": ".gz", "bz2": ".bz2", "lz4": ".lz4", "zstd": ".zstd"}
HEADER_FRAME = b"\x00\x00\x00\x0f\xc4\x0dRECORDSTREAM\n"
JUNK = {"empty": b"", "html": b"<html><body>not records</body></html>", "zeros": b"\x00" * 64, "magic at offset 0 then junk": b"RECORDSTREAM\n" + b"\x01" * 40, "text mentioning the magic": b"see RECORDSTREAM\nin line 2 of this text file",
        "magic after 30 bytes": b"\x00" * 30 + HEADER_FRAME, "truncated header": HEADER_FRAME[:10], "prefix of the gzip magic": b"\x1f", "record text": b"<c11/rec n=1 s='a'>\n",
        "JSON lines": b'{"n": 1, "s": "a"}\n{"n": 2, "s": "b"}\n', "JSON lines of the JSON adapter": b'{"_type": "recorddescriptor", "_data": ["c11/rec", [["varint", "n"]]]}\n{"n": 1, "_type": "record", "_recorddescriptor": ["c11/rec", 1]}\n',
        "CSV text": b"n,s\r\n1,a\r\n"}


def _decompress(codec, data):
    if codec == "gzip":
        return gzip.decompress(data)
    if codec == "bz2":
        return bz2.decompress(data)
    if codec == "lz4":
        import lz4.frame

        return lz4.frame.decompress(data)
    if codec == "zstd":
        import zstandard

        return zstandard.ZstdDecompressor().stream_reader(io.BytesIO(data)).read()
    return data


def _obs(r):
    return (r._desc.name, tuple((k, repr(v)) for k, v in r._asdict().items()))


def _read(**kw):
    from flow.record import RecordReader

    args = kw.pop("args", [])
    with RecordReader(*args, **kw) as rd:
        return [_obs(r) for r in rd], type(rd).__name__


def _cell(codec, container, recs, ext=None):
    from flow.record import RecordWriter

    ext = EXT[codec] if ext is None else ext
    scheme = "avro://" if container == "avro" else ""
    cext = ".avro" if container == "avro" else ".records"
    with tempfile.TemporaryDirectory() as td:
        path = os.path.join(td, "data" + cext + ext)
        w = RecordWriter(scheme + path)
        for r in recs:
            w.write(r)
        w.flush()
        w.close()
        data = open(path, "rb").read()
        if codec != "none":
            if not data.startswith(MAGIC[codec]):
                return f"the written file starts with {data[:4]!r}, not with the {codec} magic"
            inner = _decompress(codec, data)  # the codec's own standard decompressor accepts the file
        else:
            inner = data
            if any(data.startswith(m) for m in MAGIC.values()):
                return "a path without a codec extension was compressed"
        if container == "stream" and not inner.startswith(HEADER_FRAME):
            return "the decompressed content is not a record stream"
        if container == "avro" and not inner.startswith(b"Obj\x01"):
            return "the decompressed content is not an Avro container"
        want = [_obs(r) for r in recs]
        want_cls = "AvroReader" if container == "avro" else "StreamReader"
        ways = {"path with extension": lambda: _read(args=[scheme + path])}
        if container == "stream":
            neutral = os.path.join(td, "neutral.bin")
            shutil.copy(path, neutral)
            ways["neutral path"] = lambda: _read(args=[neutral])
        ways["file object"] = lambda: _read(fileobj=open(path, "rb"))

        def positioned():
            f = io.BytesIO(b"<16 other bytes>" + data)  # seekable, no peek(); handed over positioned on the first byte of the data
            f.seek(16)
            return _read(fileobj=f)

        ways["file object without peek(), positioned behind other data"] = positioned
        ways["file object without peek()"] = lambda: _read(fileobj=io.BytesIO(data))

        def via_stdin():
            saved = sys.stdin
            sys.stdin = types.SimpleNamespace(buffer=io.BufferedReader(io.BytesIO(data)))
            try:
                return _read(args=["-"])
            finally:
                sys.stdin = saved

        ways["standard input"] = via_stdin

        def via_stdin_url():
            saved = sys.stdin
            sys.stdin = types.SimpleNamespace(buffer=io.BufferedReader(io.BytesIO(data)))
            try:
                return _read(args=[("avro" if container == "avro" else "stream") + "://-"])
            finally:
                sys.stdin = saved

        ways["standard input via adapter URL"] = via_stdin_url
        for label, fn in ways.items():
            try:
                got, cls = fn()
            except Exception as e:
                return f"{label}: raised {type(e).__name__}: {e}"
            if got != want or cls != want_cls:
                return f"{label}: read {len(got)} records with {cls}, expected {len(want)} with {want_cls}"
    return None


def _recs(rng, n):
    from flow.record import RecordDescriptor

    D = RecordDescriptor("c11/rec", [("varint", "n"), ("string", "s")])
    return [D(n=rng.randrange(-(2**40), 2**40), s=rng.choice(["", "a", "é" * 50, "x" * 2000])) for _ in range(n)]


def c11_matrix(codec="gzip", container="stream", ext=None):
    try:
        bad = _cell(codec, container, _recs(random.Random(1), 3), ext)
    except Exception as e:
        bad = f"raised {type(e).__name__}: {e}"
    return {"violates": bool(bad), "detail": bad}


def c11_concurrent(ext=".zst"):
    from flow.record import RecordDescriptor, RecordReader, RecordWriter

    D = RecordDescriptor("c11/rec", [("varint", "n"), ("string", "s")])
    with tempfile.TemporaryDirectory() as td:
        paths = [os.path.join(td, f"c{i}.records{ext}") for i in range(2)]
        try:
            ws = [RecordWriter(p) for p in paths]
            for k in range(300):
                for i, w in enumerate(ws):
                    w.write(D(n=1000 * i + k, s="v" * 50))
            for w in ws:
                w.flush()
                w.close()
            rds = [iter(RecordReader(p)) for p in paths]
            got = [[], []]
            for k in range(300):
                for i in range(2):
                    got[i].append(next(rds[i]).n)
        except Exception as e:
            return {"violates": True, "detail": f"two {ext} streams in progress at once: {type(e).__name__}: {e}"[:300]}
    ok = got == [list(range(300)), list(range(1000, 1300))]
    return {"violates": not ok, "detail": None if ok else "records of two streams written / read side by side are mixed up or lost"}


def c11_clobber(codec="gzip", ext=".gz"):
    from flow.record import RecordDescriptor, RecordReader, RecordWriter

    D = RecordDescriptor("c11/rec", [("varint", "n")])
    with tempfile.TemporaryDirectory() as td:
        p = os.path.join(td, "new.records" + ext)
        w = RecordWriter(p, clobber=False)
        w.write(D(n=5))
        w.close()
        data = open(p, "rb").read()
        bad = None
        if codec != "none" and not data.startswith(MAGIC[codec]):
            bad = f"clobber=False: the new file starts with {data[:4]!r}, not with the {codec} magic its extension promises"
        elif codec == "none" and any(data.startswith(m) for m in MAGIC.values()):
            bad = "a path without a codec extension was compressed"
        else:
            try:
                back = [r.n for r in RecordReader(p)]
                if back != [5]:
                    bad = f"read back {back}"
            except Exception as e:
                bad = f"{type(e).__name__}: {e}"
        if not bad:
            try:
                RecordWriter(p, clobber=False).close()
                bad = "an existing file was opened for writing with clobber=False"
            except Exception:
                pass
    return {"violates": bool(bad), "detail": bad}


def c11_hash_name():
    import gzip

    from flow.record import RecordDescriptor, RecordReader, RecordWriter

    D = RecordDescriptor("c11/rec", [("varint", "n")])
    with tempfile.TemporaryDirectory() as td:
        p = os.path.join(td, "evidence#1.records.gz")
        w = RecordWriter(p)
        w.write(D(n=5))
        w.close()
        files = sorted(os.listdir(td))
        bad = None
        if files != ["evidence#1.records.gz"]:
            bad = f"the directory holds {files}, the writer was asked for 'evidence#1.records.gz'"
        else:
            try:
                gzip.open(p).read()
                back = [r.n for r in RecordReader(p)]
                if back != [5]:
                    bad = f"read back {back}"
            except Exception as e:
                bad = f"{type(e).__name__}: {e}"
    return {"violates": bool(bad), "detail": bad}


def c11_adapters():
    from flow.record import RecordWriter

    table = [("a.records", "StreamWriter"), ("a.json", "JsonfileWriter"), ("a.jsonl", "JsonfileWriter"), ("a.avro", "AvroWriter"), ("noext", "StreamWriter"),
             ("users.csv.records", "StreamWriter"), ("web.json.records.gz", "StreamWriter"), ("dump.avro.records.zst", "StreamWriter"), ("x.records.json", "JsonfileWriter"), ("v1.jsonl.avro", "AvroWriter")]
    with tempfile.TemporaryDirectory() as td:
        for name, want in table:
            w = RecordWriter(os.path.join(td, name))
            got = type(w).__name__
            w.close()
            if got != want:
                return {"violates": True, "detail": f"{name}: {got}, expected {want}"}
        for url, want in (("csvfile://" + os.path.join(td, "a.bin"), "CsvfileWriter"), ("stream://" + os.path.join(td, "b.json"), "StreamWriter"), ("jsonfile://" + os.path.join(td, "x.records"), "JsonfileWriter"), ("text://" + os.path.join(td, "a.txt"), "TextWriter"),
                          ("line://" + os.path.join(td, "b.txt"), "LineWriter")):
            w = RecordWriter(url)
            got = type(w).__name__
            w.close()
            if got != want:
                return {"violates": True, "detail": f"{url}: {got}, expected {want}"}
    return {"violates": False}


def _refused(data):
    out = {}
    with tempfile.TemporaryDirectory() as td:
        p = os.path.join(td, "junk.bin")
        open(p, "wb").write(data)

        def via_stdin():
            saved = sys.stdin
            sys.stdin = types.SimpleNamespace(buffer=io.BufferedReader(io.BytesIO(data)))
            try:
                return _read(args=["-"])
            finally:
                sys.stdin = saved

        from flow.record import RecordReader

        def opened(**kw):
            rd = RecordReader(*kw.pop("args", []), **kw)
            return [], type(rd).__name__

        def via_stdin():  # noqa: F811
            saved = sys.stdin
            sys.stdin = types.SimpleNamespace(buffer=io.BufferedReader(io.BytesIO(data)))
            try:
                return opened(args=["-"])
            finally:
                sys.stdin = saved

        for how, fn in (("file object", lambda: opened(fileobj=io.BytesIO(data))), ("neutral path", lambda: opened(args=[p])), ("standard input", via_stdin)):
            try:
                got, cls = fn()
                out[how] = f"accepted as a record source by {cls}"
            except Exception as e:
                out[how] = None if type(e).__name__ in ("RecordAdapterNotFound", "OSError", "IOError", "EOFError", "ValueError") else f"raised {type(e).__name__}: {e}"
    bad = {k: v for k, v in out.items() if v}
    return bad or None


def c11_refuse(label="html"):
    bad = _refused(JUNK[label])
    return {"violates": bool(bad), "detail": bad}


def c11_sweep(seed=0, n=30):
    rng = random.Random(seed)
    cases = 0
    for codec in EXT:
        for container in ("stream", "avro"):
            exts = [EXT[codec]] + ([".zst"] if codec == "zstd" else [])
            for ext in exts:
                for _ in range(max(1, n // 10)):
                    cases += 1
                    try:
                        bad = _cell(codec, container, _recs(rng, rng.randrange(1, 6)), ext)
                    except Exception as e:
                        bad = f"raised {type(e).__name__}: {e}"
                    if bad:
                        return {"violates": True, "detail": f"{codec}{ext} x {container}: {bad}", "witness": {"seed": seed, "codec": codec, "container": container}, "cases": cases}
    for label, data in list(JUNK.items()) + [(f"random {i}", bytes(rng.randrange(256) for _ in range(rng.randrange(0, 80)))) for i in range(n)]:
        cases += 1
        if any(data.startswith(m) for m in list(MAGIC.values()) + [b"Obj"]) or b"RECORDSTREAM\n" == data[6:19]:
            continue
        bad = _refused(data)
        if bad:
            return {"violates": True, "detail": f"non-stream input {label!r} ({data[:30]!r}): {bad}", "witness": {"seed": seed, "junk": label}, "cases": cases}
    for e_ in (".gz", ".bz2", ".lz4", ".zst"):
        cases += 1
        rc = c11_concurrent(e_)
        if rc["violates"]:
            return {"violates": True, "detail": rc["detail"], "witness": {"concurrent": e_}, "cases": cases}
    r = c11_adapters()
    if r["violates"]:
        return {"violates": True, "detail": r["detail"], "witness": {"adapters": True}, "cases": cases}
    return {"violates": False, "cases": cases}


def c11_model_conformance():
    """codec contract samples: each codec's output starts with its published magic and its reader inverts its writer and refuses foreign input"""
    import lz4.frame
    import zstandard

    payload = b"RECORDSTREAM payload \x00\x01" * 20
    outs = {"gzip": gzip.compress(payload), "bz2": bz2.compress(payload), "lz4": lz4.frame.compress(payload), "zstd": zstandard.ZstdCompressor().compress(payload)}
    for c, data in outs.items():
        if not data.startswith(MAGIC[c]) or _decompress(c, data) != payload:
            return {"ok": False, "detail": f"{c}: magic / inverse"}
        for other in outs:
            if other != c:
                try:
                    _decompress(other, data)
                    return {"ok": False, "detail": f"{other} accepted {c} data"}
                except Exception:
                    pass
    b = io.BufferedReader(io.BytesIO(b"0123456789abcdefghijklmnop"))
    if b.peek(19)[:19] != b"0123456789abcdefghi" or b.read(3) != b"012":
        return {"ok": False, "detail": "BufferedReader.peek"}
    return {"ok": True, "cases": 4, "violates": False}



def c11_container_name(fname="evidence#1.avro"):
    from flow.record import RecordDescriptor, RecordReader, RecordWriter

    D = RecordDescriptor("c11/rec", [("varint", "n")])
    with tempfile.TemporaryDirectory() as td:
        p = os.path.join(td, fname)
        w = RecordWriter(p)
        wcls = type(w).__name__
        w.write(D(n=5))
        w.close()
        files = sorted(os.listdir(td))
        head = open(p, "rb").read(4) if os.path.exists(p) else b""
        try:
            rd = RecordReader(p)
            rcls = type(rd).__name__
            back = [r.n for r in rd]
        except Exception as e:
            rcls, back = None, f"{type(e).__name__}: {e}"
    avro = fname.endswith(".avro")
    ok = files == [fname] and back == [5] and (not avro or (head == b"Obj\x01" and wcls == "AvroWriter" and rcls == "AvroReader"))
    return {"violates": not ok, "detail": f"{fname}: directory {files}, leading bytes {head!r}, written by {wcls}, read by {rcls}: {back!r}"}


def c11_multiframe_zstd():
    """a .zst file made of two zstd frames whose boundary lies inside a record frame (pzstd, cat a.zst b.zst): by path, by neutral name, as file object"""
    import io

    import zstandard

    from flow.record import RecordDescriptor, RecordReader
    from flow.record.stream import RecordStreamWriter

    D = RecordDescriptor("c11/rec", [("varint", "n"), ("string", "s")])
    b = io.BytesIO()
    w = RecordStreamWriter(b)
    for i in range(50):
        w.write(D(n=i, s="x" * i))
    w.flush()
    data = b.getvalue()
    w.fp = None
    c = zstandard.ZstdCompressor()
    bad = []
    with tempfile.TemporaryDirectory() as td:
        for cut in (len(data) // 2 + 1, 20, 19 + 2):
            mf = c.compress(data[:cut]) + c.compress(data[cut:])
            for label, fname in (("path .zst", "two.records.zst"), ("neutral name", "two.bin")):
                p = os.path.join(td, fname)
                open(p, "wb").write(mf)
                try:
                    got = [r.n for r in RecordReader(p)]
                except Exception as e:
                    got = f"{type(e).__name__}: {e}"
                if got != list(range(50)):
                    bad.append(f"{label}, frame boundary at byte {cut}: {len(got) if isinstance(got, list) else got} of 50 records")
            try:
                got = [r.n for r in RecordReader(fileobj=open(p, "rb"))]
            except Exception as e:
                got = f"{type(e).__name__}: {e}"
            if got != list(range(50)):
                bad.append(f"file object, frame boundary at byte {cut}: {len(got) if isinstance(got, list) else got} of 50 records")
    return {"violates": bool(bad), "detail": bad[:4]}

CALLS = {"c11_multiframe_zstd": c11_multiframe_zstd, "c11_container_name": c11_container_name, "c11_clobber": c11_clobber, "c11_hash_name": c11_hash_name, "c11_concurrent": c11_concurrent, "c11_matrix": c11_matrix, "c11_adapters": c11_adapters, "c11_refuse": c11_refuse, "c11_sweep": c11_sweep, "c11_model_conformance": c11_model_conformance}

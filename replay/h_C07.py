"""Native harness functions for C07 (run on the real code by /venv/bin/python)."""
import ast
import itertools
import operator
import random

FIELDS = [("varint", "n"), ("varint", "m"), ("string", "s"), ("string", "t"), ("boolean", "flag"), ("string[]", "sl"), ("float", "f"), ("string", "unset"), ("uint16", "port"), ("net.ipaddress", "ip"), ("net.ipnetwork", "net"), ("bytes", "b")]


def _rec(n=5, m=7, s="abc", t="ABC", flag=True, **kw):
    from flow.record import RecordDescriptor

    D = RecordDescriptor("c07/rec", FIELDS)
    vals = dict(n=n, m=m, s=s, t=t, flag=flag, sl=["a", "b"], f=1.5, port=80, ip="1.2.3.4", net="10.0.0.0/8", b=b"ab")
    vals.update(kw)
    return D(**vals)


class _SpecTypeValues:
    """Reference meaning of Type.<typename> (TypeMatcher docstring): a comparison holds when it holds for any field value of that type."""

    __hash__ = None

    def __init__(self, rec, typename):
        self.values = [getattr(rec, f.name) for f in rec._desc.fields.values() if f.typename == typename]

    def __eq__(self, o):
        return any(v == o for v in self.values)

    def __ne__(self, o):
        return any(v != o for v in self.values)

    def __lt__(self, o):
        return any(v < o for v in self.values)

    def __le__(self, o):
        return any(v <= o for v in self.values)

    def __gt__(self, o):
        return any(v > o for v in self.values)

    def __ge__(self, o):
        return any(v >= o for v in self.values)

    def __contains__(self, o):
        return any(o in v for v in self.values)


class _SpecType:
    def __init__(self, rec):
        self._rec = rec

    def __getattr__(self, typename):
        return _SpecTypeValues(self._rec, typename)


def _ns(rec):
    """The documented meaning of names inside a selector, for Python's own eval (reference)."""
    from flow.record import selector
    from flow.record.base import dynamic_fieldtype, net

    ns = {f.__name__: f for f in selector.FUNCTION_WHITELIST}
    ns.update({"r": rec, "Type": _SpecType(rec), "net": net, "fields": rec._desc.getfields})
    # field type constructors denote the whitelisted field type classes themselves (resolved by fieldtype(), not through the selector's module object)
    from flow.record.base import fieldtype
    from flow.record.whitelist import WHITELIST

    for w in WHITELIST:
        if "." not in w and w not in ("record", "dynamic"):
            ns[w] = fieldtype(w)
    return ns


def _engines():
    from flow.record.selector import CompiledSelector, Selector

    return {"Selector": Selector, "CompiledSelector": CompiledSelector}


def _run(cls, expr, rec):
    try:
        return ("val", bool(_engines()[cls](expr).match(rec)))
    except Exception as e:
        return ("raise", type(e).__name__)


def _py(expr, rec):
    try:
        # (one namespace used as globals: names must be visible inside nested generator-expression scopes)
        return ("val", bool(eval(compile(expr, "<ref>", "eval"), dict(_ns(rec), __builtins__={"str": str, "repr": repr, "any": any, "all": all}))))
    except Exception as e:
        return ("raise", type(e).__name__)


def _all_defined(expr, rec):
    """the property's precondition: ALL sub-expressions are defined on the record (Python's and/or would hide an undefined operand behind a
    short-circuit; the interpreted engine evaluates both operands).  Sub-expressions inside a generator expression are covered by the call around it."""
    def subs(node):
        if isinstance(node, ast.expr) and not isinstance(node, (ast.GeneratorExp,)):
            yield node
        if isinstance(node, ast.GeneratorExp):
            return
        for c in ast.iter_child_nodes(node):
            if isinstance(c, ast.expr_context) or isinstance(c, (ast.operator, ast.cmpop, ast.boolop, ast.unaryop)):
                continue
            yield from subs(c)

    for n in subs(ast.parse(expr, mode="eval").body):
        if isinstance(n, (ast.Constant, ast.Name)):
            continue
        if _py(ast.unparse(n), rec)[0] != "val":
            return False
    return True


def c07_eval(expr, engine):
    r = _run(engine, expr, _rec())
    return {"outcome": "raise" if r[0] == "raise" else repr(r[1]), "violates": False}


def _shadows(expr):
    """does a generator expression bind a name that an enclosing (or the same) generator expression has already bound?"""
    def walk(node, live):
        if isinstance(node, ast.GeneratorExp):
            names = []
            for g in node.generators:
                if g.target.id in live or g.target.id in names:
                    return True
                names.append(g.target.id)
            live = live | set(names)
        return any(walk(c, live) for c in ast.iter_child_nodes(node))

    return walk(ast.parse(expr, mode="eval"), frozenset())


def c07_expr(expr, n=0, m=0, s="", t="", flag=False):
    rec = _rec(n or 0, m or 0, s or "", t or "", bool(flag))
    py = _py(expr, rec)
    out = {"expression": expr, "record": {"n": n, "m": m, "s": s, "t": t, "flag": flag}, "python": py}
    bad = False
    for cls in ("Selector", "CompiledSelector"):
        out[cls] = _run(cls, expr, rec)
        if py[0] == "val" and out[cls] != py and not (cls == "Selector" and out[cls][:2] == ("raise", "InvalidOperation") and _shadows(expr)):
            bad = True  # (the interpreted engine may refuse a generator expression that shadows a live loop variable; a different answer is a violation)
    out["violates"] = bad
    return out


def c07_shape(src, names, seed=0):
    """A node-kind obligation failed for abstract operands: look for concrete operands (record fields) that show the difference."""
    from flow.record import RecordDescriptor

    pool = [0, 1, 2, 3, 100, -1, "a", "b", "", None, True, False, [1, 2], (1, 2), 1.5]
    D = RecordDescriptor("c07/shape", [("dynamic", x) for x in names]) if names else RecordDescriptor("c07/shape", [("varint", "zz")])
    expr = src
    tree = ast.parse(src, mode="eval")

    class Sub(ast.NodeTransformer):
        def visit_Name(self, node):
            if node.id in names:
                return ast.copy_location(ast.Attribute(value=ast.Name(id="r", ctx=ast.Load()), attr=node.id, ctx=ast.Load()), node)
            if node.id == "f0":
                return ast.copy_location(ast.Name(id="upper", ctx=ast.Load()), node)
            return node

    expr = ast.unparse(ast.fix_missing_locations(Sub().visit(tree)))
    rnd = random.Random(seed)
    combos = list(itertools.product(pool, repeat=len(names))) if len(names) <= 2 else [tuple(rnd.choice(pool) for _ in names) for _ in range(600)]
    for combo in combos:
        vals = {k: v for k, v in zip(names, combo) if v is not None}
        try:
            rec = D(**vals)
        except Exception:
            continue
        py = _py(expr, rec)
        if py[0] != "val":
            continue
        got = _run("Selector", expr, rec)
        if got != py:
            return {"expression": expr, "operands": dict(zip(names, map(repr, combo))), "python": py, "Selector": got, "violates": True}
        # same truth value: compare the value itself through repr() (a list where Python builds a tuple is a different value)
        try:
            pyval = eval(compile(expr, "<ref>", "eval"), {"__builtins__": {}}, _ns(rec))
            probe = f"repr({expr}) == {repr(repr(pyval))}"
            if isinstance(pyval, (list, tuple, bool, int, str, type(None))) and _py(probe, rec) == ("val", True) and _run("Selector", probe, rec) != ("val", True):
                return {"expression": probe, "operands": dict(zip(names, map(repr, combo))), "python": ("val", True), "Selector": _run("Selector", probe, rec), "violates": True}
        except Exception:
            pass
    return {"expression": expr, "violates": False, "tried": len(combos)}


def c07_nested(expr, want):
    from flow.record import RecordDescriptor
    from flow.record.selector import CompiledSelector, Selector

    A = RecordDescriptor("c07/na", [("string", "s")])
    M = RecordDescriptor("c07/nm", [("record", "inner"), ("record[]", "inners"), ("varint", "k")])
    deep = M(inner=A(s="needle"), inners=[M(inner=A(s="needle3"), inners=[], k=7)], k=1)
    b = RecordDescriptor("c07/nb", [("string", "t"), ("record", "sub"), ("record[]", "subs"), ("record", "deep")])(t="y", sub=A(s="x"), subs=[A(s="z"), M(inner=A(s="needle2"), inners=[], k=2)], deep=deep)
    out = []
    for cls in (Selector, CompiledSelector):
        try:
            out.append(bool(cls(expr).match(b)))
        except Exception as e:
            out.append("raise " + type(e).__name__)
    return {"violates": out != [want, want], "detail": None if out == [want, want] else f"{expr!r} on a record holding nested records: interpreted / compiled give {out}, the documented answer is {want}"}


def c07_grouped(expr, want):
    from flow.record import GroupedRecord, RecordDescriptor
    from flow.record.selector import CompiledSelector, Selector

    g = GroupedRecord("c07/grp", [RecordDescriptor("c07/ma", [("string", "a1")])(a1="ay"), RecordDescriptor("c07/mb", [("string", "b2")])(b2="bee")])
    out = []
    for cls in (Selector, CompiledSelector):
        try:
            out.append(bool(cls(expr).match(g)))
        except Exception as e:
            out.append("raise " + type(e).__name__)
    return {"violates": out != [want, want], "detail": None if out == [want, want] else f"{expr!r} on a grouped record: interpreted / compiled give {out}, the documented answer is {want}"}


def c07_reject(expr):
    r = _run("Selector", expr, _rec())
    return {"expression": expr, "Selector": r, "violates": r[0] == "val"}


def c07_table():
    from flow.record import selector

    exp_o = {ast.Add: operator.add, ast.Mult: operator.mul, ast.Div: operator.truediv, ast.And: operator.and_, ast.Or: operator.or_, ast.Not: operator.not_, ast.Mod: operator.mod, ast.BitAnd: operator.and_, ast.BitOr: operator.or_}
    exp_c = {ast.Eq: operator.eq, ast.NotEq: operator.ne, ast.Gt: operator.gt, ast.Lt: operator.lt, ast.GtE: operator.ge, ast.LtE: operator.le, ast.Is: operator.is_, ast.IsNot: operator.is_not}
    bad = [k.__name__ for k, v in exp_o.items() if selector.AST_OPERATORS.get(k) is not v] + [k.__name__ for k, v in exp_c.items() if selector.AST_COMPARATORS.get(k) is not v]
    bad += [k.__name__ for k in selector.AST_OPERATORS if k not in exp_o] + [k.__name__ for k in selector.AST_COMPARATORS if k not in exp_c and k not in (ast.In, ast.NotIn)]
    return {"wrong_entries": bad, "violates": bool(bad)}


def c07_sequence(expr, engine, n=0, m=0, s="", t=""):
    from flow.record import RecordDescriptor

    D2 = RecordDescriptor("c07/other", [("varint", "n"), ("string", "q")])
    r0, r1, r2 = D2(n=700, q="b"), _rec(500, m or 0, "b", t or ""), _rec(n or 0, m or 0, s or "", t or "")
    cls = _engines()[engine]
    sel = cls(expr)
    try:
        sel.match(r0), sel.match(r1)
        after = bool(sel.match(r2))
        fresh = bool(cls(expr).match(r2))
    except Exception as e:
        return {"violates": False, "error": repr(e)}
    return {"expression": expr, "engine": engine, "after_other_records": after, "fresh_selector": fresh, "violates": after != fresh}


# ---- bounded stand-in: grammar-generated expressions ------------------------------------------------------------------
def _gen(rnd, depth):
    atoms_i = ["r.n", "r.m", "r.port", "1", "2", "5", "80", "0", "-1" if False else "3"]
    atoms_s = ["r.s", "r.t", "'abc'", "'a'", "''", "upper(r.s)", "lower(r.t)", "str(r.n)", "name(r)"]
    if depth <= 0:
        k = rnd.randrange(6)
        if k == 0:
            return rnd.choice(["r.flag", "True", "False", "None", "r.unset", "has_field(r, 'n')", "has_field(r, 'q')"])
        return rnd.choice(atoms_i if k < 4 else atoms_s)
    k = rnd.randrange(16)
    sub = lambda: _gen(rnd, depth - 1)
    ci = lambda: rnd.choice(atoms_i)
    cs = lambda: rnd.choice(atoms_s)
    cmpop = lambda: rnd.choice(["==", "!=", "<", "<=", ">", ">="])
    if k == 0:
        return f"{ci()} {cmpop()} {ci()}"
    if k == 1:
        return f"{ci()} {cmpop()} {ci()} {cmpop()} {ci()}"
    if k == 2:
        return f"{ci()} {cmpop()} {ci()} {cmpop()} {ci()} {cmpop()} {ci()}"
    if k == 3:
        return f"({sub()}) and ({sub()})"
    if k == 4:
        return f"({sub()}) or ({sub()})"
    if k == 5:
        return f"not ({sub()})"
    if k == 6:
        return f"({ci()} {rnd.choice(['+', '*', '%', '&', '|'])} {rnd.choice(['1', '2', '3', 'r.n', 'r.port'])}) {cmpop()} {ci()}"
    if k == 7:
        return f"{ci()} {rnd.choice(['in', 'not in'])} {rnd.choice(['[1, 2, r.n]', '(5, 80)', '[r.m]', '()'])}"
    if k == 8:
        return f"{cs()} {rnd.choice(['==', '!=', 'in', 'not in'])} {cs()}"
    if k == 9:
        return cs() + " in " + rnd.choice(["r.sl", "[r.s, r.t]", "('abc', 'a')"])
    if k == 10:
        return f"{rnd.choice(['any', 'all'])}(x {cmpop()} {cs()} for x in r.sl)"
    if k == 11:
        return "Type." + rnd.choice(["varint", "string", "uint16"]) + " " + cmpop() + " " + rnd.choice(["5", "80", "'abc'", "r.n"])
    if k == 12:
        return f"({sub()}) and ({sub()}) or ({sub()})"
    if k == 13:
        return f"({ci()}, {ci()}) {rnd.choice(['==', '!=', '<'])} ({ci()}, {ci()})"
    if k == 14:
        return f"{rnd.choice(['varint', 'string', 'uint16'])}({rnd.choice(['5', '80'])}) == {rnd.choice(['r.n', 'r.port', '5'])}" .replace("string(5)", "string('5')").replace("string(80)", "string('80')")
    return f"field_equals(r, ['s', 't'], [{cs()}])" if rnd.random() < 0.5 else f"{ci()} is {rnd.choice(['None', 'r.unset', ci()])}"


def c07_differential(seed, n):
    rnd = random.Random(seed)
    cases = 0
    for i in range(n):
        expr = _gen(rnd, rnd.randint(0, 3))
        rec = _rec(rnd.choice([0, 1, 2, 3, 5, 80, 100]), rnd.choice([0, 1, 2, 3, 5, 7]), rnd.choice(["abc", "a", "", "ABC", "b"]), rnd.choice(["abc", "ABC", "a", ""]), rnd.random() < 0.5)
        py = _py(expr, rec)
        if py[0] != "val" or not _all_defined(expr, rec):
            continue
        cases += 1
        for cls in ("Selector", "CompiledSelector"):
            got = _run(cls, expr, rec)
            if got != py:
                return {"violates": True, "detail": f"{cls}({expr!r}) on n={rec.n} m={rec.m} s={rec.s!r} t={rec.t!r} flag={rec.flag}: {got}, Python gives {py}",
                        "witness": {"expr": expr, "n": rec.n, "m": rec.m, "s": rec.s, "t": rec.t, "flag": bool(rec.flag)}, "cases": cases}
    return {"violates": False, "cases": cases}



def c07_history_compile(expr, n=0, m=0, s="", t=""):
    from flow.record import RecordDescriptor
    from flow.record.selector import Selector, make_selector

    D = RecordDescriptor("c07/h", [("varint", "n"), ("varint", "m"), ("string", "s"), ("string", "t"), ("string[]", "sl")])
    rec = D(n=n, m=m, s=s, t=t, sl=["a", "b"])
    try:
        want = bool(eval(expr, {"r": rec}))
    except Exception:
        return {"violates": False, "note": "a sub-expression is undefined"}
    s_ = Selector(expr)
    got = []
    try:
        got.append(bool(s_.match(rec)))
        c_ = make_selector(s_, force_compiled=True)
        for obj in (c_, s_, c_):
            got.append(bool(obj.match(rec)))
    except Exception as e:
        got.append(f"raise {type(e).__name__}: {e}")
    return {"violates": got != [want] * 4, "detail": f"{expr!r}: interpreted before / compiled / interpreted after / compiled again: {got}, Python {want}"}

CALLS = {"c07_history_compile": c07_history_compile, "c07_nested": c07_nested, "c07_grouped": c07_grouped, "c07_eval": c07_eval, "c07_expr": c07_expr, "c07_shape": c07_shape, "c07_reject": c07_reject, "c07_table": c07_table, "c07_sequence": c07_sequence, "c07_differential": c07_differential}

"""Native harness functions for C14 (run on the real code by /venv/bin/python)."""
import datetime
import json
import os
import random
import sys
import tempfile

sys.path.insert(0, os.path.dirname(os.path.abspath(__file__)))
import h_C01 as H  # noqa: E402  (deep observation, value tables)

UTC = datetime.timezone.utc
JSON_TYPES = ["varint", "filesize", "unix_file_mode", "uint16", "uint32", "net.tcp.Port", "boolean", "float", "string", "wstring", "bytes", "datetime", "digest", "path", "uri", "net.ipaddress", "net.ipnetwork", "stringlist"]


def _roundtrip(records, **opts):
    from flow.record import RecordReader, RecordWriter

    with tempfile.TemporaryDirectory() as td:
        p = os.path.join(td, "a.json")
        q = "&".join(f"{k}={v}" for k, v in opts.items())
        w = RecordWriter("jsonfile://" + p + ("?" + q if q else ""))
        for r in records:
            w.write(r)
        w.close()
        text = open(p).read()
        with RecordReader("jsonfile://" + p) as rd:
            back = list(rd)
    return text, back


def _write_only(records, **opts):
    from flow.record import RecordWriter

    with tempfile.TemporaryDirectory() as td:
        p = os.path.join(td, "a.json")
        q = "&".join(f"{k}={v}" for k, v in opts.items())
        w = RecordWriter("jsonfile://" + p + ("?" + q if q else ""))
        for r in records:
            w.write(r)
        w.close()
        return open(p).read()


def _digest_text(r):
    """JSON carries a digest as its hex text: the text written is the text read (the binary record stream stores the binary digests, there the letter case
    cannot survive - h_C01.deep leaves it out for that reason)"""
    from flow.record.fieldtypes import digest

    out = []
    for k in r.__slots__:
        v = getattr(r, k)
        for d in (v if isinstance(v, list) else [v]):
            if isinstance(d, digest):
                out.append((k, d.md5, d.sha1, d.sha256))
    return out


def _compare(records, **opts):
    try:
        text, back = _roundtrip(records, **opts)
    except Exception as e:
        return {"violates": True, "detail": f"JSON round trip raised {type(e).__name__}: {e}"}
    a, b = [(H.deep(r), _digest_text(r)) for r in records], [(H.deep(r), _digest_text(r)) for r in back]
    if a != b:
        k = next((i for i, (x, y) in enumerate(zip(a, b)) if x != y), min(len(a), len(b)))
        return {"violates": True, "detail": f"record {k}: written {a[k] if k < len(a) else None!r:.250} read {b[k] if k < len(b) else None!r:.250}"}
    return {"violates": False}


def c14_value(ftype, src):
    from flow.record import RecordDescriptor

    D = RecordDescriptor("c14/t", [(ftype, "x"), ("varint", "n")])
    try:
        r = D(x=H._eval(src), n=7)
    except Exception as e:
        return {"violates": False, "note": f"value rejected at construction: {type(e).__name__}"}
    return _compare([r])


def _documents(text, indent):
    """the standalone JSON documents of the output: one per line, or (with indentation) consecutive top-level objects"""
    if not indent:
        if not text.endswith("\n") and text:
            raise ValueError("output does not end with a newline")
        return [json.loads(ln) for ln in text.splitlines()]
    dec, pos, docs = json.JSONDecoder(), 0, []
    while pos < len(text):
        while pos < len(text) and text[pos].isspace():
            pos += 1
        if pos >= len(text):
            break
        d, pos = dec.raw_decode(text, pos)
        docs.append(d)
    return docs


def c14_shape(opts=None, x=0, s=""):
    from flow.record import RecordDescriptor

    opts = opts or {}
    D = RecordDescriptor("c14/shape", [("varint", "n"), ("string", "s"), ("boolean", "b"), ("boolean", "u"), ("bytes", "by"), ("string[]", "l")])
    r = D(n=x, s=s, b=1, by=b"\x00\xff", l=["a"])
    text = _write_only([r, r], **opts)
    marker = str(opts.get("descriptors", "true")).lower() in ("true", "1")
    docs = _documents(text, opts.get("indent"))
    recs = [d for d in docs if d.get("_type") != "recorddescriptor"]
    want = ["n", "s", "b", "u", "by", "l", "_source", "_classification", "_generated", "_version"] + (["_type", "_recorddescriptor"] if marker else [])
    bad = []
    if len(recs) != 2 or len(docs) != (3 if marker else 2):
        bad.append(f"{len(docs)} documents / {len(recs)} record documents")
    for d in recs:
        if list(d) != want:
            bad.append(f"keys {list(d)}")
        if d.get("b") is not True or d.get("u") is not None or d.get("n") != x or d.get("s") != s:
            bad.append(f"values {d}")
    return {"violates": bool(bad), "detail": "; ".join(bad)[:300]}


def c14_plain(x=0, s=""):
    from flow.record import RecordDescriptor, RecordReader, RecordWriter

    D = RecordDescriptor("c14/plain", [("varint", "n"), ("string", "s"), ("float", "f"), ("boolean", "b"), ("varint", "u")])
    with tempfile.TemporaryDirectory() as td:
        p = os.path.join(td, "a.json")
        w = RecordWriter("jsonfile://" + p + "?descriptors=false")
        first = D(n=x, s=s, f=1.5, b=True, _source="src-1", _classification="cls-1")
        w.write(first)
        w.write(D(n=None, s="t", f=None, b=False, u=9))
        w.close()
        with open(p, "a") as f:
            f.write('{"other": 1}\n')
        try:
            with RecordReader("jsonfile://" + p) as rd:
                back = list(rd)
        except Exception as e:
            return {"violates": True, "detail": f"reading plain JSON lines raised {type(e).__name__}: {e}"}
    ok = len(back) == 3 and back[0].n == x and back[0].s == s and back[0].f == 1.5 and back[0].b in (True, 1) and back[0].u is None and back[1].n is None and back[1].s == "t" and back[1].f is None and back[1].b in (False, 0) and back[1].u == 9 and isinstance(back[1].u, int) and back[2].other == 1
    meta = (back[0]._source, back[0]._classification, back[0]._version, back[0]._generated == first._generated) if back else None
    if ok and meta != ("src-1", "cls-1", 1, True):
        return {"violates": True, "detail": f"the reserved fields of a plain line (written: _source='src-1', _classification='cls-1', _version=1, the record's _generated) were read back as {meta}"}
    return {"violates": not ok, "read": repr(back)[:300]}


def c14_sweep(seed=0, n=150):
    from flow.record import RecordDescriptor

    rng = random.Random(seed)
    cases = 0
    gens = dict(H.RANDOM)
    gens["path"] = lambda r: r.choice(["/a/b", "", "relative/p", "/", "/with space/x"])
    gens["float"] = lambda r: r.choice([0.0, -0.0, 1.5, float("inf"), float("-inf"), float("nan"), 5e-324, 1.7976931348623157e308, r.random()])
    gens["string"] = lambda r: r.choice(["", "a", "é€😀", "\udc80\udcff", "\ud800", "x" * 300, "\x00", 'line\nbreak "q" \\', "".join(chr(r.randrange(32, 0x2FF)) for _ in range(r.randrange(8)))])
    for i in range(n):
        types = [rng.choice(JSON_TYPES) + ("[]" if rng.random() < 0.25 else "") for _ in range(rng.randrange(0, 6))]
        types = [t if (not t.endswith("[]") or t[:-2] in H.LISTABLE) else t[:-2] for t in types]
        D = RecordDescriptor(rng.choice(["j/a", "j/b/c"]), [(t, f"f{j}") for j, t in enumerate(types)])

        def value(t):
            if rng.random() < 0.15:
                return None
            if t.endswith("[]"):
                return [gens[t[:-2]](rng) for _ in range(rng.randrange(4))]
            return gens[t](rng)

        recs = [D(**{nm: value(t) for t, nm in D.get_field_tuples()}) for _ in range(rng.randrange(1, 4))]
        opts = {}  # (indented output is for reading by people: it is checked as standalone documents below, not read back line by line)
        cases += 1
        res = _compare(recs, **opts)
        if res.get("violates"):
            return {"violates": True, "detail": f"case {i} ({opts}): {res['detail']}", "witness": {"seed": seed, "case": i}, "cases": cases}
        # every output document parses as standalone JSON, also with descriptors off
        for o in ({"descriptors": "false"}, {"descriptors": "false", "indent": 2}, {"indent": 2}):
            try:
                text = _write_only(recs, **o)
                docs = _documents(text, o.get("indent"))
                marker = "descriptors" not in o
                nrec = [d for d in docs if d.get("_type") != "recorddescriptor"]
                if len(nrec) != len(recs) or (not marker and any("_type" in d or "_recorddescriptor" in d for d in docs)) or any(list(d)[: len(r.__slots__)] != list(r.__slots__) for d, r in zip(nrec, recs)):
                    return {"violates": True, "detail": f"case {i} descriptors off: {len(docs)} documents for {len(recs)} records / markers present", "witness": {"seed": seed, "case": i}, "cases": cases}
            except Exception as e:
                return {"violates": True, "detail": f"case {i} descriptors off: {type(e).__name__}: {e}", "witness": {"seed": seed, "case": i}, "cases": cases}
    for a in ({}, {"descriptors": "false"}, {"indent": 2}):
        r = c14_shape(a)
        if r["violates"]:
            return {"violates": True, "detail": f"document shape {a}: {r['detail']}", "witness": {"shape": a}, "cases": cases}
    r = c14_plain()
    if r["violates"]:
        return {"violates": True, "detail": f"plain lines: {r}", "witness": {"plain": True}, "cases": cases}
    return {"violates": False, "cases": cases}



def c14_refused(x=0):
    import io
    import pathlib

    from flow.record import RecordDescriptor
    from flow.record.adapter.jsonfile import JsonfileReader, JsonfileWriter

    D = RecordDescriptor("c14/refuse", [("path[]", "x"), ("varint", "n")])
    E = RecordDescriptor("c14/other", [("varint", "n")])
    bad = D(x=["/a"], n=1)
    bad.x.append(pathlib.PurePosixPath("/not/converted"))
    good = [D(x=["/b"], n=x), E(n=5), D(x=[], n=3)]
    fp = io.StringIO()
    w = JsonfileWriter(fp)
    try:
        w.write(bad)
        return {"violates": True, "detail": "the unserialisable record was accepted"}
    except Exception:
        pass
    for r in good:
        w.write(r)
    try:
        back = list(JsonfileReader(io.StringIO(fp.getvalue())))
    except Exception as e:
        return {"violates": True, "detail": f"after a refused write, reading back raised {type(e).__name__}: {e}"}
    a, b = [H.deep(r) for r in good], [H.deep(r) for r in back]
    return {"violates": a != b, "detail": f"after a refused write: written {len(a)} record(s), read {len(b)}; equal: {a == b}"}

CALLS = {"c14_refused": c14_refused, "c14_value": c14_value, "c14_shape": c14_shape, "c14_plain": c14_plain, "c14_sweep": c14_sweep}

"""Native harness functions for C17 (run on the real code by /venv/bin/python): real files, matching readers and independent tools."""
import datetime
import glob
import gzip
import io
import json
import os
import random
import sqlite3
import tempfile

UTC = datetime.timezone.utc
GEN = datetime.datetime(2020, 1, 2, 3, 4, 5, tzinfo=UTC)
SCHEMES = {"StreamWriter": ("", "out.records"), "StreamWriter-gz": ("", "out.records.gz"), "JsonfileWriter": ("jsonfile://", "out.json"), "AvroWriter": ("avro://", "out.avro"), "SqliteWriter": ("sqlite://", "out.sqlite")}


def _desc():
    from flow.record import RecordDescriptor

    return RecordDescriptor("c17/rec", [("varint", "n"), ("string", "s")])


def _independent_count(kind, path):
    """number of records according to an independent tool (None: not applicable)"""
    if kind == "JsonfileWriter":
        return sum(1 for ln in open(path) if json.loads(ln).get("_type") == "record")
    if kind == "AvroWriter":
        import fastavro

        return len(list(fastavro.reader(open(path, "rb"))))
    if kind == "SqliteWriter":
        con = sqlite3.connect(path)
        tabs = [r[0] for r in con.execute("SELECT name FROM sqlite_master WHERE type='table'")]
        return sum(con.execute(f'SELECT count(*) FROM "{t}"').fetchone()[0] for t in tabs)
    if kind == "StreamWriter-gz":
        gzip.open(path, "rb").read()  # a standard decompressor accepts the file
        return None
    return None


def _history(kind, body, ending):
    from flow.record import RecordReader, RecordWriter

    D = _desc()
    scheme, fname = SCHEMES[kind]
    with tempfile.TemporaryDirectory() as td:
        path = os.path.join(td, fname)
        w = RecordWriter(scheme + path)
        if ending.startswith("with-exit"):
            w = w.__enter__()  # `with RecordWriter(...) as w:`
        written = []
        for op in body:
            if op == "w":
                r = D(n=len(written), s=f"r{len(written)}", _generated=GEN)
                w.write(r)
                written.append(r)
            elif op == "x":
                # a record the writer cannot store: refused with an error that the caller catches
                if kind in ("SqliteWriter", "AvroWriter"):
                    bad = D(n=2**70, s="refused", _generated=GEN)
                else:
                    from flow.record import RecordDescriptor

                    bad = RecordDescriptor("c17/dl", [("dictlist", "dl")])(dl=[{"k": {1, 2}}], _generated=GEN)
                try:
                    w.write(bad)
                    written.append(bad)
                except Exception:
                    pass
            else:
                w.flush()
        for op in {"close": ["close"], "with-exit": ["exit"], "close close": ["close", "close"], "with-exit close": ["exit", "close"], "flush close": ["flush", "close"], "with-exit after an exception in the block": ["exit_exc"]}[ending]:
            if op == "close":
                w.close()
            elif op == "flush":
                w.flush()
            elif op == "exit_exc":
                try:
                    with w:
                        raise ValueError("the block failed")
                except ValueError:
                    pass
            else:
                w.__exit__(None, None, None)
        try:
            with RecordReader(scheme + path) as rd:
                back = [(getattr(r, "n", None), getattr(r, "s", None)) for r in rd]
        except Exception as e:
            return f"the closed output is not readable: {type(e).__name__}: {e}"
        if back != [(getattr(r, "n", None), getattr(r, "s", None)) for r in written]:
            return f"{len(written)} record(s) written before close, read back {back}"
        ind = _independent_count(kind, path)
        if ind is not None and ind != len(written):
            return f"an independent tool sees {ind} records, {len(written)} were written"
    return None


def c17_history(writer="StreamWriter", body="w", ending="close"):
    try:
        bad = _history(writer, body, ending)
    except Exception as e:
        bad = f"the history raised {type(e).__name__}: {e}"
    return {"violates": bool(bad), "detail": bad}


def _split(n, count, ending="close", target="out.records", suffix_length=None, scheme=""):
    from flow.record import RecordReader, RecordWriter

    D = _desc()
    with tempfile.TemporaryDirectory() as td:
        url = "split://" + scheme + os.path.join(td, target) + f"?count={count}" + (f"&suffix-length={suffix_length}" if suffix_length else "")
        w = RecordWriter(url)
        for i in range(n):
            w.write(D(n=i, s=f"r{i}", _generated=GEN))
        if ending == "with-exit":
            w.__exit__(None, None, None)
        else:
            w.close()
        # "in order" is the order of the part numbers (beyond 10**suffix-length parts the number gets wider, the names no longer sort as text)
        parts = sorted(glob.glob(os.path.join(td, "*")), key=lambda p_: (int(([c for c in os.path.basename(p_).split(".") if c.isdigit()] or ["0"])[-1]), p_))
        allr = []
        for p in parts:
            try:
                with RecordReader(scheme + p) as rd:
                    rs = [r.s for r in rd]
            except Exception as e:
                return f"part {os.path.basename(p)} is not readable on its own: {type(e).__name__}: {e}"
            if len(rs) > count:
                return f"part {os.path.basename(p)} holds {len(rs)} records, the limit is {count}"
            allr += rs
        if allr != [f"r{i}" for i in range(n)]:
            return f"the parts hold {allr}, written r0..r{n - 1}"
        if len(set(parts)) != len(parts):
            return "part paths repeat"
    return None


def c17_split_target(target="jsonfile://out.json"):
    """a split target given as adapter URI / bare file name, relative to the working directory"""
    cwd = os.getcwd()
    with tempfile.TemporaryDirectory() as td:
        os.chdir(td)
        try:
            from flow.record import RecordReader, RecordWriter

            D = _desc()
            os.makedirs("sub", exist_ok=True)
            w = RecordWriter("split+" + target + "?count=2" if "://" in target else "split://" + target + "?count=2")
            for i in range(5):
                w.write(D(n=i, s=f"r{i}", _generated=GEN))
            w.close()
            scheme = target.split("://")[0] + "://" if "://" in target else ""
            files = sorted(os.path.join(r, f) for r, _, fs in os.walk(".") for f in fs)
            allr, bad = [], None
            for p in sorted(files, key=lambda p_: (int(([c for c in os.path.basename(p_).split(".") if c.isdigit()] or ["0"])[-1]), p_)):
                try:
                    with RecordReader(scheme + p) as rd:
                        rs = [r.s for r in rd]
                except Exception as e:
                    if os.path.getsize(p) == 0:
                        continue  # (the known empty trailing part)
                    bad = f"part {p} is not readable on its own: {type(e).__name__}: {e}"
                    break
                if len(rs) > 2:
                    bad = f"part {p} holds {len(rs)} records, the limit is 2 (files: {files})"
                    break
                allr += rs
            if not bad and allr != [f"r{i}" for i in range(5)]:
                bad = f"the parts hold {allr} (files: {files})"
        except Exception as e:
            bad = f"raised {type(e).__name__}: {e}"
        finally:
            os.chdir(cwd)
    return {"violates": bool(bad), "detail": bad}


def c17_split(n=3, count=2, ending="close"):
    try:
        bad = _split(n, count, ending)
    except Exception as e:
        bad = f"raised {type(e).__name__}: {e}"
    return {"violates": bool(bad), "detail": bad}


def _rotate(same_second, runs=3):
    import flow.record.stream as S
    from flow.record import PathTemplateWriter, RecordReader

    D = _desc()
    t0 = datetime.datetime(2024, 5, 6, 7, 8, 9, tzinfo=UTC)
    clock = [t0 + datetime.timedelta(seconds=(0 if same_second else i)) for i in range(20)]

    class FakeDT(datetime.datetime):
        @classmethod
        def now(cls, tz=None):
            return clock.pop(0)

    real_timezone = datetime.timezone

    class FakeModule:
        datetime = FakeDT
        timezone = real_timezone

    saved = S.datetime
    S.datetime = FakeModule
    try:
        with tempfile.TemporaryDirectory() as td:
            gens = [datetime.datetime(2017, 12, 6, 22, 10, tzinfo=UTC), datetime.datetime(2017, 12, 6, 23, 1, tzinfo=UTC), datetime.datetime(2017, 12, 6, 22, 50, tzinfo=UTC)]
            for run in range(runs):
                w = PathTemplateWriter(os.path.join(td, "{name}-{ts:%Y%m%dT%H}.records"), name="t")
                for j, g in enumerate(gens):
                    w.write(D(n=j, s=f"run{run}-{j}", _generated=g))
                w.close()
            found = []
            for p in sorted(glob.glob(os.path.join(td, "*"))):
                with RecordReader(p) as rd:
                    rs = [r.s for r in rd]
                hour = "T22" if "T22" in os.path.basename(p) else "T23"
                if any(r.endswith("-1") != (hour == "T23") for r in rs):
                    return f"{os.path.basename(p)} holds {rs}: a record is not in the file its template names"
                found += rs
            want = sorted(f"run{run}-{j}" for run in range(runs) for j in range(3))
            if sorted(found) != want:
                return f"records on disk {sorted(found)}, written {want}: a file that already existed was replaced"
    finally:
        S.datetime = saved
    return None


def c17_template(template="{name}-{ts:%Y%m%dT%H}.records", minutes=((22, 10), (22, 20)), relative=False, offset_minutes=0):
    """one writer on an empty directory: every record is in the file its template names, nothing is renamed
    (relative: the template has no directory part and the empty directory is the working directory; template None: the writer's default template)"""
    from flow.record import PathTemplateWriter, RecordReader

    D = _desc()
    cwd = os.getcwd()
    with tempfile.TemporaryDirectory() as td:
        try:
            if relative:
                os.chdir(td)
            full = (lambda t: t) if relative else (lambda t: os.path.join(td, t))
            w = PathTemplateWriter(full(template), name="t") if template else PathTemplateWriter(name="t")
            expected = {}
            for j, (hh, mm) in enumerate(minutes):
                g = datetime.datetime(2017, 12, 6, hh, mm, tzinfo=datetime.timezone(datetime.timedelta(minutes=offset_minutes)) if offset_minutes else UTC)
                try:
                    w.write(D(n=j, s=f"r{j}", _generated=g))
                except Exception as e:
                    return {"violates": True, "detail": f"write raised {type(e).__name__}: {e}"}
                expected.setdefault(os.path.join(td, (template or "{name}-{ts:%Y%m%dT%H}.records.gz")).format(name="t", record=None, ts=g), []).append(f"r{j}")
            w.close()
            found = {}
            for root, _, files in os.walk(td):
                for f in files:
                    with RecordReader(os.path.join(root, f)) as rd:
                        found[os.path.join(root, f)] = [r.s for r in rd]
        finally:
            os.chdir(cwd)
    bad = None if found == expected else f"files on disk { {os.path.relpath(k, td): v for k, v in found.items()} }, the template names { {os.path.relpath(k, td): v for k, v in expected.items()} }"
    return {"violates": bool(bad), "detail": bad}


def c17_copy_helper():
    from flow.record import RecordReader, RecordWriter
    from flow.record.base import stream

    D = _desc()
    with tempfile.TemporaryDirectory() as td:
        try:
            w = RecordWriter(os.path.join(td, "src.records"))
            for k in range(3):
                w.write(D(n=k, s=f"r{k}", _generated=GEN))
            w.close()
            src, dst = RecordReader(os.path.join(td, "src.records")), RecordWriter("jsonfile://" + os.path.join(td, "dst.json"))
            stream(src, dst)
            dst.close()
            src.close()
            with RecordReader("jsonfile://" + os.path.join(td, "dst.json")) as rd:
                got = [(r.n, r.s) for r in rd]
        except Exception as e:
            return {"violates": True, "detail": f"raised {type(e).__name__}: {e}"}
    want = [(k, f"r{k}") for k in range(3)]
    return {"violates": got != want, "detail": None if got == want else f"copied {got}, the source holds {want}"}


def c17_refused_step(writer="AvroWriter", accepted_before=1):
    """accepted_before accepted records, one refused record (the value that is refused is in the second field), one accepted record, close: everything accepted is readable"""
    from flow.record import RecordDescriptor, RecordReader, RecordWriter

    D = RecordDescriptor("c17/step", [("string", "s"), ("varint", "n")])
    scheme, fname = SCHEMES[writer]
    with tempfile.TemporaryDirectory() as td:
        path = os.path.join(td, fname)
        try:
            w = RecordWriter(scheme + path)
            want = []
            for k in range(accepted_before):
                w.write(D(s=f"r{k}", n=k, _generated=GEN))
                want.append(f"r{k}")
            try:
                w.write(D(s="refused", n=2**70, _generated=GEN))
                want.append("refused")
            except Exception:
                pass
            w.write(D(s="last", n=1, _generated=GEN))
            want.append("last")
            w.close()
            with RecordReader(scheme + path) as rd:
                got = [r.s for r in rd]
        except Exception as e:
            return {"violates": True, "detail": f"after {accepted_before} accepted record(s), a refused one, an accepted one and close(): {type(e).__name__}: {e}"}
    return {"violates": got != want, "detail": None if got == want else f"{len(want)} record(s) accepted, {len(got)} readable after close"}


def c17_archiver():
    from flow.record import RecordReader
    from flow.record.stream import RecordArchiver

    D = _desc()
    gens = [datetime.datetime(2017, 12, 6, 22, 10, tzinfo=UTC), datetime.datetime(2017, 12, 7, 1, 1, tzinfo=UTC), datetime.datetime(2017, 12, 7, 1, 30, tzinfo=UTC)]
    with tempfile.TemporaryDirectory() as td:
        try:
            for run in range(2):
                w = RecordArchiver(os.path.join(td, "archive"), path_template="{name}-{ts:%H}.records", name="t")
                for j, g in enumerate(gens):
                    w.write(D(n=j, s=f"run{run}-{j}", _generated=g))
                w.close()
        except Exception as e:
            return {"violates": True, "detail": f"raised {type(e).__name__}: {e}"}
        found = {}
        for root, _, files in os.walk(td):
            for f in files:
                with RecordReader(os.path.join(root, f)) as rd:
                    found[os.path.relpath(os.path.join(root, f), td)] = [r.s for r in rd]
    current = {"archive/2017/12/06/t-22.records": ["run1-0"], "archive/2017/12/07/t-01.records": ["run1-1", "run1-2"]}
    rest = {k: v for k, v in found.items() if k not in current}
    ok = all(found.get(k) == v for k, v in current.items()) and sorted(rest.values()) == [["run0-0"], ["run0-1", "run0-2"]] and all(k.startswith(("archive/2017/12/06/t-22.", "archive/2017/12/07/t-01.")) for k in rest)
    return {"violates": not ok, "detail": None if ok else f"files on disk {found}"}


def c17_rotate(same_second=True):
    try:
        bad = _rotate(same_second)
    except Exception as e:
        bad = f"raised {type(e).__name__}: {e}"
    return {"violates": bool(bad), "detail": bad}


KNOWN = []  # (what) - histories excluded from the random sweep because they are listed known findings


def c17_sweep(seed=0, n=60):
    rng = random.Random(seed)
    cases = 0
    for i in range(n):
        k = rng.random()
        cases += 1
        if k < 0.55:
            kind = rng.choice(sorted(SCHEMES))
            body = "".join(rng.choice("wwf") for _ in range(rng.randrange(0, 7)))
            ending = rng.choice(["close", "with-exit", "close close", "with-exit close", "flush close"])
            if kind.startswith("StreamWriter") and "w" not in body and "f" not in body and ending in ("close", "close close"):
                continue  # known finding: a stream writer closed without records and without flush leaves a 0-byte file
            try:
                bad = _history(kind, body, ending)
            except Exception as e:
                bad = f"the history raised {type(e).__name__}: {e}"
            if bad:
                return {"violates": True, "detail": f"case {i}: {kind} history '{body}' then {ending}: {bad}", "witness": {"seed": seed, "case": i, "writer": kind, "body": body, "ending": ending}, "cases": cases}
        elif k < 0.9:
            nrec, count = rng.randrange(0, 12), rng.randrange(1, 5)
            ending = rng.choice(["close", "with-exit"])
            if ending == "close" and nrec % count == 0:
                ending = "with-exit"  # known finding: the eagerly opened trailing part stays a 0-byte file when closed without flush
            target, scheme = rng.choice([("out.records", ""), ("out.records.gz", ""), ("out.json", "jsonfile://"), ("noext", "")])
            if scheme == "jsonfile://":
                ending = "with-exit"
            try:
                bad = _split(nrec, count, ending, target, rng.choice([None, 1, 3]), scheme)
            except Exception as e:
                bad = f"raised {type(e).__name__}: {e}"
            if bad:
                return {"violates": True, "detail": f"case {i}: split N={nrec} count={count} {target} {ending}: {bad}", "witness": {"seed": seed, "case": i}, "cases": cases}
        else:
            same = rng.random() < 0.5
            try:
                bad = _rotate(same, runs=rng.randrange(2, 5))
            except Exception as e:
                bad = f"raised {type(e).__name__}: {e}"
            if bad:
                return {"violates": True, "detail": f"case {i}: rotation (same second: {same}): {bad}", "witness": {"seed": seed, "case": i, "same_second": same}, "cases": cases}
    return {"violates": False, "cases": cases}



def c17_split_raw(n=3, count=1, selector=None):
    import io

    from flow.record import RecordWriter
    from flow.record.stream import RecordStreamReader

    D = _desc()
    with tempfile.TemporaryDirectory() as td:
        w = RecordWriter("split://" + os.path.join(td, "out.records") + f"?count={count}")
        for i in range(n):
            w.write(D(n=i, s=f"r{i}", _generated=GEN))
        w.close()
        parts = sorted(glob.glob(os.path.join(td, "*")), key=lambda p_: (int(([c for c in os.path.basename(p_).split(".") if c.isdigit()] or ["0"])[-1]), p_))
        whole = b"".join(open(p_, "rb").read() for p_ in parts)
    out, end = [], "stop"
    try:
        for r in RecordStreamReader(io.BytesIO(whole), selector=selector):
            out.append(getattr(r, "s", repr(r)[:30]))
    except Exception as e:
        end = f"raise {type(e).__name__}: {e}"
    bad = out != [f"r{i}" for i in range(n)] or end != "stop"
    return {"violates": bad, "detail": f"{len(parts)} parts concatenated as raw bytes read back as {out}, ended {end}; written r0..r{n - 1}"}

CALLS = {"c17_refused_step": c17_refused_step, "c17_copy_helper": c17_copy_helper, "c17_archiver": c17_archiver, "c17_split_raw": c17_split_raw, "c17_split_target": c17_split_target, "c17_template": c17_template, "c17_history": c17_history, "c17_split": c17_split, "c17_rotate": c17_rotate, "c17_sweep": c17_sweep}

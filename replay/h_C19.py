"""Native harness functions for C19 (run on the real code by /venv/bin/python with the real fastavro)."""
import datetime
import io
import json
import os
import random
import struct
import tempfile

UTC = datetime.timezone.utc
MAPPED = ["boolean", "datetime", "filesize", "uint16", "uint32", "float", "string", "unix_file_mode", "varint", "wstring", "uri", "bytes"]
UNMAPPED = ["path", "command", "net.ipaddress", "net.ipnetwork", "string[]", "varint[]", "stringlist", "dictlist", "dynamic", "record", "net.tcp.Port", "net.ipv4.Address", "digest"]


def _f32(v):
    return struct.unpack("f", struct.pack("f", v))[0]


def _write_read(records):
    from flow.record import RecordReader, RecordWriter

    with tempfile.TemporaryDirectory() as td:
        p = os.path.join(td, "a.avro")
        w = RecordWriter("avro://" + p)
        err = None
        try:
            for r in records:
                w.write(r)
        except Exception as e:
            err = e
        try:
            w.close()
        except Exception:
            pass
        import fastavro

        with open(p, "rb") as f:
            rd = fastavro.reader(f)  # a standard Avro reader opens the container
            raw = list(rd)
            schema = rd.writer_schema
        with RecordReader("avro://" + p) as r2:
            back = list(r2)
    return err, raw, schema, back


def _same(t, a, b):
    if a is None or b is None:
        return a is None and b is None
    if t == "float":
        return float(b) == _f32(float(a)) or (a != a and b != b)
    if t == "datetime":
        return b.utcoffset() == datetime.timedelta(0) and b == a
    return type(b).__name__ == type(a).__name__ and b == a


def _check(D, recs):
    err, raw, schema, back = _write_read(recs)
    if err is not None:
        return f"write raised {type(err).__name__}: {err}"
    if len(back) != len(recs) or len(raw) != len(recs):
        return f"{len(recs)} written, {len(raw)} in the container, {len(back)} read"
    for a, b in zip(recs, back):
        if b._desc.name != D.name or [tuple(f) for f in b._desc.get_field_tuples()] != [tuple(f) for f in D.get_field_tuples()]:
            return f"descriptor read back as {b._desc.name} {b._desc.get_field_tuples()}"
        for t, n in list(D.get_field_tuples()) + [("string", "_source"), ("datetime", "_generated"), ("varint", "_version")]:
            if not _same(t, getattr(a, n), getattr(b, n)):
                return f"field {n} ({t}): wrote {getattr(a, n)!r}, read {getattr(b, n)!r}"
    return None


def c19_value(ftype, src, may_refuse=False):
    from flow.record import RecordDescriptor

    D = RecordDescriptor("c19/t", [(ftype, "x"), ("varint", "n")])
    v = eval(src, {"datetime": datetime})
    try:
        r = D(x=v, n=7)
    except Exception as e:
        return {"violates": False, "note": f"rejected at construction {type(e).__name__}"}
    try:
        bad = _check(D, [r, r])
    except UnicodeEncodeError as e:
        bad = None if may_refuse else f"writing / reading back raised {type(e).__name__}: {e}"  # (text that has no UTF-8 encoding may be refused)
    except Exception as e:
        bad = f"writing / reading back raised {type(e).__name__}: {e}"
    return {"violates": bool(bad), "detail": bad}


def c19_schema(fields=None):
    from flow.record import RecordDescriptor
    from flow.record.adapter.avro import descriptor_to_schema, schema_to_descriptor

    fields = [tuple(f) for f in (fields or [])]
    D = RecordDescriptor("c19/ns/rec", fields)
    s = descriptor_to_schema(D)
    D2 = schema_to_descriptor(s)
    import fastavro

    fastavro.parse_schema(s)
    ok = D2.name == D.name and [tuple(f) for f in D2.get_field_tuples()] == fields and json.loads(s["doc"]) == [D.name, [list(f) for f in fields]]
    return {"violates": not ok, "detail": None if ok else f"{D2.name} {D2.get_field_tuples()}"}


def _refused(recs_ok, rec_bad):
    """writes recs_ok then rec_bad: rec_bad must be refused with an error and must not be in the container in any form"""
    from flow.record import RecordWriter

    with tempfile.TemporaryDirectory() as td:
        p = os.path.join(td, "a.avro")
        w = RecordWriter("avro://" + p)
        for r in recs_ok:
            w.write(r)
        try:
            w.write(rec_bad)
            w.flush()
            raised = False
        except Exception:
            raised = True
        try:
            w.close()
        except Exception:
            pass
        import fastavro

        try:
            with open(p, "rb") as f:
                raw = list(fastavro.reader(f))
        except Exception:
            raw = []
    if not raised:
        return f"the record was accepted ({len(raw)} records in the container)"
    if len(raw) != len(recs_ok):
        return f"the record was refused but the container holds {len(raw)} records instead of {len(recs_ok)}"
    return None


def c19_refuse(ftype, value=None):
    from flow.record import RecordDescriptor

    D = RecordDescriptor("c19/t", [(ftype, "x"), ("varint", "n")])
    r = D(n=7) if value is None else D(x=value, n=7)
    bad = _refused([], r)
    return {"violates": bool(bad), "detail": bad}


def c19_carry_on(ftype, pos, value):
    """an accepted record, a refused one (refused at field number pos), an accepted one: exactly the accepted records are in the container"""
    from flow.record import RecordDescriptor, RecordReader, RecordWriter

    D = RecordDescriptor("c19/t", [("string", "s"), (ftype, "x")] if pos == 1 else [(ftype, "x"), ("string", "s")])
    with tempfile.TemporaryDirectory() as td:
        p = os.path.join(td, "a.avro")
        w = RecordWriter("avro://" + p)
        w.write(D(s="first", x=1))
        try:
            w.write(D(s="refused", x=value))
            outcome = "written"
        except Exception:
            outcome = "raised"
        w.write(D(s="third", x=3))
        w.close()
        try:
            back = [(r.s, int(r.x)) for r in RecordReader("avro://" + p)]
        except Exception as e:
            back = f"reading raised {type(e).__name__}: {e}"
    ok = outcome == "raised" and back == [("first", 1), ("third", 3)]
    return {"violates": not ok, "detail": None if ok else f"refused record between two accepted ones: {outcome}, read back {back}"}


def c19_ts_unrepresentable(iso):
    import datetime

    from flow.record import RecordDescriptor, RecordReader, RecordWriter

    D = RecordDescriptor("c19/t", [("string", "s"), ("datetime", "ts")])
    with tempfile.TemporaryDirectory() as td:
        p = os.path.join(td, "a.avro")
        w = RecordWriter("avro://" + p)
        w.write(D(s="first", ts=datetime.datetime(2020, 1, 2, tzinfo=datetime.timezone.utc)))
        try:
            w.write(D(s="refused", ts=datetime.datetime.fromisoformat(iso)))
            outcome = "written"
        except Exception:
            outcome = "raised"
        w.close()
        try:
            back = [r.s for r in RecordReader("avro://" + p)]
        except Exception as e:
            back = f"reading raised {type(e).__name__}: {e}"
    ok = outcome == "raised" and back == ["first"]
    return {"violates": not ok, "detail": None if ok else f"timestamp {iso} (no UTC form within years 1..9999): {outcome}, read back {back}"}


def c19_stdout():
    """an Avro container written to standard output by a child process that ends the writer with close() alone"""
    import subprocess
    import sys

    code = (
        "from flow.record import RecordDescriptor\n"
        "from flow.record.adapter.avro import AvroWriter\n"
        "D = RecordDescriptor('c19/t', [('string', 's'), ('varint', 'n')])\n"
        "w = AvroWriter('-')\n"
        "for i in range(3):\n"
        "    w.write(D(s='r%d' % i, n=i))\n"
        "w.close()\n"
    )
    p = subprocess.run([sys.executable, "-c", code], capture_output=True, env=dict(os.environ))
    import io

    import fastavro

    try:
        back = [r["s"] for r in fastavro.reader(io.BytesIO(p.stdout))]
    except Exception as e:
        back = f"reading raised {type(e).__name__}: {e} (child exit {p.returncode}, {len(p.stdout)} bytes)"
    ok = back == ["r0", "r1", "r2"]
    return {"violates": not ok, "detail": None if ok else f"an Avro container written to standard output and closed holds {back}"}


def c19_mixed(same_name=False):
    from flow.record import RecordDescriptor

    A = RecordDescriptor("c19/a", [("varint", "n")])
    B = RecordDescriptor("c19/a", [("varint", "n"), ("string", "s")]) if same_name else RecordDescriptor("c19/b", [("varint", "n")])
    from flow.record import RecordWriter

    with tempfile.TemporaryDirectory() as td:
        p = os.path.join(td, "a.avro")
        w = RecordWriter("avro://" + p)
        w.write(A(n=1))
        outcomes = []
        for attempt in range(3):  # the caller carries on after the refusal and offers records of the second type again
            try:
                w.write(B(n=2 + attempt))
                outcomes.append("written")
            except Exception:
                outcomes.append("refused")
        w.close()
        import fastavro

        with open(p, "rb") as f:
            raw = list(fastavro.reader(f))
    bad = None if (outcomes == ["refused"] * 3 and len(raw) == 1) else f"second record type offered three times: {outcomes}; the container holds {len(raw)} record(s)"
    return {"violates": bool(bad), "detail": bad}


def c19_sweep(seed=0, n=80):
    from flow.record import RecordDescriptor

    rng = random.Random(seed)
    gens = {"boolean": lambda: rng.choice([True, False]), "datetime": lambda: rng.choice([datetime.datetime(2020, 1, 2, 3, 4, 5, 6, tzinfo=UTC), datetime.datetime(1969, 12, 31, 23, 59, 59, 999999, tzinfo=UTC), datetime.datetime(9999, 12, 31, 23, 59, 59, 999999, tzinfo=UTC),
                                                                                      datetime.datetime(1, 1, 1, tzinfo=UTC), datetime.datetime(1970, 1, 1, 0, 0, 1, tzinfo=UTC), datetime.datetime(2021, 7, 1, 12, 0, 0, rng.randrange(10**6), tzinfo=datetime.timezone(datetime.timedelta(hours=rng.randrange(-12, 13))))]),
            "filesize": lambda: rng.choice([0, 2**63 - 1, rng.randrange(2**62)]), "uint16": lambda: rng.choice([0, 65535, rng.randrange(65536)]), "uint32": lambda: rng.choice([0, 2**31 - 1, rng.randrange(2**31)]),
            "float": lambda: rng.choice([0.0, 1.5, -2.25, 1e30, 1e-30, 0.1, rng.random()]), "string": lambda: rng.choice(["", "a", "é€😀", "x" * 200]), "unix_file_mode": lambda: rng.randrange(0o7777),
            "varint": lambda: rng.choice([0, -1, 2**63 - 1, -(2**63), rng.randrange(-(2**62), 2**62)]), "wstring": lambda: "w", "uri": lambda: rng.choice(["http://h/p?q", ""]), "bytes": lambda: rng.choice([b"", b"\x00\xff", bytes(range(256))])}
    cases = 0
    for i in range(n):
        k = rng.random()
        cases += 1
        if k < 0.7:
            types = [rng.choice(MAPPED) for _ in range(rng.randrange(0, 6))]
            D = RecordDescriptor(rng.choice(["c19/a", "x", "a/b/c"]), [(t, f"f{j}") for j, t in enumerate(types)])
            recs = [D(**{nm: (None if rng.random() < 0.15 else gens[t]()) for t, nm in D.get_field_tuples()}) for _ in range(rng.randrange(1, 5))]
            try:
                bad = _check(D, recs)
            except Exception as e:
                bad = f"raised {type(e).__name__}: {e}"
        elif k < 0.8:
            bad = c19_refuse(rng.choice(UNMAPPED))["detail"]
        elif k < 0.9:
            t, v = rng.choice([("varint", 2**63), ("varint", -(2**63) - 1), ("uint32", 2**31), ("uint32", 2**32 - 1), ("filesize", 2**64)])
            bad = c19_refuse(t, v)["detail"]
        else:
            bad = c19_mixed(rng.random() < 0.5)["detail"]
        if bad:
            return {"violates": True, "detail": f"case {i}: {bad}"[:500], "witness": {"seed": seed, "case": i}, "cases": cases}
    return {"violates": False, "cases": cases}



def c19_carry_on_text(pos=1):
    from flow.record import RecordDescriptor, RecordReader, RecordWriter

    D = RecordDescriptor("c19/t", [("varint", "x"), ("string", "s"), ("uri", "u")] if pos == 1 else [("string", "s"), ("varint", "x"), ("uri", "u")])
    with tempfile.TemporaryDirectory() as td:
        p = os.path.join(td, "a.avro")
        w = RecordWriter("avro://" + p)
        w.write(D(s="first", x=1, u="http://a"))
        try:
            w.write(D(s="bad \ud800" if pos != 2 else "fine", x=2, u="http://b/\udfff" if pos == 2 else "http://b"))
            outcome = "written"
        except Exception:
            outcome = "raised"
        w.write(D(s="third", x=3, u="http://c"))
        w.close()
        try:
            back = [(r.s, int(r.x)) for r in RecordReader("avro://" + p)]
        except Exception as e:
            back = f"reading raised {type(e).__name__}: {e}"
    ok = outcome == "raised" and back == [("first", 1), ("third", 3)]
    return {"violates": not ok, "detail": None if ok else f"refused record (text with a lone surrogate) between two accepted ones: {outcome}, read back {back}"}

CALLS = {"c19_carry_on_text": c19_carry_on_text, "c19_stdout": c19_stdout, "c19_value": c19_value, "c19_schema": c19_schema, "c19_refuse": c19_refuse, "c19_mixed": c19_mixed, "c19_carry_on": c19_carry_on, "c19_ts_unrepresentable": c19_ts_unrepresentable, "c19_sweep": c19_sweep}

"""Native harness functions for C03 (run on the real code by /venv/bin/python)."""
import gc
import io
import json
import os
import random
import sys

VERIF = os.path.dirname(os.path.dirname(os.path.abspath(__file__)))
sys.path.insert(0, VERIF)
sys.path.insert(0, os.path.join(VERIF, "spec"))
import ref_codec as R  # noqa: E402
import wire_spec as W  # noqa: E402


def _descs():
    from flow.record import RecordDescriptor

    return {"A": RecordDescriptor("c03/a", [("varint", "n")]), "A2": RecordDescriptor("c03/a", [("string", "s")]), "B": RecordDescriptor("c03/b", [("string", "s")]),
            "N": RecordDescriptor("c03/nest", [("record", "r"), ("record[]", "rs")]), "G1": RecordDescriptor("c03/p", [("varint", "n")]), "G2": RecordDescriptor("c03/q", [("varint", "n")]),
            # different names, the same name ++ field name ++ type text: distinct identifiers
            "X": RecordDescriptor("c03/log", [("string", "inuser")]), "Y": RecordDescriptor("c03/login", [("string", "user")])}


def _fields(r):
    return tuple(tuple(f) for f in r._desc.get_field_tuples())


def _deep_fields(r):
    """(name, fields) of a record and of every nested / grouped member record, in order"""
    from flow.record import GroupedRecord, Record

    out = []
    if isinstance(r, GroupedRecord):
        for m in r.records:
            out += _deep_fields(m)
        return out
    out.append((r._desc.name, _fields(r)))
    for k in r.__slots__:
        v = getattr(r, k)
        if isinstance(v, Record):
            out += _deep_fields(v)
        elif isinstance(v, list):
            for e in v:
                if isinstance(e, Record):
                    out += _deep_fields(e)
    return out


class _Writer:
    """One open writer of the given format on an in-memory file."""

    def __init__(self, fmt):
        self.fmt = fmt
        if fmt == "stream":
            from flow.record.stream import RecordStreamWriter

            self.fp = io.BytesIO()
            self.w = RecordStreamWriter(self.fp)
        else:
            from flow.record.adapter.jsonfile import JsonfileWriter

            self.fp = io.StringIO()
            self.w = JsonfileWriter(self.fp)
        self.written = []

    def write(self, r):
        self.w.write(r)
        self.written.append(r)

    def data(self):
        if self.fmt == "stream":
            self.w.flush()
        return self.fp.getvalue()

    def drop(self):
        self.w.fp = None


def _check_file(fmt, data, written):
    """definition before first use (decoded independently) + every record read back carries the descriptor it was created with"""
    if fmt == "stream":
        known = set()
        for e in R.decode_stream(data):
            if e[0] == "DESC":
                known.add((e[1], W.descriptor_hash(e[1], e[2])))
            else:
                ids = []

                def walk(ev):
                    if ev[0] == "REC":
                        ids.append((ev[1], ev[2]))
                        for v in ev[3]:
                            walkv(v)
                    elif ev[0] == "GROUPED":
                        for m in ev[2]:
                            ids.append((m[0], m[1]))
                            for v in m[2]:
                                walkv(v)

                def walkv(v):
                    if isinstance(v, tuple) and v and v[0] in ("REC", "GROUPED"):
                        walk(v)
                    elif isinstance(v, list):
                        for x in v:
                            walkv(x)

                walk(e)
                for i in ids:
                    if i not in known:
                        return f"a record of type {i} is written before any definition of that type"
        from flow.record.stream import RecordStreamReader

        back = list(RecordStreamReader(io.BytesIO(data)))
    else:
        known = set()
        for line in data.splitlines():
            o = json.loads(line)
            if o.get("_type") == "recorddescriptor":
                name, fields = o["_data"]
                known.add((name, W.descriptor_hash(name, [tuple(f) for f in fields])))
            else:
                def walk(x):
                    if isinstance(x, dict):
                        if x.get("_type") == "record" and tuple(x["_recorddescriptor"]) not in known:
                            return f"a record of type {tuple(x['_recorddescriptor'])} is written before any definition of that type"
                        for v in x.values():
                            r_ = walk(v)
                            if r_:
                                return r_
                    elif isinstance(x, list):
                        for v in x:
                            r_ = walk(v)
                            if r_:
                                return r_
                    return None

                bad = walk(o)
                if bad:
                    return bad
        from flow.record.adapter.jsonfile import JsonfileReader

        back = list(JsonfileReader(io.BytesIO(data.encode())))
    if len(back) != len(written):
        return f"{len(back)} records read back, {len(written)} written"
    for i, (a, b) in enumerate(zip(written, back)):
        if fmt == "json" and type(a).__name__ == "GroupedRecord":
            continue  # JSON flattens grouped records (C14)
        if _deep_fields(a) != _deep_fields(b):
            return f"record {i} read back with descriptor {_deep_fields(b)!r}, written with {_deep_fields(a)!r}"
    return None


def _make(rng, D, depth=0):
    from flow.record import GroupedRecord

    k = rng.randrange(9 if depth == 0 else 5)
    if k == 7 or (depth and k == 3):
        return D["X"](inuser="x%d" % rng.randrange(9))
    if k == 8 or (depth and k == 4):
        return D["Y"](user="y%d" % rng.randrange(9))
    if k == 0:
        return D["A"](n=rng.randrange(9))
    if k == 1:
        return D["A2"](s="s%d" % rng.randrange(9))
    if k == 2:
        return D["B"](s="b")
    if k in (3, 4):
        return D["N"](r=_make(rng, D, depth + 1) if rng.random() < 0.8 else None, rs=[_make(rng, D, depth + 1) for _ in range(rng.randrange(3))])
    if k == 5:
        return GroupedRecord("c03/grp", [D[rng.choice(["G1", "G2", "A"])](n=1), D[rng.choice(["A2", "B"])](s="m")])
    return GroupedRecord("c03/grp", [D[rng.choice(["G1", "G2"])](n=2), D["B"](s="m")])


def c03_history_sweep(seed=0, n=80):
    rng = random.Random(seed)
    D = _descs()
    cases = 0
    for i in range(n):
        fmt = rng.choice(["stream", "json"])
        nwriters = rng.choice([1, 1, 2, 3])
        ws = [_Writer(fmt) for _ in range(nwriters)]
        finished = []
        for step in range(rng.randrange(1, 9)):
            j = rng.randrange(len(ws))
            if rng.random() < 0.15:  # drop a writer (and its packer) and open a new one: what the old one emitted must not count for the new one
                finished.append((ws[j].data(), ws[j].written))
                ws[j].drop()
                ws[j] = None
                gc.collect()
                ws[j] = _Writer(fmt)
            r = _make(rng, D)
            if fmt == "json" and type(r).__name__ == "GroupedRecord":
                r = D["A"](n=3)
            ws[j].write(r)
        for w in ws:
            finished.append((w.data(), w.written))
        for data, written in finished:
            cases += 1
            try:
                bad = _check_file(fmt, data, written)
            except Exception as e:
                bad = f"reading back raised {type(e).__name__}: {e}"
            if bad:
                return {"violates": True, "detail": f"history {i} ({fmt}, {nwriters} writer(s)): {bad}", "witness": {"seed": seed, "history": i, "fmt": fmt}, "cases": cases}
    return {"violates": False, "cases": cases}


def c03_scenario(kind="new type", fmt="stream"):
    """Native counterpart of the scenario obligations: the registry state is produced by a preceding history instead of being arbitrary."""
    from flow.record import GroupedRecord

    D = _descs()
    a, a2, b = D["A"](n=1), D["A2"](s="x"), D["B"](s="b")
    pre = {"new type": [], "known type": [a], "same name registered": [a2], "nested, nothing known": [], "nested, holder known": [D["N"](r=None, rs=[])], "nested, inner known": [a, b],
           "grouped, nothing known": [], "grouped, one member known": [a], "grouped, same names registered": [a, D["B"].__class__("c03/b", [("varint", "zz")])(zz=1)], "grouped twice, other members": [GroupedRecord("c03/grp", [D["G1"](n=1), b])], "same hash text, other name": [], "two writers": [], "frame": [], "write refused while packing, caller carries on": [], "names that differ only in '/' and '_'": [], "declared with byte strings": [], "a record type without fields": [], "grouped records of different shapes, flattened": [], "one holder with two same-name types, read back": [], "grouped record of two same-name types, read back": [], "rotating writer: every file is a stream of its own": [], "grouped record held by a record field": []}[kind]
    if kind.startswith("nested"):
        rec = D["N"](r=a, rs=[a2, b])
    elif kind == "grouped twice, other members":
        rec = GroupedRecord("c03/grp", [D["G2"](n=2), b])
    elif kind == "same hash text, other name":
        pre = [D["X"](inuser="1")]
        rec = D["Y"](user="2")
    elif kind.startswith("grouped"):
        rec = GroupedRecord("c03/grp", [a, b, a2])
    else:
        rec = a
    if kind == "names that differ only in '/' and '_'":
        from flow.record import RecordDescriptor

        names = ["c03/x_y", "c03/x/y", "c03_x/y", "c03/x_y"]
        recs = [RecordDescriptor(nm, [("string", "s")])(s=str(i)) for i, nm in enumerate(names)]
        created = [r._desc.name for r in recs]
        if created != names:
            return {"violates": True, "detail": f"records created through descriptors named {names} carry descriptors named {created}"}
        w = _Writer(fmt)
        for r in recs:
            w.write(r)
        try:
            bad = _check_file(fmt, w.data(), w.written)
        except Exception as e:
            bad = f"reading back raised {type(e).__name__}: {e}"
        return {"violates": bool(bad), "detail": bad}
    if kind == "declared with byte strings":
        import subprocess
        import sys

        # (a fresh interpreter: an equal text-spelled descriptor created earlier in this process would re-bind the shared record class)
        code = (
            "import io, sys\n"
            "from flow.record import RecordDescriptor\n"
            "from flow.record.stream import RecordStreamWriter, RecordStreamReader\n"
            "from flow.record.adapter.jsonfile import JsonfileWriter, JsonfileReader\n"
            "X = RecordDescriptor(b'c03/bytes', [(b'varint', b'n'), ('string', b's')])\n"
            f"fmt = {fmt!r}\n"
            "fp = io.BytesIO() if fmt == 'stream' else io.StringIO()\n"
            "w = RecordStreamWriter(fp) if fmt == 'stream' else JsonfileWriter(fp)\n"
            "w.write(X(n=1, s='x')); w.flush()\n"
            "data = fp.getvalue()\n"
            "rd = RecordStreamReader(io.BytesIO(data)) if fmt == 'stream' else JsonfileReader(io.StringIO(data))\n"
            "back = list(rd)\n"
            "assert len(back) == 1 and back[0]._desc.name == 'c03/bytes' and [tuple(f) for f in back[0]._desc.get_field_tuples()] == [('varint', 'n'), ('string', 's')], back\n"
        )
        p_ = subprocess.run([sys.executable, "-c", code], capture_output=True, text=True, env=dict(os.environ))
        bad = None if p_.returncode == 0 else f"a type declared with byte strings cannot be written and read back: {p_.stderr.strip().splitlines()[-1] if p_.stderr.strip() else p_.returncode}"
        return {"violates": bool(bad), "detail": bad}
    if kind == "write refused while packing, caller carries on":
        from flow.record import RecordDescriptor

        DL = RecordDescriptor("c03/dl", [("dictlist", "dl"), ("varint", "n")])
        w = _Writer(fmt)
        try:
            w.write(DL(dl=[{"k": {1, 2}}], n=1))
            return {"violates": True, "detail": "a record holding an unpackable value was written"}
        except Exception:
            pass
        w.write(DL(dl=[{"k": "v"}], n=2))
        w.write(a)
        try:
            bad = _check_file(fmt, w.data(), w.written)
        except Exception as e:
            bad = f"after a refused write, reading back raised {type(e).__name__}: {e}"
        return {"violates": bool(bad), "detail": bad}
    if kind == "rotating writer: every file is a stream of its own":
        import datetime as dt
        import glob
        import tempfile

        from flow.record import PathTemplateWriter, RecordReader

        bad = None
        with tempfile.TemporaryDirectory() as td:
            w = PathTemplateWriter(os.path.join(td, "{name}-{ts:%Y%m%dT%H}.records"), name="t")
            for i, h in enumerate((20, 21, 22)):
                g = dt.datetime(2017, 12, 6, h, 10, tzinfo=dt.timezone.utc)
                w.write(D["A"](n=i, _generated=g))
                w.write(D["N"](r=D["A2"](s="x"), rs=[], _generated=g))
            w.close()
            for p_ in sorted(glob.glob(os.path.join(td, "*"))):
                try:
                    names_ = [r._desc.name for r in RecordReader(p_)]
                except Exception as e:
                    bad = f"{os.path.basename(p_)} cannot be read on its own: {type(e).__name__}: {e}"
                    break
                if names_ != ["c03/a", "c03/nest"]:
                    bad = f"{os.path.basename(p_)} holds {names_}"
                    break
        return {"violates": bool(bad), "detail": bad}
    if kind == "grouped record held by a record field":
        holder = D["N"](r=GroupedRecord("c03/gin", [a, b]), rs=[GroupedRecord("c03/gin2", [a2])])
        w = _Writer(fmt)
        try:
            w.write(holder)
            from flow.record.stream import RecordStreamReader

            back = list(RecordStreamReader(io.BytesIO(w.data())))
            got = [m._desc.name for m in back[0].r.records]
            bad = None if got == ["c03/a", "c03/b"] else f"the grouped record inside the holder came back with member types {got}"
        except Exception as e:
            bad = f"writing / reading back raised {type(e).__name__}: {e}"
        return {"violates": bool(bad), "detail": bad}
    if kind in ("one holder with two same-name types, read back", "grouped record of two same-name types, read back"):
        rec = D["N"](r=a, rs=[a2, a]) if kind.startswith("one holder") else GroupedRecord("c03/grp", [a, a2])
        w = _Writer(fmt)
        try:
            w.write(rec)
            w.write(b)
            bad = _check_file(fmt, w.data(), w.written)
        except Exception as e:
            bad = f"writing / reading back raised {type(e).__name__}: {e}"
        return {"violates": bool(bad), "detail": bad}
    if kind in ("a record type without fields", "grouped records of different shapes, flattened"):
        from flow.record import RecordDescriptor

        if kind.startswith("a record type"):
            E = RecordDescriptor("c03/empty", [])
            recs = [E(), a, D["N"](r=E(), rs=[]), E()]
        else:
            P, Q = RecordDescriptor("c03/p", [("varint", "n")]), RecordDescriptor("c03/q", [("string", "country")])
            recs = [GroupedRecord("c03/grp", [P(n=1), b]), GroupedRecord("c03/grp", [b, P(n=2)]), GroupedRecord("c03/grp2", [Q(country="nl"), P(n=3)]), GroupedRecord("c03/grp", [P(n=4), b])]
        want = [(r._desc.name, [tuple(f) for f in r._desc.get_field_tuples()]) for r in recs]
        w = _Writer(fmt)
        try:
            for r in recs:
                w.write(r)
            data = w.data()
            if fmt == "stream":
                from flow.record.stream import RecordStreamReader

                back = list(RecordStreamReader(io.BytesIO(data)))
            else:
                from flow.record.adapter.jsonfile import JsonfileReader

                back = list(JsonfileReader(io.StringIO(data)))
            got = [(r._desc.name, [tuple(f) for f in r._desc.get_field_tuples()]) for r in back]
        except Exception as e:
            return {"violates": True, "detail": f"writing / reading back raised {type(e).__name__}: {e}"}
        return {"violates": got != want, "detail": f"read back with descriptors {got}, written with {want}"}
    if kind == "two writers":
        w1, w2 = _Writer(fmt), _Writer(fmt)
        for w in (w1, w2, w1, w2):
            w.write(a)
            w.write(a2)
        bad = _check_file(fmt, w1.data(), w1.written) or _check_file(fmt, w2.data(), w2.written)
        return {"violates": bool(bad), "detail": bad}
    w = _Writer(fmt)
    for r in pre:
        w.write(r)
    w.write(rec)
    try:
        bad = _check_file(fmt, w.data(), w.written)
    except Exception as e:
        bad = f"reading back raised {type(e).__name__}: {e}"
    return {"violates": bool(bad), "detail": bad}


def c03_coincidence():
    from flow.record import RecordDescriptor

    D1 = RecordDescriptor("c03/t", [("stringlist", "a"), ("string", "b")])
    D2 = RecordDescriptor("c03/t", [("string", "a"), ("string", "listb")])
    w = _Writer("stream")
    w.write(D1(a=["x"], b="y"))
    w.write(D2(a="x", listb="y"))
    try:
        bad = _check_file("stream", w.data(), w.written)
    except Exception as e:
        bad = f"reading back raised {type(e).__name__}: {e}"
    return {"violates": bool(bad), "detail": bad, "identifiers": [D1.identifier, D2.identifier]}


def c03_model_conformance():
    """json tree model: dumps calls default once per non-native object, keeps key order; loads calls object_hook bottom-up."""
    calls = []

    class X:
        pass

    def default(o):
        calls.append("d")
        return {"k": 1, "j": [2, 3]}

    s = json.dumps({"b": X(), "a": [X(), "t"]}, default=default)
    if s != '{"b": {"k": 1, "j": [2, 3]}, "a": [{"k": 1, "j": [2, 3]}, "t"]}' or calls != ["d", "d"]:
        return {"ok": False, "detail": f"json.dumps: {s} {calls}"}
    order = []
    json.loads(s, object_hook=lambda d: order.append(sorted(d)) or d)
    if order != [["j", "k"], ["j", "k"], ["a", "b"]]:
        return {"ok": False, "detail": f"object_hook order {order}"}
    return {"ok": True, "cases": 2, "violates": False}


CALLS = {"c03_history_sweep": c03_history_sweep, "c03_scenario": c03_scenario, "c03_coincidence": c03_coincidence, "c03_model_conformance": c03_model_conformance}

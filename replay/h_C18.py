"""Native harness functions for C18 (run on the real code by /venv/bin/python, real sqlite3 engine, independent connections)."""
import datetime
import os
import random
import sqlite3
import tempfile

UTC = datetime.timezone.utc
GEN = datetime.datetime(2020, 1, 2, 3, 4, 5, 6, tzinfo=UTC)
TS = datetime.datetime(1999, 12, 31, 23, 59, 58, 123456, tzinfo=datetime.timezone(datetime.timedelta(hours=2)))


def _rows(path, table):
    con = sqlite3.connect(path)
    try:
        return con.execute('SELECT * FROM "{}"'.format(table.replace('"', '""'))).fetchall()
    except sqlite3.OperationalError:
        return None
    finally:
        con.close()


def _total_rows(path):
    con = sqlite3.connect(path)
    try:
        tabs = [r[0] for r in con.execute("SELECT name FROM sqlite_master WHERE type='table'")]
        return sum(con.execute('SELECT count(*) FROM "{}"'.format(t.replace('"', '""'))).fetchone()[0] for t in tabs)
    finally:
        con.close()


def c18_row(x=0, s=""):
    from flow.record import RecordDescriptor, RecordReader, RecordWriter

    D = RecordDescriptor("c18/all", [("varint", "n"), ("string", "s"), ("bytes", "b"), ("float", "f"), ("boolean", "t"), ("datetime", "ts"), ("path", "p"), ("net.ipaddress", "ip"), ("string[]", "l"), ("uint32", "u")])
    with tempfile.TemporaryDirectory() as td:
        p = os.path.join(td, "a.sqlite")
        w = RecordWriter("sqlite://" + p)
        try:
            w.write(D(n=x, s=s, b=b"\x00\xff", f=1.5, t=True, ts=TS, p="/a/b", ip="1.2.3.4", l=["a", "b"], u=7, _generated=GEN))
        except OverflowError:
            return {"violates": -(2**63) <= x < 2**63, "detail": "OverflowError"}
        w.close()
        rows = _rows(p, "c18/all")
        want = (x, s, b"\x00\xff", 1.5, 1, TS.isoformat(), "/a/b", "1.2.3.4", "['a', 'b']", 7, None, None, GEN.isoformat(), 1)
        if rows != [want]:
            return {"violates": True, "detail": f"row {rows!r}, expected {want!r}"}
        with RecordReader("sqlite://" + p) as rd:
            back = list(rd)
        ok = len(back) == 1 and back[0].n == x and back[0].s == s and back[0].b == b"\x00\xff" and back[0].f == 1.5 and back[0].ts == TS and back[0].ts.utcoffset() == TS.utcoffset() and back[0]._generated == GEN
        return {"violates": not ok, "detail": None if ok else f"read back {back!r}"}


def c18_names(table="a/b", field="select"):
    from flow.record import RecordDescriptor, RecordReader, RecordWriter

    D = RecordDescriptor(table, [("varint", field), ("string", "s")])
    with tempfile.TemporaryDirectory() as td:
        p = os.path.join(td, "a.sqlite")
        w = RecordWriter("sqlite://" + p)
        w.write(D(**{field: 5, "s": "v"}))
        w.close()
        rows = _rows(p, table)
        with RecordReader("sqlite://" + p) as rd:
            back = [(r._desc.name, getattr(r, field), r.s) for r in rd]
    ok = rows is not None and [r[:2] for r in rows] == [(5, "v")] and back == [(table, 5, "v")]
    return {"violates": not ok, "detail": f"rows {rows!r} read back {back!r}"}


def c18_rowid_column(field="rowid"):
    from flow.record import RecordDescriptor, RecordReader, RecordWriter

    rows = [(None, "a"), (0, "b"), (7, "c"), (7, "d"), (-1, "e"), (3, "f")]
    D = RecordDescriptor("c18/ids", [("varint", field), ("string", "s")])
    with tempfile.TemporaryDirectory() as td:
        p = os.path.join(td, "a.sqlite")
        w = RecordWriter("sqlite://" + p)
        for v, s in rows:
            w.write(D(**{field: v, "s": s}))
        w.close()
        bad = None
        for bs in (1000, 2, 1):
            with RecordReader(f"sqlite://{p}?batch_size={bs}") as rd:
                back = [(getattr(r, field), r.s) for r in rd]
            if back != rows:
                bad = f"rows written {rows}, read back {back} (reader batch size {bs})"
                break
    return {"violates": bool(bad), "detail": bad}


def c18_evolve(sessions=1):
    from flow.record import RecordDescriptor, RecordWriter

    D1 = RecordDescriptor("c18/ev", [("varint", "a")])
    D2 = RecordDescriptor("c18/ev", [("varint", "a"), ("string", "b"), ("bytes", "c")])
    with tempfile.TemporaryDirectory() as td:
        p = os.path.join(td, "a.sqlite")
        w = RecordWriter("sqlite://" + p)
        w.write(D1(a=1, _generated=GEN))
        if sessions == 2:
            w.close()
            w = RecordWriter("sqlite://" + p)
        try:
            w.write(D2(a=2, b="bb", c=b"c", _generated=GEN))
            w.write(D1(a=3, _generated=GEN))
            w.close()
        except Exception as e:
            return {"violates": True, "detail": f"{type(e).__name__}: {e}"}
        con = sqlite3.connect(p)
        rows = con.execute('SELECT a, b, c FROM "c18/ev"').fetchall()
    ok = rows == [(1, None, None), (2, "bb", b"c"), (3, None, None)]
    return {"violates": not ok, "detail": f"rows {rows!r}"}


def _commit_points(types, batch):
    exp, committed, seen = [], 0, set()
    for i, t in enumerate(types):
        if t not in seen:
            seen.add(t)
            committed = i
        if (i + 1) % batch == 0:
            committed = i + 1
        exp.append(committed)
    return exp


def _batches(recs, batch, strict=False):
    from flow.record import RecordWriter

    with tempfile.TemporaryDirectory() as td:
        p = os.path.join(td, "a.sqlite")
        w = RecordWriter("sqlite://" + p, batch_size=batch)
        seen = []
        for r in recs:
            w.write(r)
            seen.append(_total_rows(p))
        exp = _commit_points([r._desc for r in recs], batch)
        whole = [((i + 1) // batch) * batch for i in range(len(recs))]  # what the statement says: whole batches only
        if strict and seen != whole:
            return f"rows visible to another connection after each write {seen} - a part of the batch is visible (whole batches: {whole})"
        if seen != exp and seen != whole:
            return f"rows visible to another connection after each write {seen}; whole batches give {whole} (with the commit in front of a new record type: {exp})"
        w.close()
        if _total_rows(p) != len(recs):
            return f"after close() {_total_rows(p)} rows are committed, {len(recs)} were written"
        content = {}
        con = sqlite3.connect(p)
        for (t,) in con.execute("SELECT name FROM sqlite_master WHERE type='table'").fetchall():
            content[t] = con.execute('SELECT * FROM "{}"'.format(t)).fetchall()
        con.close()
    return content


def c18_evolve_colliding(order="12"):
    from flow.record import RecordDescriptor, RecordWriter

    D1 = RecordDescriptor("c18/col", [("string", "host"), ("string", "name")])
    D2 = RecordDescriptor("c18/col", [("string", "hoststringname")])
    recs = [D1(host="h", name="n", _generated=GEN), D2(hoststringname="x", _generated=GEN)]
    with tempfile.TemporaryDirectory() as td:
        p = os.path.join(td, "a.sqlite")
        w = RecordWriter("sqlite://" + p)
        out = []
        for r in (recs if order == "12" else recs[::-1]):
            try:
                w.write(r)
                out.append("written")
            except Exception as e:
                out.append(f"raised {type(e).__name__}")
        w.close()
        con = sqlite3.connect(p)
        cols = sorted(c[1] for c in con.execute('PRAGMA table_info("c18/col")').fetchall() if not c[1].startswith("_"))
        nrows = con.execute('SELECT count(*) FROM "c18/col"').fetchone()[0]
        con.close()
    ok = out == ["written", "written"] and cols == ["host", "hoststringname", "name"] and nrows == 2
    return {"violates": not ok, "detail": None if ok else f"writes {out}, columns {cols}, rows {nrows}"}


def c18_refused(batch=1000):
    from flow.record import RecordDescriptor, RecordWriter

    D = RecordDescriptor("c18/b", [("varint", "n"), ("string", "s")])
    with tempfile.TemporaryDirectory() as td:
        p = os.path.join(td, "a.sqlite")
        w = RecordWriter("sqlite://" + p, batch_size=batch)
        accepted = []
        for i, v in enumerate([0, 1, 2**80, 3, 4, -(2**70), 5]):
            try:
                w.write(D(n=v, s=f"r{i}", _generated=GEN))
                accepted.append(v)
            except Exception:
                pass
        w.close()
        rows = _rows(p, "c18/b")
    stored = [r[0] for r in rows] if rows is not None else None
    ok = accepted == [0, 1, 3, 4, 5] and stored == accepted
    return {"violates": not ok, "detail": None if ok else f"batch size {batch}: accepted n={accepted}, stored after close n={stored}"}


def c18_batches(n=3, batch=2, strict=False):
    from flow.record import RecordDescriptor

    D = RecordDescriptor("c18/b", [("varint", "n"), ("string", "s")])
    E = RecordDescriptor("c18/e", [("varint", "n")])
    recs = [E(n=i, _generated=GEN) if i == 2 else D(n=i, s=f"r{i}", _generated=GEN) for i in range(n)]
    res = _batches(recs, batch, strict)
    if isinstance(res, str):
        return {"violates": True, "detail": res}
    ref = _batches(recs, 1)
    return {"violates": res != ref, "detail": None if res == ref else "the stored content depends on the batch size"}


def c18_sweep(seed=0, n=60):
    from flow.record import RecordDescriptor, RecordReader

    rng = random.Random(seed)
    names = ["c18/a", "sqlite/table", "sqlite3x", "x", "a/b/c", "table", "select/from"]
    fnames = ["n", "select", "order", "group", "Index", "from", "s", "b", "ts", "f"]
    types = {"varint": lambda: rng.choice([0, -1, 2**63 - 1, -(2**63), rng.randrange(-(2**40), 2**40)]), "string": lambda: rng.choice(["", "a", "é€", "q'\"q", "x" * 100]), "bytes": lambda: rng.choice([b"", b"\x00\xff", b"abc"]),
             "float": lambda: rng.choice([0.0, 1.5, -2.25, 1e300]), "datetime": lambda: rng.choice([TS, GEN, datetime.datetime(1969, 1, 1, tzinfo=UTC)]), "boolean": lambda: rng.choice([True, False]), "path": lambda: rng.choice(["/a/b", "rel"]), "uint16": lambda: rng.randrange(65536)}
    cases = 0
    for i in range(n):
        base_name = rng.choice(names)
        fs = rng.sample(fnames, rng.randrange(1, 5))
        fields = [(rng.choice(sorted(types)), f) for f in fs]
        descs = [RecordDescriptor(base_name, fields)]
        if rng.random() < 0.5:  # evolution: the same name gains fields
            more = [f for f in fnames if f not in fs][: rng.randrange(1, 3)]
            descs.append(RecordDescriptor(base_name, fields + [(rng.choice(sorted(types)), f) for f in more]))
        if rng.random() < 0.5:
            descs.append(RecordDescriptor(rng.choice([nm for nm in names if nm != base_name]), [("varint", "n")]))
        recs = []
        for _ in range(rng.randrange(0, 9)):
            D = rng.choice(descs)
            recs.append(D(_generated=GEN, **{f: (None if rng.random() < 0.15 else types[t]()) for t, f in D.get_field_tuples()}))
        batch = rng.choice([1, 2, 3, 5, 1000])
        cases += 1
        try:
            res = _batches(recs, batch)
            if isinstance(res, str):
                raise AssertionError(res)
            if batch != 1 and res != _batches(recs, 1):
                raise AssertionError(f"the stored content depends on the batch size ({batch} vs 1)")
            # rows in write order with the expected values per table
            for t, rows in res.items():
                mine = [r for r in recs if r._desc.name == t]
                if len(rows) != len(mine):
                    raise AssertionError(f"table {t}: {len(rows)} rows for {len(mine)} records")
            # read back through the adapter: same number of records per type, values for the mappable kinds
            with tempfile.TemporaryDirectory() as td:
                from flow.record import RecordWriter

                p = os.path.join(td, "b.sqlite")
                half = len(recs) // 2
                for part in (recs[:half], recs[half:]):  # two writer sessions onto one database
                    w = RecordWriter("sqlite://" + p, batch_size=batch)
                    for r in part:
                        w.write(r)
                    w.close()
                with RecordReader("sqlite://" + p) as rd:
                    back = list(rd)
                for nm in {r._desc.name for r in recs}:
                    a, b = [r for r in recs if r._desc.name == nm], [r for r in back if r._desc.name == nm]
                    if len(a) != len(b):
                        raise AssertionError(f"type {nm}: {len(a)} written over two sessions, {len(b)} read back")
                    for x_, y_ in zip(a, b):
                        for t, f in x_._desc.get_field_tuples():
                            v, u = getattr(x_, f), getattr(y_, f, None)
                            if t in ("varint", "string", "bytes", "float", "datetime") and v is not None:
                                if not (u == v) or (t == "datetime" and u.utcoffset() != v.utcoffset()):
                                    raise AssertionError(f"type {nm} field {f} ({t}): wrote {v!r}, read {u!r}")
        except Exception as e:
            return {"violates": True, "detail": f"history {i} (batch size {batch}, types {[d.name for d in descs]}): {type(e).__name__}: {e}"[:600], "witness": {"seed": seed, "history": i}, "cases": cases}
    return {"violates": False, "cases": cases}



def c18_close_busy(batch=1000, n=3, busy=1):
    """the commit of close() fails `busy` times because another connection holds a read lock; the caller closes again after the lock is gone"""
    import sqlite3
    import tempfile

    from flow.record import RecordDescriptor
    from flow.record.adapter.sqlite import SqliteWriter

    D = RecordDescriptor("c18/b", [("varint", "n"), ("string", "s")])
    with tempfile.TemporaryDirectory() as td:
        path = os.path.join(td, "c18.sqlite")
        w = SqliteWriter(path, batch_size=batch)
        for i in range(n):
            w.write(D(n=i, s=f"r{i}"))
        if w.con is not None:
            w.con.execute("PRAGMA busy_timeout = 50")
        errors = 0
        for attempt in range(busy + 1):
            blocker = cur = None
            if attempt < busy:
                # a reader inside an explicit transaction keeps its SHARED lock until it ends the transaction: the writer's COMMIT gets SQLITE_BUSY
                blocker = sqlite3.connect(path, isolation_level=None)
                blocker.execute("BEGIN")
                cur = blocker.execute("SELECT count(*) FROM sqlite_master")
                cur.fetchall()
            try:
                w.close()
                ok = True
            except sqlite3.OperationalError:
                errors += 1
                ok = False
            finally:
                if blocker is not None:
                    blocker.execute("ROLLBACK")
                    blocker.close()
            if ok:
                break
        con = sqlite3.connect(path)
        try:
            rows = [tuple(r) for r in con.execute('SELECT n, s FROM "c18/b" ORDER BY rowid')]
        except sqlite3.OperationalError as e:
            rows = f"{e}"
        con.close()
    want = [(i, f"r{i}") for i in range(n)]
    return {"violates": rows != want, "detail": f"after close() was retried the database holds {rows!r} ({errors} refused attempt(s)); written {want!r}", "refused_attempts": errors}

CALLS = {"c18_close_busy": c18_close_busy, "c18_evolve_colliding": c18_evolve_colliding, "c18_refused": c18_refused, "c18_rowid_column": c18_rowid_column, "c18_row": c18_row, "c18_names": c18_names, "c18_evolve": c18_evolve, "c18_batches": c18_batches, "c18_sweep": c18_sweep}

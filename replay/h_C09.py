"""Native harness functions for C09 (run on the real code by /venv/bin/python)."""
import random


class Canary(list):
    """A list value whose every method call / mutation is logged."""

    log = []

    def _wrap(name):
        def f(self, *a, **k):
            Canary.log.append(name)
            return getattr(list, name)(self, *a, **k)

        return f

    for _n in ("append", "pop", "clear", "sort", "extend", "insert", "remove", "reverse", "__setitem__", "__delitem__", "__iadd__"):
        locals()[_n] = _wrap(_n)


def _rec():
    from flow.record import RecordDescriptor

    D = RecordDescriptor("c09/rec", [("varint", "n"), ("string", "s"), ("string[]", "tags")])
    return D(n=5, s="abc", tags=["a", "b"])


def _observe(rec):
    return (int(rec.n), str(rec.s), list(rec.tags), rec._source, rec._classification, rec._version)


def c09_eval(expr):
    from flow.record.selector import Selector

    try:
        Selector(expr).match(_rec())
        return {"outcome": "value", "violates": False}
    except Exception as e:
        return {"outcome": "raise:" + type(e).__name__, "violates": False}


def _attack(expr, genvar=None):
    """Runs the interpreted selector on a record with logging call canaries. Returns (outcome, calls logged, record changed)."""
    from flow.record.selector import Selector

    rec = _rec()
    before = _observe(rec)
    calls = []
    import builtins

    class Spy(str):
        def upper(self):
            calls.append("str.upper")
            return str.upper(self)

        def format(self, *a, **k):
            calls.append("str.format")
            return str.format(self, *a, **k)

    try:
        out = ("val", Selector(expr).match(rec))
    except Exception as e:
        out = ("raise", type(e).__name__, str(e)[:100])
    return out, calls, _observe(rec) != before


def _calls_outside_language(expr):
    """Call nodes of the expression whose callee is not a plain dotted name of an allowed function / whitelisted field type."""
    import ast

    from flow.record import selector
    from flow.record.whitelist import WHITELIST

    ok = {f.__name__ for f in selector.FUNCTION_WHITELIST} | {"str", "repr", "any", "all", "fields"} | set(WHITELIST)
    bad = []
    for n in ast.walk(ast.parse(expr, mode="eval")):
        if isinstance(n, ast.Call):
            x, path = n.func, []
            while isinstance(x, ast.Attribute):
                path.append(x.attr)
                x = x.value
            dotted = ".".join(reversed(path + [x.id])) if isinstance(x, ast.Name) else None
            if dotted not in ok:
                bad.append(ast.unparse(n.func))
    return bad


def c09_hostile(expr, genvar=None, frame=False, typeattr=False, refuse=False):
    """Violation: the record is modified, or an expression holding a call outside the allowed language evaluates to a value.
    With a generator variable name, the call is also tried inside generator expressions that bind that name to a mutating bound method."""
    candidates = [expr]
    if genvar:
        candidates += [f"1 in ({expr} for {genvar} in [r.tags.append])", f"any({expr} for {genvar} in [r.tags.append])", f"'x' in ({expr} for {genvar} in [r.tags.pop])"]
    res = {"tried": []}
    for e in candidates:
        try:
            compile(e, "<x>", "eval")
        except SyntaxError:
            continue
        out, calls, changed = _attack(e)
        bad_calls = _calls_outside_language(e)
        # a generator variable that shadows an allowed name is still "outside the language" when it is the thing that gets called: detected by the mutation
        v = changed or (not frame and out[0] == "val" and bool(bad_calls))
        if typeattr:  # `Type.<type>.<method> == value`: true only if the method named by the chain was invoked
            v = changed or (out[0] == "val" and bool(out[1]) is True)
        if refuse:  # an expression node class outside the documented language must be refused
            v = changed or out[0] == "val"
        res["tried"].append({"expression": e, "outcome": out, "record_modified": changed, "calls_outside_language": bad_calls})
        if v:
            res["violates"] = True
            return res
    res["violates"] = False
    return res


def c09_pure(expr):
    """an allowed expression whose arguments are values held by the record: nothing of the record changes, no method of a held value is invoked"""
    from flow.record import RecordDescriptor
    from flow.record.selector import Selector

    log = []

    class Can:
        def gettypename(self):
            log.append("gettypename")
            return "string"

        def lower(self):
            log.append("lower")
            return self

    rec = RecordDescriptor("c09/can", [("varint", "n"), ("string", "s"), ("string[]", "tags"), ("record", "c")])(n=5, s="abc", tags=["Wheel", "ROOT", "adm"], c=Can())
    try:
        Selector(expr).match(rec)
    except Exception:
        pass
    bad = list(rec.tags) != ["Wheel", "ROOT", "adm"] or bool(log)
    return {"violates": bad, "detail": f"{expr!r}: the list field is now {list(rec.tags)}; methods of a held value invoked: {log}" if bad else None}


def c09_dunder(expr):
    out, calls, changed = _attack(expr)
    name = expr.rsplit(".", 1)[-1]
    return {"expression": expr, "outcome": out, "violates": name.startswith("__") and out[0] == "val"}


def c09_sandbox_fuzz(seed, n):
    from flow.record.selector import Selector

    rnd = random.Random(seed)
    methods = ["append('x')", "pop()", "clear()", "sort()", "upper()", "format(r)", "__len__()", "extend(['q'])", "insert(0, 'z')", "remove('a')", "reverse()", "copy()", "encode()", "__class__", "__init__()", "keys()"]
    roots = ["r.tags", "r.s", "r.n", "r", "names(r)", "lower(r.s)", "str(r.n)", "'abc'", "[r.tags][0]", "(r.tags or r.s)", "fields('string')", "Type.string", "net", "string", "upper"]
    builtins_ = ["eval('1')", "exec('1')", "open('x')", "__import__('os')", "getattr(r, 'n')", "setattr(r, 'n', 1)", "type(r)", "print(1)", "compile('1', '', 'eval')", "globals()", "locals()", "vars(r)", "dir(r)", "len(r.tags)", "iter(r.tags)", "list(r.tags)", "int('1')", "isinstance(r, str)", "hasattr(r, 'n')", "delattr(r, 'n')"]
    cases = 0
    for i in range(n):
        k = rnd.randrange(8)
        root, meth = rnd.choice(roots), rnd.choice(methods)
        if k == 0:
            expr = f"{root}.{meth}"
        elif k == 1:
            expr = rnd.choice(builtins_)
        elif k == 2:
            v = rnd.choice(["f", "x", "string", "uint32", "varint", "upper2", "net2", "g"])
            expr = f"{rnd.choice(['any', 'all', '1 in '])}({v}{rnd.choice(['()', '(1)', '(r)'])} for {v} in [{root}.{meth.split('(')[0]}])"
        elif k == 3:
            expr = f"{root}.{meth} == 1 or True"
        elif k == 4:
            expr = f"upper({root}.{meth})"
        elif k == 5:
            expr = f"({root}.{meth.split('(')[0]})({rnd.choice(['', '1', 'r'])})"
        elif k == 6:
            expr = f"{root}.{rnd.choice(['__class__', '__dict__', '__init__', '__globals__', '__self__', '__call__', '__getattribute__'])}"
        else:
            expr = f"any({rnd.choice(builtins_)} for x in [1])"
        try:
            compile(expr, "<x>", "eval")
        except SyntaxError:
            continue
        cases += 1
        out, calls, changed = _attack(expr)
        calls_a_method = "(" in expr.replace("upper(", "", 1) if k == 4 else True
        if changed:
            return {"violates": True, "detail": f"Selector({expr!r}) modified the record", "witness": {"expr": expr, "genvar": None}, "cases": cases}
        if k == 2 and v in ("string", "uint32", "varint"):
            continue  # the callee is the whitelisted field type of that name, not the generator variable: may legitimately evaluate (record unchanged was checked)
        if out[0] == "val" and k in (0, 1, 2, 3, 5, 6, 7):
            # every generated expression contains a call or dunder access outside the allowed language: a value means something was invoked / read
            if not (k == 1 and False):
                return {"violates": True, "detail": f"Selector({expr!r}) evaluated to {out[1]!r} instead of being refused", "witness": {"expr": expr, "genvar": None}, "cases": cases}
    return {"violates": False, "cases": cases}



def c09_entry_history(expr="r.s.upper()"):
    from flow.record import RecordDescriptor
    from flow.record.selector import Selector, make_selector

    rec = RecordDescriptor("c09/e", [("string", "s"), ("string[]", "tags")])(s="abc", tags=["a"])
    try:
        make_selector(expr, force_compiled=True)
    except Exception:
        pass
    s = make_selector(expr)
    try:
        out = ("val", repr(s.match(rec))[:60])
    except Exception as e:
        out = ("raise", type(e).__name__)
    bad = type(s) is not Selector or out[0] != "raise" or list(rec.tags) != ["a"]
    return {"violates": bad, "detail": f"make_selector({expr!r}) after a compiled selector of the same text: {type(s).__name__}, evaluation {out}, tags {list(rec.tags)}"}

CALLS = {"c09_entry_history": c09_entry_history, "c09_pure": c09_pure, "c09_eval": c09_eval, "c09_hostile": c09_hostile, "c09_dunder": c09_dunder, "c09_sandbox_fuzz": c09_sandbox_fuzz}

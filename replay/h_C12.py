"""Native harness functions for C12 (run on the real code by /venv/bin/python)."""
import math
import random

ALLTYPES = [("varint", "n"), ("string", "s"), ("uint16", "p"), ("boolean", "b"), ("float", "f"), ("bytes", "by"), ("datetime", "ts"), ("digest", "dg"), ("path", "pa"), ("command", "cmd"), ("net.ipaddress", "ip"),
            ("net.ipnetwork", "nw"), ("string[]", "sl"), ("dictlist", "dl"), ("stringlist", "sl2"), ("uri", "u"), ("filesize", "fs"), ("unix_file_mode", "um"), ("uint32", "p32"), ("wstring", "ws"), ("varint[]", "il"), ("net.tcp.Port", "tp")]
VALUES = {"p": 80, "b": True, "f": 1.5, "by": b"ab", "ts": "2020-01-02T03:04:05.000006+00:00", "dg": ("d41d8cd98f00b204e9800998ecf8427e", None, None), "pa": "/a/b", "cmd": "ls -l /tmp", "ip": "1.2.3.4", "nw": "10.0.0.0/8", "sl": ["a", "b"],
          "dl": [{"a": 1, "b": [1, 2]}, {"c": {"d": 1}}], "sl2": ["x"], "u": "http://h/p?q", "fs": 3, "um": 0o644, "p32": 70000, "ws": "w", "il": [1, 2], "tp": 443}


def _one():
    import importlib.util
    import os

    spec = importlib.util.spec_from_file_location("c12_values", os.path.join(os.path.dirname(__file__), "c12_values.py"))
    m = importlib.util.module_from_spec(spec)
    spec.loader.exec_module(m)
    return m.ONE


def _laws(a, b, expect_equal):
    """Returns a list of violated laws for two records."""
    bad = []
    try:
        e1, e2, n1 = a == b, b == a, a != b
        ha, hb = hash(a), hash(b)
        if a != a or not (a == a):
            bad.append("not reflexive")
        if e1 != e2:
            bad.append("not symmetric")
        if n1 == e1:
            bad.append("!= is not the negation of ==")
        if e1 and ha != hb:
            bad.append("equal records with different hashes")
        if expect_equal is not None and bool(e1) != expect_equal:
            bad.append(f"== is {e1}, expected {expect_equal}")
        if hash(a) != ha:
            bad.append("unstable hash")
        {a: 1, b: 2}
        len({a, b})
    except Exception as e:
        bad.append(f"raised {type(e).__name__}: {e}")
    return bad


def c12_laws(kind, n1=0, n2=0, s1="", s2="", **kw):
    from flow.record import GroupedRecord, RecordDescriptor
    from flow.record.base import ignore_fields_for_comparison

    n1, n2, s1, s2 = n1 or 0, n2 or 0, s1 or "", s2 or ""
    D = RecordDescriptor("c12/all", ALLTYPES)
    mk = lambda n, s, gen=None: D(n=n, s=s, _generated=gen, **VALUES)
    out = {"kind": kind, "values": [n1, n2, s1, s2]}
    if kind in ("plain", "other"):
        a = mk(n1, s1)
        b = mk(n2, s2, a._generated)
        bad = _laws(a, b, n1 == n2 and s1 == s2)
        if kind == "other":
            for o in (None, 5, "x", (1, 2)):
                if a == o or not (a != o):
                    bad.append(f"record == {o!r}")
    elif kind == "ignore_s":
        a = mk(n1, s1)
        b = mk(n2, s2)
        with ignore_fields_for_comparison(["s", "_generated"]):
            bad = _laws(a, b, n1 == n2)
    elif kind == "inplace":
        D2 = RecordDescriptor("c12/lists", [("path[]", "ps"), ("net.ipaddress[]", "ips"), ("string[]", "ss"), ("uint16[]", "us")])
        a = D2(ps=["/a", "/b"], ips=["1.2.3.4", "::1"], ss=["x", "y"], us=[1, 2])
        b = D2(ps=["/a"], ips=[], ss=["x"], us=[1], _generated=a._generated)
        b.ps.append("/b")
        b.ips.extend(["1.2.3.4", "::1"])
        b.ss.append("y")
        b.us.append(2)
        bad = _laws(a, b, True)
    elif kind == "nested_ignored":
        import datetime

        I, O = RecordDescriptor("c12/inner", [("string", "s")]), RecordDescriptor("c12/outer", [("record", "r"), ("record[]", "rs")])
        T1, T2 = datetime.datetime(2020, 1, 1, tzinfo=datetime.timezone.utc), datetime.datetime(2021, 1, 1, tzinfo=datetime.timezone.utc)
        a = O(r=I(s="x", _generated=T1, _source="one"), rs=[I(s="y", _generated=T1)], _generated=T1)
        b = O(r=I(s="x", _generated=T2, _source="two"), rs=[I(s="y", _generated=T2)], _generated=T2)
        with ignore_fields_for_comparison(["_generated", "_source"]):
            bad = _laws(a, b, True)
    elif kind == "descriptor":
        A, B = RecordDescriptor("c12/x", [("varint", "n")]), RecordDescriptor("c12/x", [("varint", "n"), ("string", "s")])
        a = A(n=n1)
        bad = _laws(a, B(n=n1, _generated=a._generated), False)
    elif kind == "nested":
        I, O = RecordDescriptor("c12/inner", [("varint", "n"), ("command", "c")]), RecordDescriptor("c12/outer", [("record", "r"), ("record[]", "rs"), ("string", "s")])
        i1 = I(n=n1, c="ls -l")
        i2, i3 = I(n=n2, c="ls -l", _generated=i1._generated), I(n=7, c="cat /x", _generated=i1._generated)
        a = O(r=i1, rs=[i3, i1], s="q")
        bad = _laws(a, O(r=i2, rs=[i3, i2], s="q", _generated=a._generated), n1 == n2)
    elif kind == "evicted":
        from flow.record.base import _generate_record_class

        A1 = RecordDescriptor("c12/ev", [("varint", "n"), ("string", "s")])
        a = A1(n=n1, s=s1)
        _generate_record_class.cache_clear()  # the entry is evicted (what happens after 4096 other record types)
        A2 = RecordDescriptor("c12/ev", [("varint", "n"), ("string", "s")])
        b = A2(n=n2, s=s2, _generated=a._generated)
        bad = _laws(a, b, n1 == n2 and s1 == s2)
        if type(a) is type(b):
            bad.append("harness: the classes are not distinct")
    elif kind == "grouped_mutation":
        from flow.record.base import set_ignored_fields_for_comparison

        A, B = RecordDescriptor("c12/ga", [("varint", "n")]), RecordDescriptor("c12/gb", [("string", "s")])
        a1, c1 = A(n=n1), B(s="c")
        g1 = GroupedRecord("grp", [a1, c1])
        hash(g1)
        a1.n = n2
        g2 = GroupedRecord("grp", [A(n=n2, _generated=a1._generated), B(s="c", _generated=c1._generated)])
        bad = _laws(g1, g2, True)
        set_ignored_fields_for_comparison(["n"])
        try:
            g3 = GroupedRecord("grp", [A(n=n2 + 1, _generated=a1._generated), B(s="c", _generated=c1._generated)])
            bad += _laws(g1, g3, True)
        finally:
            set_ignored_fields_for_comparison([])
    elif kind in ("grouped", "grouped_ignore"):
        A, B = RecordDescriptor("c12/ga", [("varint", "n"), ("command", "c")]), RecordDescriptor("c12/gb", [("string", "s")])
        a1 = A(n=n1, c="ls -l")
        a2 = A(n=n2, c="ls -l", _generated=a1._generated)
        c1 = B(s=s1)
        c2 = B(s=s2, _generated=c1._generated)
        if kind == "grouped":
            bad = _laws(GroupedRecord("grp", [a1, c1]), GroupedRecord("grp", [a2, c2]), n1 == n2 and s1 == s2)
        else:
            with ignore_fields_for_comparison(["s", "_generated"]):
                bad = _laws(GroupedRecord("grp", [a1, c1]), GroupedRecord("grp", [A(n=n2, c="ls -l"), B(s=s2)]), n1 == n2)
    else:
        bad = [f"unknown kind {kind}"]
    out["violated"] = bad
    out["violates"] = bool(bad)
    return out


def c12_type(ftype, report=False):
    from flow.record import RecordDescriptor

    v, same, other = _one()[ftype]
    D = RecordDescriptor("c12/one", [(ftype, "x")])
    try:
        a = D(x=v)
        b, c, u = D(x=same, _generated=a._generated), D(x=other, _generated=a._generated), D(_generated=a._generated)
        if report:
            return {"outcome": repr([a == b, a == c, a != c]), "violates": False}
        bad = _laws(a, b, True) + _laws(a, c, False) + _laws(u, u, True) + _laws(a, u, False)
    except Exception as e:
        if report:
            return {"outcome": "raise:" + type(e).__name__, "violates": False}
        bad = [f"raised {type(e).__name__}: {e}"]
    return {"ftype": ftype, "violated": bad, "violates": bool(bad)}


def c12_nan():
    from flow.record import GroupedRecord, RecordDescriptor

    a = RecordDescriptor("c12/nan", [("float", "f"), ("float[]", "fl")])(f=float("nan"), fl=[float("nan")])
    g = GroupedRecord("grp", [a])
    res = {"a == a": a == a, "a != a": a != a, "g == g": g == g}
    res["violates"] = not (res["a == a"] and not res["a != a"] and res["g == g"])
    return res


def c12_coincidence():
    import datetime

    from flow.record import RecordDescriptor

    C = RecordDescriptor("c12/x", [("string", "a"), ("string", "stringb")])
    D = RecordDescriptor("c12/x", [("string", "astring"), ("string", "b")])
    T = datetime.datetime(2020, 1, 1, tzinfo=datetime.timezone.utc)
    c, d = C("1", "2", _generated=T), D("1", "2", _generated=T)
    bad = (C != D) and (c == d or d == c)
    return {"violates": bool(bad), "detail": f"descriptors equal: {C == D}; records of the two descriptors compare equal: {c == d} / {d == c}" if bad else None}


def c12_scope(prior, body_raises, nested):
    from flow.record import base

    saved = base.IGNORE_FIELDS_FOR_COMPARISON
    try:
        base.set_ignored_fields_for_comparison(prior)
        before = set(base.IGNORE_FIELDS_FOR_COMPARISON)
        inside = inner_after = None
        try:
            with base.ignore_fields_for_comparison(["n"]):
                inside = set(base.IGNORE_FIELDS_FOR_COMPARISON)
                if nested:
                    with base.ignore_fields_for_comparison(["s", "q"]):
                        pass
                    inner_after = set(base.IGNORE_FIELDS_FOR_COMPARISON)
                if body_raises:
                    raise {True: ValueError, "KeyboardInterrupt": KeyboardInterrupt, "GeneratorExit": GeneratorExit, "SystemExit": SystemExit}[body_raises]("body fails")
        except BaseException:
            pass
        after = set(base.IGNORE_FIELDS_FOR_COMPARISON)
        ok = after == before and inside == {"n"} and (inner_after == {"n"} if nested else True)
        return {"before": sorted(before), "inside": sorted(inside), "after_inner": sorted(inner_after) if inner_after is not None else None, "after": sorted(after), "violates": not ok}
    finally:
        base.IGNORE_FIELDS_FOR_COMPARISON = saved


def c12_random_laws(seed, n):
    from flow.record import GroupedRecord, RecordDescriptor, base

    rnd = random.Random(seed)
    one = _one()
    types = sorted(one)
    cases = 0
    specials = {"float": [float("nan"), float("inf"), -0.0, 0.0, 1e308], "string": ["", "\udcff", "\x00", "a" * 100], "varint": [0, -1, 2**64, -(2**70)], "bytes": [b"", b"\x00\xff"], "dictlist": [[{"a": 1, "b": 2}], [{"b": 2, "a": 1}], []],
                "float[]": [[float("nan")], []], "string[]": [[], ["\udcff"]]}
    for i in range(n):
        k = rnd.randint(1, 4)
        fts = [(rnd.choice(types), f"f{j}") for j in range(k)]
        D = RecordDescriptor("c12/rnd", fts)
        def val(t):
            if t in specials and rnd.random() < 0.5:
                return rnd.choice(specials[t])
            return rnd.choice(one[t])
        va = {f: val(t) for t, f in fts}
        same = rnd.random() < 0.5
        vb = dict(va) if same else {f: val(t) for t, f in fts}
        try:
            a = D(**va)
            b = D(_generated=a._generated, **vb)
        except Exception as e:
            continue
        cases += 1
        pairs = [(a, b)]
        if rnd.random() < 0.3:
            pairs.append((GroupedRecord("g", [a, RecordDescriptor("c12/m", [("varint", "z")])(z=1)]), GroupedRecord("g", [b, RecordDescriptor("c12/m", [("varint", "z")])(z=1)])))
        if rnd.random() < 0.3:
            O = RecordDescriptor("c12/o", [("record", "r"), ("record[]", "rs")])
            oa = O(r=a, rs=[a, b])
            pairs.append((oa, O(r=b, rs=[b, b], _generated=oa._generated)))
        for x, y in pairs:
            bad = _laws(x, y, None)
            if bad:
                return {"violates": True, "detail": f"{bad} for fields {fts} values {va!r} / {vb!r} ({type(x).__name__})", "witness": {"fields": fts, "a": repr(va), "b": repr(vb)}, "cases": cases}
        if rnd.random() < 0.2:
            r = c12_scope(rnd.choice([[], ["x"], ["f0", "_generated"]]), rnd.random() < 0.5, rnd.random() < 0.5)
            if r["violates"]:
                return {"violates": True, "detail": f"scoped override not restored: {r}", "witness": r, "cases": cases}
    return {"violates": False, "cases": cases}



def c12_config_kind(kind="list", via="setter"):
    from flow.record import RecordDescriptor, base

    KINDS = {"list": lambda: ["n", "q"], "tuple": lambda: ("n", "q"), "set": lambda: {"n", "q"}, "frozenset": lambda: frozenset({"n", "q"}), "dict keys": lambda: {"n": 1, "q": 2}.keys(), "generator expression": lambda: (x_ for x_ in ["n", "q"]),
             "iterator": lambda: iter(["n", "q"]), "map object": lambda: map(str, ["n", "q"]), "filter object": lambda: filter(None, ["n", "", "q"])}
    D = RecordDescriptor("c12/cfg", [("varint", "n"), ("string", "s")])
    a = D(n=1, s="x")
    b = D(n=2, s="x", _generated=a._generated)
    saved = base.IGNORE_FIELDS_FOR_COMPARISON
    try:
        if via == "setter":
            base.set_ignored_fields_for_comparison(KINDS[kind]())
            cfg, eq, ne, he = set(base.IGNORE_FIELDS_FOR_COMPARISON), a == b, a != b, hash(a) == hash(b)
        else:
            with base.ignore_fields_for_comparison(KINDS[kind]()):
                cfg, eq, ne, he = set(base.IGNORE_FIELDS_FOR_COMPARISON), a == b, a != b, hash(a) == hash(b)
    finally:
        base.IGNORE_FIELDS_FOR_COMPARISON = saved
    bad = cfg != {"n", "q"} or not eq or ne or not he
    return {"violates": bad, "detail": f"ignored fields given as a {kind} through the {via}: configuration {sorted(cfg)}, == {eq}, != {ne}, equal hashes {he}"}


def c12_one_instant(shape="plain"):
    import datetime as dt

    from flow.record import GroupedRecord, RecordDescriptor

    I = [dt.datetime(2020, 1, 1, 12, 0, 5, tzinfo=dt.timezone.utc), dt.datetime(2020, 1, 1, 13, 0, 5, tzinfo=dt.timezone(dt.timedelta(hours=1))), dt.datetime(2020, 1, 1, 6, 30, 5, tzinfo=dt.timezone(dt.timedelta(hours=-5, minutes=-30)))]
    T = RecordDescriptor("c12/ts", [("datetime", "ts"), ("datetime[]", "tl"), ("varint", "k")])
    N = RecordDescriptor("c12/tsn", [("record", "r")])
    recs = []
    for d in I:
        if shape == "plain":
            r = T(ts=d, tl=[], k=1, _generated=I[0])
        elif shape == "list":
            r = T(ts=None, tl=[d, I[0]], k=1, _generated=I[0])
        elif shape == "_generated":
            r = T(ts=None, tl=[], k=1, _generated=d)
        elif shape == "nested":
            r = N(r=T(ts=d, tl=[], k=1, _generated=I[0]), _generated=I[0])
        else:
            r = GroupedRecord("c12/g", [T(ts=d, tl=[], k=1, _generated=I[0])])
        recs.append(r)
    eqs = [recs[0] == r for r in recs[1:]]
    hs = [hash(r) for r in recs]
    bad = not all(eqs) or len(set(hs)) != 1
    return {"violates": bad, "detail": f"{shape}: records holding one instant at three offsets: == {eqs}, distinct hashes {len(set(hs))}, in a set {len(set(recs))}"}


def c12_grouped_cfg(cfg):
    import datetime as dt

    from flow.record import GroupedRecord, RecordDescriptor, base

    T = RecordDescriptor("c12/gm", [("varint", "k"), ("string", "s")])
    t0 = dt.datetime(2020, 1, 1, tzinfo=dt.timezone.utc)
    g1 = GroupedRecord("c12/g", [T(k=1, s="x", _generated=t0, _source="a")])
    g2 = GroupedRecord("c12/g", [T(k=1, s="x", _generated=t0 + dt.timedelta(seconds=5), _source="a")])
    saved = base.IGNORE_FIELDS_FOR_COMPARISON
    try:
        base.set_ignored_fields_for_comparison(cfg)
        eq, ne, he = g1 == g2, g1 != g2, hash(g1) == hash(g2)
    finally:
        base.IGNORE_FIELDS_FOR_COMPARISON = saved
    return {"violates": not eq or ne or not he, "detail": f"grouped records that differ only in _generated under the ignored fields {cfg}: == {eq}, != {ne}, equal hashes {he}"}


def c12_dict_keys(k0="1", k1="'1'"):
    from flow.record import RecordDescriptor

    a_, b_ = eval(k0), eval(k1)
    DL = RecordDescriptor("c12/dl", [("dictlist", "dl"), ("varint", "k")])
    d1 = {a_: "a", b_: "b", "z": 1}
    d2 = {"z": 1, b_: "b", a_: "a"}
    a = DL(dl=[d1], k=1)
    b = DL(dl=[d2], k=1, _generated=a._generated)
    bad = not (a == b) or hash(a) != hash(b) or len({a, b}) != 1
    return {"violates": bad, "detail": f"dictionaries with the keys {a_!r} / {b_!r} filled in two orders: == {a == b}, equal hashes {hash(a) == hash(b)}, members of a set {len({a, b})}"}

CALLS = {"c12_dict_keys": c12_dict_keys, "c12_one_instant": c12_one_instant, "c12_grouped_cfg": c12_grouped_cfg, "c12_config_kind": c12_config_kind, "c12_coincidence": c12_coincidence, "c12_laws": c12_laws, "c12_type": c12_type, "c12_scope": c12_scope, "c12_nan": c12_nan, "c12_random_laws": c12_random_laws}

"""Native harness functions for C02 (run on the real code by /venv/bin/python)."""
import datetime
import io
import json
import os
import random
import sys

VERIF = os.path.dirname(os.path.dirname(os.path.abspath(__file__)))
sys.path.insert(0, VERIF)
sys.path.insert(0, os.path.join(VERIF, "spec"))
import ref_codec as R  # noqa: E402
import wire_spec as W  # noqa: E402

UTC = datetime.timezone.utc
GEN = datetime.datetime(2023, 4, 5, 6, 7, 8, 999, tzinfo=UTC)
GOLDEN = os.path.join(VERIF, "spec", "golden.json")


def _write(records):
    from flow.record.stream import RecordStreamWriter

    fp = io.BytesIO()
    w = RecordStreamWriter(fp)
    for r in records:
        w.write(r)
    w.flush()
    data = fp.getvalue()
    w.fp = None
    return data


def _read(data):
    from flow.record.stream import RecordStreamReader

    return list(RecordStreamReader(io.BytesIO(data)))


def _obs(r):
    """Deep observation of a record: type name, (type, name) list, per field (class name, packed form as text)."""
    from flow.record import GroupedRecord, Record

    def o(v):
        if isinstance(v, GroupedRecord):
            return ["grouped", v.name, [o(x) for x in v.records]]
        if isinstance(v, Record):
            return ["rec", v._desc.name, [list(f) for f in v._desc.get_field_tuples()], [[k, o(getattr(v, k))] for k in v.__slots__]]
        if isinstance(v, list):
            return ["list", type(v).__name__, [o(x) for x in v]]
        if isinstance(v, datetime.datetime):
            return [type(v).__name__, v.isoformat(), v.utcoffset().total_seconds() if v.utcoffset() is not None else None]
        if isinstance(v, float):
            return [type(v).__name__, v.hex()]
        return [type(v).__name__, repr(v)]

    return o(r)


def golden_cases():
    from flow.record import GroupedRecord, RecordDescriptor

    A = RecordDescriptor("golden/a", [("varint", "n"), ("string", "s"), ("bytes", "b"), ("datetime", "ts"), ("string[]", "l")])
    B = RecordDescriptor("golden/b", [("uint16", "p"), ("uint32", "q"), ("boolean", "t"), ("float", "f"), ("filesize", "z"), ("wstring", "w")])
    C = RecordDescriptor("golden/a", [("string", "s")])  # same name, other fields
    N = RecordDescriptor("golden/nest", [("record", "r"), ("record[]", "rs")])
    P = RecordDescriptor("golden/p", [("path", "p"), ("digest", "d"), ("uri", "u"), ("net.ipaddress", "ip"), ("net.ipnetwork", "nw"), ("varint[]", "il")])
    ts = datetime.datetime(1999, 12, 31, 23, 59, 58, 123456, tzinfo=UTC)
    off = datetime.datetime(2001, 2, 3, 4, 5, 6, 7, tzinfo=datetime.timezone(datetime.timedelta(hours=2)))
    a1 = A(n=1, s="é\udcff", b=b"\x00\xff", ts=ts, l=["x", "y"], _generated=GEN)
    a2 = A(n=2**70, s="", b=b"", ts=off, l=[], _generated=GEN, _source="src", _classification="cls")
    a3 = A(n=-(2**64), _generated=GEN)
    b1 = B(p=65535, q=4294967295, t=True, f=1.5, z=2**40, w="wide", _generated=GEN)
    c1 = C(s="other", _generated=GEN)
    n1 = N(r=a1, rs=[c1, b1], _generated=GEN)
    p1 = P(p="/usr/bin/env", d=("d41d8cd98f00b204e9800998ecf8427e", None, None), u="http://example.com/a?b=c", ip="192.168.1.1", nw="10.0.0.0/8", il=[1, -1, 2**64], _generated=GEN)
    g1 = GroupedRecord("golden/grp", [a1, b1])
    return {"basic": [a1, a2, a3], "interleaved same-name": [a1, c1, a1, b1, c1], "nested": [n1, a1], "types": [p1], "grouped": [g1, a1], "empty": []}


def c02_make_golden():
    out = {}
    for name, recs in golden_cases().items():
        out[name] = {"hex": _write(recs).hex(), "observations": [_obs(r) for r in recs]}
    with open(GOLDEN, "w") as f:
        json.dump(out, f, indent=0)
    return {"written": GOLDEN, "cases": len(out), "violates": False}


def c02_golden():
    gold = json.load(open(GOLDEN))
    cases = 0
    for name, recs in golden_cases().items():
        g = gold[name]
        data = bytes.fromhex(g["hex"])
        cases += 1
        mine = _write(recs)
        if mine != data:
            i = next((k for k in range(min(len(mine), len(data))) if mine[k] != data[k]), min(len(mine), len(data)))
            return {"violates": True, "detail": f"golden case {name!r}: the writer's bytes differ from the frozen stream at offset {i} ({mine[i:i+12].hex()} vs {data[i:i+12].hex()})", "witness": {"case": name}}
        got = [_obs(r) for r in _read(data)]
        if json.loads(json.dumps(got)) != g["observations"]:
            k = next((j for j, (x, y) in enumerate(zip(got, g["observations"])) if json.loads(json.dumps(x)) != y), None)
            return {"violates": True, "detail": f"golden case {name!r}: record {k} read from the frozen stream differs from what was written (or {len(got)} != {len(g['observations'])} records)", "witness": {"case": name}}
        # the independent codec reads the frozen bytes too
        evs = R.decode_stream(data)
        if sum(1 for e in evs if e[0] in ("REC", "GROUPED")) != len(recs):
            return {"violates": True, "detail": f"golden case {name!r}: reference codec sees {len(evs)} events"}
    return {"violates": False, "cases": cases}


# ---- reference codec against the implementation ----------------------------------------------------------------------------------
def _ts_event(d):
    if d is None:
        return None
    if d.tzinfo is None or d.utcoffset() == datetime.timedelta(0):
        return ("ts", d.year, d.month, d.day, d.hour, d.minute, d.second, d.microsecond)
    return ("ts-iso", d.isoformat())


SIMPLE = {"varint": lambda rng: rng.choice([0, 1, -1, 127, 128, -32, -33, 2**31, 2**63 - 1, 2**63, 2**64 - 1, 2**64, -(2**63), -(2**63) - 1, 2**200, -(2**200), rng.randrange(-(2**70), 2**70)]),
          "string": lambda rng: rng.choice(["", "a", "é€😀", "\udc80\udcff", "x" * 31, "x" * 32, "x" * 255, "x" * 256, "line\nbreak"]),
          "bytes": lambda rng: rng.choice([b"", b"\x00", b"\xff" * 255, b"\x01" * 256, bytes(range(256))]),
          "float": lambda rng: rng.choice([0.0, -0.0, 1.5, float("inf"), 1e308, 5e-324, rng.random()]),
          "boolean": lambda rng: rng.choice([True, False]),
          "uint16": lambda rng: rng.choice([0, 1, 65535]), "uint32": lambda rng: rng.choice([0, 65536, 4294967295]), "filesize": lambda rng: rng.choice([0, 2**40, 2**63]),
          "wstring": lambda rng: rng.choice(["", "wide é"]),
          "datetime": lambda rng: rng.choice([datetime.datetime(1970, 1, 1, tzinfo=UTC), datetime.datetime(1, 1, 1, tzinfo=UTC), datetime.datetime(9999, 12, 31, 23, 59, 59, 999999, tzinfo=UTC),
                                              datetime.datetime(2020, 6, 1, 12, 0, 0, 5, tzinfo=datetime.timezone(datetime.timedelta(hours=-3, minutes=-30)))]),
          "string[]": lambda rng: rng.choice([[], ["a"], ["a", "", "é"]]), "varint[]": lambda rng: rng.choice([[], [1, 2**70, -5]])}


def _plain_value(t, v):
    """The format-level value of field type t holding python value v (only for the SIMPLE types)."""
    if v is None:
        return [] if t.endswith("[]") else None
    if t == "datetime":
        return _ts_event(v)
    if t.endswith("[]"):
        return [_plain_value(t[:-2], x) for x in v]
    if t == "float":
        return float(v)
    if t == "boolean":
        return bool(v)
    if t in ("varint", "uint16", "uint32", "filesize"):
        return int(v)
    if t in ("string", "wstring"):
        return str(v)
    return bytes(v)


def _same_plain(a, b):
    if isinstance(a, float) and isinstance(b, float):
        return a.hex() == b.hex()
    if isinstance(a, (list, tuple)) and isinstance(b, (list, tuple)):
        return len(a) == len(b) and all(_same_plain(x, y) for x, y in zip(a, b))
    return type(a) is type(b) and a == b


def _gen_case(rng):
    from flow.record import RecordDescriptor

    types = rng.sample(sorted(SIMPLE), rng.randrange(0, 6))
    fields = [(t, f"f{i}") for i, t in enumerate(types)]
    D = RecordDescriptor(rng.choice(["ref/a", "ref/b", "x"]), fields)
    vals = {n: (None if rng.random() < 0.15 else SIMPLE[t](rng)) for t, n in fields}
    return D, fields, vals


def c02_reference_sweep(seed=0, n=150):
    rng = random.Random(seed)
    cases = 0
    for i in range(n):
        k = rng.randrange(1, 4)
        recs, want = [], []
        for _ in range(k):
            D, fields, vals = _gen_case(rng)
            r = D(_generated=GEN, **vals)
            recs.append(r)
            want.append((D.name, W.descriptor_hash(D.name, fields), tuple(fields), [_plain_value(t, vals[nm]) for t, nm in fields] + [None, None, _ts_event(GEN), 1]))
        cases += 1
        # implementation writes, reference decodes
        data = _write(recs)
        try:
            evs = R.decode_stream(data)
        except Exception as e:
            return {"violates": True, "detail": f"the reference codec cannot decode the written stream: {type(e).__name__}: {e}", "witness": {"seed": seed, "case": i}, "cases": cases}
        known = {}
        got = []
        for e in evs:
            if e[0] == "DESC":
                known[(e[1], W.descriptor_hash(e[1], e[2]))] = e[2]
            elif e[0] == "REC":
                if (e[1], e[2]) not in known:
                    return {"violates": True, "detail": f"record {e[1]} precedes its descriptor or carries a wrong identifier hash {e[2]}", "witness": {"seed": seed, "case": i}, "cases": cases}
                got.append((e[1], e[2], known[(e[1], e[2])], e[3]))
        if len(got) != len(want) or any(g[:3] != w[:3] or not _same_plain(g[3], w[3]) for g, w in zip(got, want)):
            return {"violates": True, "detail": f"reference decode of the written stream differs: {got!r:.200} vs {want!r:.200}", "witness": {"seed": seed, "case": i}, "cases": cases}
        # reference encodes, implementation reads
        events = []
        seen = set()
        for (name, h, fields, values) in want:
            if (name, h) not in seen:
                seen.add((name, h))
                events.append(("DESC", name, fields))
            events.append(("REC", name, h, values))
        try:
            back = _read(R.encode_stream(events))
        except Exception as e:
            return {"violates": True, "detail": f"the reader cannot read a stream encoded by the reference codec: {type(e).__name__}: {e}", "witness": {"seed": seed, "case": i}, "cases": cases}
        if [_obs(r) for r in back] != [_obs(r) for r in recs]:
            return {"violates": True, "detail": "records read from a reference-encoded stream differ from the records it encodes", "witness": {"seed": seed, "case": i}, "cases": cases}
    return {"violates": False, "cases": cases}


def _ref_obs(ev, known):
    """Observation of a reference-decoded REC event using the descriptors seen so far: (name, fields, values) with nested events resolved."""
    if ev[0] == "GROUPED":
        return ("GROUPED", ev[1], [_ref_obs(("REC",) + m, known) for m in ev[2]])
    name, h, values = ev[1], ev[2], ev[3]
    if (name, h) not in known:
        raise R.FormatError(f"record {name!r} with identifier hash {h} before its descriptor")
    return ("REC", name, known[(name, h)], [(_ref_obs(v, known) if isinstance(v, tuple) and v and v[0] in ("REC", "GROUPED") else ([_ref_obs(x, known) if isinstance(x, tuple) and x and x[0] == "REC" else x for x in v] if isinstance(v, list) else v)) for v in values])


def _impl_obs(r):
    from flow.record import GroupedRecord, Record

    if isinstance(r, GroupedRecord):
        return ("GROUPED", r.name, [_impl_obs(x) for x in r.records])
    vals = []
    for (t, n) in list(r._desc.get_field_tuples()) + list(zip(W.RESERVED_TYPES, W.RESERVED)):
        v = getattr(r, n)
        if isinstance(v, Record):
            vals.append(_impl_obs(v))
        elif t == "record[]":
            vals.append([_impl_obs(x) for x in v])
        else:
            vals.append(_plain_value(t, v))
    return ("REC", r._desc.name, tuple(tuple(f) for f in r._desc.get_field_tuples()), vals)


def c02_history_sweep(seed=0, n=60):
    """Histories over descriptors that share a name, nested and grouped records: the reference codec must be able to decode every record
    of the written stream with a descriptor that precedes it (frame order), to the values written."""
    from flow.record import GroupedRecord, RecordDescriptor

    rng = random.Random(seed)
    DS = [RecordDescriptor("h/a", [("varint", "n")]), RecordDescriptor("h/a", [("string", "s")]), RecordDescriptor("h/b", [("varint", "n"), ("string", "s")]),
          RecordDescriptor("h/nest", [("record", "r")]), RecordDescriptor("h/nest", [("record[]", "rs")])]

    def plain(i):
        D = DS[i]
        kw = {"n": rng.randrange(100)} if i == 0 else {"s": "v%d" % rng.randrange(9)} if i == 1 else {"n": 1, "s": "b"}
        return D(_generated=GEN, **kw)

    def any_rec(depth=0):
        k = rng.randrange(6 if depth == 0 else 3)
        if k < 3:
            return plain(k)
        if k == 3:
            return DS[3](r=any_rec(depth + 1), _generated=GEN)
        if k == 4:
            return DS[4](rs=[any_rec(depth + 1) for _ in range(rng.randrange(3))], _generated=GEN)
        return GroupedRecord("h/grp", [plain(rng.randrange(3)) for _ in range(rng.randrange(1, 4))])

    cases = 0
    for i in range(n):
        recs = [any_rec() for _ in range(rng.randrange(1, 6))]
        data = _write(recs)
        cases += 1
        try:
            known, got = {}, []
            for e in R.decode_stream(data):
                if e[0] == "DESC":
                    known[(e[1], W.descriptor_hash(e[1], e[2]))] = e[2]
                else:
                    got.append(_ref_obs(e, known))
        except Exception as e:
            return {"violates": True, "detail": f"history {i}: the written stream cannot be decoded by the reference codec: {type(e).__name__}: {e}", "witness": {"seed": seed, "case": i, "records": repr(recs)[:300]}, "cases": cases}
        want = [_impl_obs(r) for r in recs]
        if json.loads(json.dumps(got)) != json.loads(json.dumps(want)):
            return {"violates": True, "detail": f"history {i}: reference decode differs from the records written: {got!r:.150} vs {want!r:.150}", "witness": {"seed": seed, "case": i}, "cases": cases}
    return {"violates": False, "cases": cases}


def _one(x, s):
    from flow.record import RecordDescriptor

    D = RecordDescriptor("c02/rec", [("varint", "n"), ("string", "s")])
    return D, D(n=x, s=s, _generated=GEN), [x, s, None, None, _ts_event(GEN), 1]


def c02_reference_decode(x=0, s=""):
    D, r, vals = _one(x, s)
    try:
        data = _write([r])
    except UnicodeEncodeError:
        return {"violates": False, "note": "text cannot be encoded"}
    evs = R.decode_stream(data)
    h = W.descriptor_hash("c02/rec", [("varint", "n"), ("string", "s")])
    want = [("DESC", "c02/rec", (("varint", "n"), ("string", "s"))), ("REC", "c02/rec", h, vals)]
    return {"violates": evs != want, "decoded": repr(evs)[:300]}


def c02_reference_encode(x=0, s=""):
    D, r, vals = _one(x, s)
    h = W.descriptor_hash("c02/rec", [("varint", "n"), ("string", "s")])
    try:
        data = R.encode_stream([("DESC", "c02/rec", (("varint", "n"), ("string", "s"))), ("REC", "c02/rec", h, vals)])
    except UnicodeEncodeError:
        return {"violates": False}
    back = _read(data)
    return {"violates": [_obs(b) for b in back] != [_obs(r)], "read": repr(back)[:300]}


def c02_registry_keeps():
    from flow.record import RecordDescriptor
    from flow.record.packer import RecordPacker

    D = RecordDescriptor("c02/rec", [("varint", "n"), ("string", "s")])
    N = RecordDescriptor("c02/new", [("varint", "n")])
    p = RecordPacker()
    old = [(f"c02/t{i:04d}", i) for i in range(3000)] + [f"c02/t{i:04d}" for i in range(3000)]
    for k in old:
        p.descriptors[k] = D
    p.register(N)
    missing = [k for k in old if k not in p.descriptors]
    bad = bool(missing) or N.identifier not in p.descriptors
    return {"violates": bad, "detail": f"after register() {len(missing)} of 6000 earlier registry entries are gone (e.g. {missing[:2]})" if bad else None}


def c02_bare_name_latest():
    D1, D2 = ("c02/evolve", (("varint", "n"),)), ("c02/evolve", (("varint", "n"), ("string", "s")))
    gen = ("ts", 2020, 1, 2, 3, 4, 5, 6)
    data = R.encode_stream([("DESC",) + D1, ("REC", "c02/evolve", None, [1, None, None, gen, 1]), ("DESC",) + D2, ("REC", "c02/evolve", None, [7, "seven", None, None, gen, 1])])
    try:
        back = _read(data)
    except Exception as e:
        return {"violates": True, "detail": f"{type(e).__name__}: {e}"}
    ok = len(back) == 2 and back[0].n == 1 and getattr(back[1], "s", None) == "seven" and back[1].n == 7
    return {"violates": not ok, "detail": None if ok else f"read back {back!r}"}


def c02_refused_then_written():
    from flow.record import RecordDescriptor
    from flow.record.stream import RecordStreamWriter

    DL = RecordDescriptor("c02/dl", [("dictlist", "dl"), ("varint", "n")])
    fp = io.BytesIO()
    w = RecordStreamWriter(fp)
    try:
        w.write(DL(dl=[{"k": {1, 2}}], n=1))
        return {"violates": True, "detail": "an unpackable record was written"}
    except Exception:
        pass
    w.write(DL(dl=[{"k": "v"}], n=2))
    w.flush()
    try:
        events = R.decode_stream(fp.getvalue())  # the independent decoder: raises when a record's descriptor was never announced
    except Exception as e:
        return {"violates": True, "detail": f"the independent decoder cannot decode the stream: {type(e).__name__}: {e}"}
    known, recs = set(), []
    for e in events:
        if e[0] == "DESC":
            known.add(e[1])
        elif e[0] == "REC":
            recs.append(e)
            if e[1] not in known:
                return {"violates": True, "detail": f"a record frame of type {e[1]!r} is in the stream, its descriptor frame is not: an independent decoder cannot decode it"}
    ok = len(recs) == 1
    return {"violates": not ok, "detail": None if ok else f"decoded events {events!r:.300}"}


def c02_compat(extra=1, bare=False, grouped=False):
    D, r, vals = _one(5, "v")
    h = W.descriptor_hash("c02/rec", [("varint", "n"), ("string", "s")])
    if extra == -1:
        v = vals[:-1]
    else:
        v = vals[:-1] + [f"extra{i}" for i in range(extra)] + [1]
    rec_event = ("GROUPED", "c02/grp", [("c02/rec", h, v)]) if grouped else ("REC", "c02/rec", None if bare else h, v)
    data = R.encode_stream([("DESC", "c02/rec", (("varint", "n"), ("string", "s"))), rec_event])
    try:
        back = _read(data)
        if grouped:
            back = list(back[0].records) if len(back) == 1 else []
    except Exception as e:
        return {"violates": True, "detail": f"{type(e).__name__}: {e}"}
    ok = len(back) == 1 and back[0].n == 5 and back[0].s == "v" and back[0]._generated == GEN and back[0]._source is None and (extra == -1 or back[0]._version == 1)
    return {"violates": not ok, "read": repr(back), "version": repr(getattr(back[0], "_version", None)) if back else None}



def c02_concat():
    """three streams written by the implementation, concatenated byte for byte, read by the implementation"""
    import io
    from flow.record import RecordDescriptor
    from flow.record.stream import RecordStreamReader, RecordStreamWriter

    D = RecordDescriptor("c02/rec", [("varint", "n")])
    data = b""
    for k in (7, 8, 9):
        fp = io.BytesIO()
        w = RecordStreamWriter(fp)
        w.write(D(n=k))
        w.flush()
        data += fp.getvalue()
        w.fp = None
    try:
        out = list(RecordStreamReader(io.BytesIO(data)))
        got = [getattr(o, "n", repr(o)[:30]) for o in out]
    except Exception as e:
        return {"violates": True, "detail": f"reading three concatenated streams raised {type(e).__name__}: {e}"}
    return {"violates": got != [7, 8, 9], "detail": f"three concatenated streams holding 7, 8, 9 were read as {got!r}"}


def c02_ignoring(x=0):
    """a record written while fields are ignored for comparison, decoded by the independent reference codec"""
    import io
    import flow.record.base as fb
    from flow.record import RecordDescriptor
    from flow.record.stream import RecordStreamWriter

    D = RecordDescriptor("c02/rec", [("varint", "n"), ("string", "s"), ("string[]", "l")])
    r = D(n=x, s="text", l=["a", "b"])
    saved = fb.IGNORE_FIELDS_FOR_COMPARISON
    fb.set_ignored_fields_for_comparison(["_generated", "s", "l"])
    try:
        fp = io.BytesIO()
        w = RecordStreamWriter(fp)
        w.write(r)
        w.flush()
    finally:
        fb.IGNORE_FIELDS_FOR_COMPARISON = saved
    data = fp.getvalue()
    w.fp = None
    try:
        recs = [e for e in R.decode_stream(data) if e[0] == "REC"]
    except Exception as e:
        return {"violates": True, "detail": f"the reference codec cannot decode the stream: {type(e).__name__}: {e}"}
    vals = list(recs[0][3]) if recs else None
    ok = bool(recs) and len(vals) == 7 and vals[0] == x and vals[1] == "text" and list(vals[2]) == ["a", "b"]
    return {"violates": not ok, "detail": f"record frame values {vals!r} (the format has n, s, l and the four metadata fields)"}


def c02_value_form(ftype="net.ipaddress", src="IP4(1)"):
    """the wire form of one field value, decoded by the independent reference codec, against the value forms of the format (frozen at the pinned revision)"""
    import ipaddress
    import pathlib

    from flow.record import RecordDescriptor

    v = eval(src, {"IP4": ipaddress.IPv4Address, "IP6": ipaddress.IPv6Address, "__import__": __import__})
    r = RecordDescriptor("c02/val", [(ftype, "a")])(a=v)
    recs = [e for e in R.decode_stream(_write([r])) if e[0] == "REC"]
    got = recs[0][3][0]
    def norm(x):
        return [norm(y) for y in x] if isinstance(x, (list, tuple)) else x
    if ftype == "net.ipaddress":
        want = int(v)
    elif ftype in ("net.ipnetwork", "uri"):
        want = str(v)
    elif ftype == "path":
        want = [str(v).replace("/", "\\") if isinstance(v, pathlib.PureWindowsPath) else str(v), 1 if isinstance(v, pathlib.PureWindowsPath) else 0]
    elif ftype == "digest":
        want = [bytes.fromhex(v[0]) if v[0] else None, bytes.fromhex(v[1]) if v[1] else None, bytes.fromhex(v[2]) if v[2] else None]
    elif ftype == "command":
        want = [["ls", ["-l", "/tmp"]], 0]
    else:
        want = v
    bad = norm(got) != norm(want) or type(norm(got)) is not type(norm(want))
    return {"violates": bad, "detail": f"{ftype} value {src}: the stream carries {got!r}, the format has {want!r}"}


def c02_nested_stream():
    """a record holding records (record, record[] with element types new to the stream) decoded by the independent reference codec"""
    from flow.record import RecordDescriptor

    A = RecordDescriptor("c02/in_a", [("varint", "n")])
    B = RecordDescriptor("c02/in_b", [("string", "s")])
    C = RecordDescriptor("c02/in_c", [("varint", "k")])
    N = RecordDescriptor("c02/holder", [("record", "one"), ("record[]", "many"), ("varint", "k")])
    n = N(one=A(n=5), many=[B(s="v"), N(one=None, many=[C(k=3)], k=2)], k=1)
    known, problems = set(), []

    def ids(v, acc):
        if isinstance(v, tuple) and v and v[0] == "REC":
            acc.append((v[1], v[2]))
            for x in v[3]:
                ids(x, acc)
        elif isinstance(v, (list, tuple)):
            for x in v:
                ids(x, acc)

    try:
        for e in R.decode_stream(_write([n])):
            if e[0] == "DESC":
                known.add((e[1], W.descriptor_hash(e[1], e[2])))
            else:
                acc = []
                ids(e, acc)
                problems += [f"record frame names the type {i!r} before its definition" for i in acc if i not in known]
    except Exception as e:
        problems.append(f"the reference codec cannot decode the stream: {type(e).__name__}: {e}")
    return {"violates": bool(problems), "detail": problems[:3]}


def c02_descriptor_alias():
    from flow.record import RecordDescriptor

    fields = [("wstring", "w"), ("string", "s"), ("net.IPAddress", "ip"), ("wstring[]", "wl")]
    D = RecordDescriptor("c02/alias", fields)
    descs = [e for e in R.decode_stream(_write([D(w="a", s="b", ip="1.2.3.4", wl=[])])) if e[0] == "DESC"]
    got = [tuple(f) for f in descs[0][2]] if descs else None
    return {"violates": got != fields, "detail": f"the definition in the stream declares {got!r}, the descriptor was declared with {fields!r}"}


def c02_grouped_same_name():
    from flow.record import GroupedRecord, RecordDescriptor

    A = RecordDescriptor("c02/m", [("varint", "n")])
    A2 = RecordDescriptor("c02/m", [("string", "s")])
    known, problems = set(), []
    try:
        for e in R.decode_stream(_write([A(n=5), GroupedRecord("c02/g", [A2(s="v"), A(n=1)])])):
            if e[0] == "DESC":
                known.add((e[1], W.descriptor_hash(e[1], e[2])))
            elif e[0] == "GROUPED":
                problems += [f"the grouped frame names the member type {(m[0], m[1])!r} before its definition" for m in e[2] if (m[0], m[1]) not in known]
    except Exception as e:
        problems.append(f"the reference codec cannot decode the stream: {type(e).__name__}: {e}")
    return {"violates": bool(problems), "detail": problems[:3]}


def c02_struct_decode(kw=False):
    """a conforming stream (written by the independent reference encoder is not needed here: the implementation's own writer is checked elsewhere) holding
    structured values, decoded by the implementation into both record class templates"""
    import io

    import msgpack

    from flow.record import RecordDescriptor
    from flow.record.stream import RecordStreamReader
    import struct

    fields = [("path", "from"), ("digest", "class"), ("command", "import"), ("path[]", "in"), ("net.ipaddress", "is"), ("varint", "n")] if kw else [("path", "p"), ("digest", "d"), ("command", "c"), ("path[]", "pl"), ("net.ipaddress", "a"), ("varint", "n")]
    name = "c02/struct"
    h = W.descriptor_hash(name, fields)
    ext = lambda sub, payload: msgpack.ExtType(14, msgpack.packb((sub, payload), use_bin_type=True))
    ts = ext(0x10, (2023, 4, 5, 6, 7, 8, 999))
    md5 = bytes.fromhex("d41d8cd98f00b204e9800998ecf8427e")
    vals = [["/a/b", 0], [md5, None, None], [["ls", ["-l"]], 0], [["c:\\x", 1]], 5, 7, None, None, ts, 1]
    frames = [msgpack.packb(b"RECORDSTREAM\n", use_bin_type=True), msgpack.packb(ext(2, (name, [list(f) for f in fields])), use_bin_type=True), msgpack.packb(ext(1, ((name, h), vals)), use_bin_type=True)]
    data = b"".join(struct.pack(">I", len(f)) + f for f in frames)
    try:
        recs = list(RecordStreamReader(io.BytesIO(data)))
        r = recs[0]
        kinds = [type(getattr(r, f)).__name__ for _, f in fields]
        elem = [type(e).__name__ for e in getattr(r, fields[3][1])]
        ok = kinds[0] == "posix_path" and kinds[1] == "digest" and kinds[2] == "posix_command" and kinds[4] == "ipaddress" and elem == ["windows_path"] and getattr(r, fields[1][1]).md5 == md5.hex()
        detail = f"kinds {kinds}, list elements {elem}"
    except Exception as e:
        ok, detail = False, f"reading a conforming stream raised {type(e).__name__}: {e}"
    return {"violates": not ok, "detail": detail}


def c02_list_in_place():
    from flow.record import RecordDescriptor

    D = RecordDescriptor("c02/lists", [("datetime[]", "tl"), ("path[]", "pl"), ("net.ipaddress[]", "al"), ("string[]", "sl")])
    ts1 = datetime.datetime(2020, 1, 2, 3, 4, 5, 6, tzinfo=UTC)
    ts2 = datetime.datetime(2001, 2, 3, 4, 5, 6, 7, tzinfo=UTC)
    r = D(tl=[ts1], pl=["/a"], al=["1.2.3.4"], sl=["x"])
    r.tl.append(ts2)
    r.pl.append("/b/c")
    r.al.insert(0, "5.6.7.8")
    r.sl.append(b"bytes")
    recs = [e for e in R.decode_stream(_write([r])) if e[0] == "REC"]
    vals = recs[0][3]
    norm = lambda x: [norm(y) for y in x] if isinstance(x, (list, tuple)) and not (x and x[0] in ("ts", "ts-iso")) else x
    got = [norm(v) for v in vals[:4]]
    want = [[("ts", 2020, 1, 2, 3, 4, 5, 6), ("ts", 2001, 2, 3, 4, 5, 6, 7)], [["/a", 0], ["/b/c", 0]], [0x05060708, 0x01020304], ["x", "bytes"]]
    return {"violates": got != want, "detail": f"typed lists with elements put in place: the stream carries {got!r}, the format has {want!r}"}

CALLS = {"c02_list_in_place": c02_list_in_place, "c02_struct_decode": c02_struct_decode, "c02_descriptor_alias": c02_descriptor_alias, "c02_grouped_same_name": c02_grouped_same_name, "c02_nested_stream": c02_nested_stream, "c02_value_form": c02_value_form, "c02_concat": c02_concat, "c02_ignoring": c02_ignoring, "c02_registry_keeps": c02_registry_keeps, "c02_bare_name_latest": c02_bare_name_latest, "c02_refused_then_written": c02_refused_then_written, "c02_history_sweep": c02_history_sweep, "c02_golden": c02_golden, "c02_make_golden": c02_make_golden, "c02_reference_sweep": c02_reference_sweep, "c02_reference_decode": c02_reference_decode, "c02_reference_encode": c02_reference_encode, "c02_compat": c02_compat}

"""Native harness functions for C05 (run on the real code by /venv/bin/python)."""
import importlib.util
import io
import os
import pathlib
import random


def _vals():
    spec = importlib.util.spec_from_file_location("c05_values", os.path.join(os.path.dirname(__file__), "c05_values.py"))
    m = importlib.util.module_from_spec(spec)
    spec.loader.exec_module(m)
    return m


def _eval(src):
    V = _vals()
    ns = dict(V.NS, PurePosixPath=pathlib.PurePosixPath, PureWindowsPath=pathlib.PureWindowsPath)
    return eval(src, ns)


def _observe(rec):
    """Deep observation of a record's slots: (class name, packed form / repr) per slot."""
    out = []
    for k in rec.__slots__:
        v = getattr(rec, k)
        p = v._pack() if hasattr(v, "_pack") and not isinstance(v, type(rec).__mro__[-2]) else v
        out.append((k, type(v).__name__, repr(p)))
    return out


def _well_typed(rec):
    """Every slot is None / the documented empty default, or an instance of the declared type (list fields element-wise)."""
    from flow.record import fieldtypes
    from flow.record.base import Record

    bad = []
    for name, fld in rec._desc.get_all_fields().items():
        v = getattr(rec, name)
        if v is None:
            continue
        t = fld.type
        if fld.typename in ("record",):
            if not isinstance(v, Record):
                bad.append(f"{name}: {type(v).__name__} is not a record")
            continue
        if fld.typename == "dynamic":
            if not isinstance(v, fieldtypes.FieldType) if hasattr(fieldtypes, "FieldType") else False:
                bad.append(f"{name}: dynamic holds {type(v).__name__}")
            continue
        if not isinstance(v, t):
            bad.append(f"{name}: {type(v).__name__} is not a {fld.typename}")
        elif fld.typename.endswith("[]"):
            et = t.__type__
            for e in v:
                if fld.typename == "record[]":
                    if not isinstance(e, Record):
                        bad.append(f"{name}[]: element {type(e).__name__}")
                elif not isinstance(e, et):
                    bad.append(f"{name}[]: element {type(e).__name__} is not a {et.__name__}")
        if fld.typename == "datetime" and v.tzinfo is None:
            bad.append(f"{name}: naive datetime")
    return bad


def _serialisable(rec):
    from flow.record import RecordStreamWriter

    try:
        w = RecordStreamWriter(io.BytesIO())
        w.write(rec)
        return None
    except Exception as e:
        return f"{type(e).__name__}: {e}"


def c05_json_writable(ftype, src, indent=None):
    """an accepted text value can be written by the JSON writer (line by line or indented) to a file it opens itself"""
    import tempfile

    from flow.record import RecordDescriptor
    from flow.record.adapter.jsonfile import JsonfileWriter

    D = RecordDescriptor("c05/rec", [(ftype, "x"), ("varint", "n")])
    rec = D(n=1)
    try:
        rec.x = _eval(src)
    except Exception as e:
        return {"violates": False, "note": f"value rejected: {type(e).__name__}"}
    with tempfile.TemporaryDirectory() as td:
        try:
            w = JsonfileWriter(os.path.join(td, "out.json"), indent=indent)
            w.write(rec)
            w.close()
        except Exception as e:
            return {"violates": True, "detail": f"the JSON writer (indent={indent}) raised {type(e).__name__}: {e}"}
    return {"violates": False}


def c05_assign(ftype, src, how="setattr", other="5"):
    """One operation on a record with a field `x` of type ftype (and a varint field n): setattr / init / replace with the value `src`."""
    from flow.record import RecordDescriptor

    D = RecordDescriptor("c05/rec", [(ftype, "x"), ("varint", "n")])
    value = _eval(src)
    res = {"ftype": ftype, "value": src, "how": how}
    bad = []
    try:
        if how == "setattr":
            rec = D(n=1)
            before = _observe(rec)
            try:
                rec.x = value
                res["accepted"] = True
            except Exception as e:
                res["accepted"] = False
                res["exception"] = f"{type(e).__name__}: {e}"[:200]
                if _observe(rec) != before:
                    bad.append(f"rejected assignment changed the record: {before} -> {_observe(rec)}")
        elif how == "init":
            try:
                rec = D(x=value, n=1)
                res["accepted"] = True
            except Exception as e:
                res["accepted"] = False
                res["exception"] = f"{type(e).__name__}: {e}"[:200]
                rec = None
        elif how == "replace":
            rec0 = D(n=1)
            before = _observe(rec0)
            try:
                rec = rec0._replace(x=value)
                res["accepted"] = True
            except Exception as e:
                res["accepted"] = False
                res["exception"] = f"{type(e).__name__}: {e}"[:200]
                rec = None
            if _observe(rec0) != before:
                bad.append("_replace modified the original")
        if rec is not None:
            bad += _well_typed(rec)
            if rec._version != 1 or rec._generated is None or rec._generated.tzinfo is None:
                bad.append(f"metadata: _version={rec._version!r} _generated={rec._generated!r}")
            if res.get("accepted"):
                s = _serialisable(rec)
                if s:
                    bad.append(f"accepted but not serialisable: {s}")
            res["slot"] = [type(rec.x).__name__, repr(rec.x)[:80]]
    except Exception as e:
        res["harness_error"] = repr(e)
    res["problems"] = bad
    res["violates"] = bool(bad)
    return res


def c05_expect(ftype, src, valid, how="setattr"):
    r = c05_assign(ftype, src, how)
    if valid and r.get("accepted") is False:
        r["problems"].append(f"a representable value was rejected: {r.get('error')}")
    if not valid and r.get("accepted"):
        r["problems"].append(f"a value the type cannot represent was accepted as {r.get('slot')}")
    r["violates"] = bool(r["problems"])
    return r


def c05_naive_own_class(how="assign"):
    import datetime

    from flow.record import RecordDescriptor

    D = RecordDescriptor("c05/rec", [("datetime", "x"), ("datetime[]", "xs"), ("varint", "n")])
    rec = D(x=datetime.datetime(2020, 1, 2, 3, 4, 5, tzinfo=datetime.timezone(datetime.timedelta(hours=2))), n=1)
    naive = rec.x.replace(tzinfo=None)
    if how == "assign":
        rec.x = naive
        v = rec.x
    elif how == "replace-copy":
        v = rec._replace(x=naive).x
    else:
        rec.xs = [naive]
        v = rec.xs[0]
    bad = v.tzinfo is None
    return {"violates": bad, "detail": f"the field holds a {type(v).__name__} without time zone: {v!r} (tzinfo {v.tzinfo!r})" if bad else None}


def c05_nonintegral(ftype, src, must_reject=False):
    from flow.record import RecordDescriptor

    rec = RecordDescriptor("c05/rec", [(ftype, "x"), ("varint", "n")])(n=1)
    v = float(src)
    try:
        rec.x = [v] if ftype.endswith("[]") else v
    except Exception:
        return {"violates": False, "outcome": "rejected"}
    stored = rec.x[0] if ftype.endswith("[]") else rec.x
    packed = stored._pack() if hasattr(stored, "_pack") else stored
    if must_reject:
        return {"violates": True, "detail": f"{ftype} accepted {src} (holds {stored!r}, written as {packed!r}): a value the type cannot represent"}
    ok = isinstance(packed, (int, bool)) and not isinstance(packed, float) and packed == int(v) and int(stored) == int(v)
    return {"violates": not ok, "detail": None if ok else f"{ftype} accepted {src} and holds {stored!r}, which is written as {packed!r} ({type(packed).__name__}): neither converted to an integer nor rejected"}


def c05_digest_bytes():
    from flow.record import RecordDescriptor

    rec = RecordDescriptor("c05/rec", [("digest", "x"), ("varint", "n")])(n=1)
    try:
        rec.x = (b"d41d8cd98f00b204e9800998ecf8427e", b"da39a3ee5e6b4b0d3255bfef95601890afd80709", None)
    except TypeError:
        return {"violates": False, "outcome": "rejected"}
    got = (rec.x.md5, rec.x.sha1)
    ok = got == ("d41d8cd98f00b204e9800998ecf8427e", "da39a3ee5e6b4b0d3255bfef95601890afd80709") and not _serialisable(rec)
    return {"violates": not ok, "detail": None if ok else f"a digest given as bytes exposes md5 / sha1 as {got!r}"}


def c05_iadd(ftype, extra):
    from flow.record import RecordDescriptor

    rec = RecordDescriptor("c05/rec", [(ftype, "x"), ("varint", "n")])(x=[1] if ftype.startswith("uint") else ["9.9.9.9"] if ftype.startswith("net") else ["a"], n=1)
    before, before_id = list(rec.x), id(rec.x)
    try:
        rec.x += _eval(extra)
    except Exception:
        same = id(rec.x) == before_id and len(rec.x) == len(before) and all(a is b for a, b in zip(rec.x, before))
        return {"violates": not same, "outcome": "rejected", "detail": None if same else f"the refused x += {extra} changed the record: the field holds {list(rec.x)!r}, before {before!r}"}
    bad = [type(e).__name__ for e in rec.x if type(e).__name__ != ftype[:-2]]
    ser = _serialisable(rec)
    return {"violates": bool(bad or ser), "detail": f"after x += {extra} the {ftype} field holds elements of the types {[type(e).__name__ for e in rec.x]} ({ser or 'serialisable'})" if (bad or ser) else None}


def c05_history_pair(ftype, first, second):
    from flow.record import RecordDescriptor

    D = RecordDescriptor("c05/rec", [(ftype, "x"), ("varint", "n")])
    lst = ftype.endswith("[]")
    a, b = D(n=1), D(n=2)
    a.x = [_eval(first)] if lst else _eval(first)
    try:
        b.x = [_eval(second)] if lst else _eval(second)
        accepted = True
    except Exception:
        accepted = False
    bad = None
    if second.endswith(".0") and accepted:
        bad = f"{ftype} accepted the float {second} after the equal integer had been accepted (holds {b.x!r})"
    elif accepted and _serialisable(b):
        bad = f"accepted but not serialisable: {_serialisable(b)}"
    return {"violates": bool(bad), "detail": bad}


def c05_grouped_assign(ftype, x):
    from flow.record import GroupedRecord, RecordDescriptor

    lim = {"uint16": 0xFFFF, "boolean": 1}[ftype]
    member = RecordDescriptor("c05/ma", [(ftype, "x"), ("string", "s")])(s="t")
    g = GroupedRecord("c05/grp", [member, RecordDescriptor("c05/mb", [("varint", "k")])(k=1)])
    try:
        g.x = int(x)
        g.s = b"by\xfftes"
        accepted = True
    except Exception:
        accepted = False
    valid = 0 <= int(x) <= lim
    bad = None
    if accepted and not valid:
        bad = f"a {ftype} field accepted {int(x)} through a grouped record and holds {member.x!r}"
    elif accepted and (type(member.x).__name__ != ftype or type(member.s).__name__ != "string" or _serialisable(member)):
        bad = f"assigned through a grouped record the member holds {type(member.x).__name__} {member.x!r} / {type(member.s).__name__} {member.s!r} ({_serialisable(member) or 'serialisable'})"
    elif not accepted and valid:
        bad = f"a {ftype} field rejected the representable value {int(x)} through a grouped record"
    return {"violates": bool(bad), "detail": bad}


def c05_cross_value(src_type, dst_type, x):
    """a field value of one integer type (taken from another record) offered to a field of another integer type: the target's range decides"""
    from flow.record import RecordDescriptor

    lim = {"uint16": 0xFFFF, "uint32": 0xFFFFFFFF, "net.tcp.Port": 0xFFFF, "net.udp.Port": 0xFFFF, "boolean": 1}[dst_type.replace("[]", "")]
    try:
        src = RecordDescriptor("c05/src", [(src_type, "v")])(v=int(x)).v
    except Exception as e:
        return {"violates": False, "note": f"source value rejected: {type(e).__name__}"}
    rec = RecordDescriptor("c05/rec", [(dst_type, "x"), ("varint", "n")])(n=1)
    try:
        rec.x = [src] if dst_type.endswith("[]") else src
        accepted = True
    except Exception:
        accepted = False
    valid = 0 <= int(x) <= lim
    bad = None
    if accepted and not valid:
        bad = f"a {dst_type} field accepted the {src_type} field value {int(x)} (outside 0..{lim}) and holds {rec.x!r}"
    elif accepted and _serialisable(rec):
        bad = f"accepted, but the record cannot be serialised: {_serialisable(rec)}"
    elif not accepted and valid:
        bad = f"a {dst_type} field rejected the representable {src_type} field value {int(x)}"
    return {"violates": bool(bad), "detail": bad}


def c05_range(ftype, x):
    lim = {"uint16": 0xFFFF, "uint32": 0xFFFFFFFF, "net.tcp.Port": 0xFFFF, "net.udp.Port": 0xFFFF, "boolean": 1}[ftype]
    return c05_expect(ftype, repr(int(x)), 0 <= int(x) <= lim)


def c05_outcome(ftype, src, how="setattr"):
    r = c05_assign(ftype, src, how)
    return {"outcome": ("ok:" + r["slot"][0]) if r.get("accepted") else "raise:" + str(r.get("exception", "")).split(":")[0], "violates": False}


def c05_digest(attr, s):
    from flow.record.fieldtypes import digest

    d = digest(("d41d8cd98f00b204e9800998ecf8427e", "da39a3ee5e6b4b0d3255bfef95601890afd80709", "e3b0c44298fc1c149afbf4c8996fb92427ae41e4649b934ca495991b7852b855"))
    before = (d.md5, d.sha1, d.sha256, d._pack())
    want = len(s) == {"md5": 32, "sha1": 40, "sha256": 64}[attr] and all(c in "0123456789abcdefABCDEF" for c in s)
    res = {"attr": attr, "value": s, "well_formed": want}
    try:
        setattr(d, attr, s)
        res["accepted"] = True
        res["violates"] = not want
    except Exception as e:
        res["accepted"] = False
        res["exception"] = f"{type(e).__name__}: {e}"
        after = (d.md5, d.sha1, d.sha256, d._pack())
        res["unchanged"] = after == before
        res["violates"] = want or after != before
    return res


def c05_list_pair(src, dst):
    from flow.record import RecordDescriptor

    V = _vals()
    A, B = RecordDescriptor("c05/src", [(src + "[]", "x")]), RecordDescriptor("c05/dst", [(dst + "[]", "y"), ("varint", "n")])
    a = A(x=[_eval(s) for s in V.VALID.get(src, [])[:2]])
    b = B(n=1)
    before = _observe(b)
    try:
        b.y = a.x
    except Exception as e:
        return {"rejected": f"{type(e).__name__}", "violates": _observe(b) != before}
    bad = _well_typed(b)
    s = _serialisable(b)
    if s:
        bad.append(s)
    return {"problems": bad, "violates": bool(bad)}


def c05_init(x=0, s=""):
    from flow.record import RecordDescriptor

    D = RecordDescriptor("c05/init", [("uint16", "p"), ("string", "s"), ("string[]", "sl"), ("digest", "dg"), ("varint", "v")])
    bad = []
    try:
        for r in (D(p=x, s=s), D(x, s)):
            bad += _well_typed(r)
            if int(r.p) != x or str(r.s) != s or r.sl != [] or r.v is not None or r._version != 1 or r._generated is None or r._generated.tzinfo is None or type(r.dg).__name__ != "digest":
                bad.append(f"unexpected record {r!r} version={r._version!r}")
    except Exception as e:
        if 0 <= x <= 0xFFFF:
            bad.append(f"raised {type(e).__name__}: {e}")
    return {"problems": bad, "violates": bool(bad)}


def c05_decode(label):
    """a conforming record frame whose value the field type cannot represent: refused, or decoded into a well-formed value - never stored as it is"""
    import io
    import sys

    sys.path.insert(0, os.path.join(os.path.dirname(os.path.dirname(os.path.abspath(__file__))), "spec"))
    import ref_codec as R
    import wire_spec as W
    from flow.record.stream import RecordStreamReader

    cases = {"digest md5 of 3 bytes": ("digest", [b"abc", None, None]), "digest 16 bytes in the sha1 slot": ("digest", [None, b"x" * 16, None]), "digest sha256 of 33 bytes": ("digest", [None, None, b"y" * 33]), "uint16 of 70000": ("uint16", 70000),
             "uint32 of -1": ("uint32", -1), "boolean of 7": ("boolean", 7), "bytes given text": ("bytes", "text"), "digest[] with a short hash": ("digest[]", [[b"ab", None, None]])}
    t, v = cases[label]
    h = W.descriptor_hash("c05/dec", [(t, "x")])
    data = R.encode_stream([("DESC", "c05/dec", ((t, "x"),)), ("REC", "c05/dec", h, [v, None, None, ("ts", 2020, 1, 2, 3, 4, 5, 6), 1])])
    try:
        recs = list(RecordStreamReader(io.BytesIO(data)))
    except Exception as e:
        return {"violates": False, "refused": f"{type(e).__name__}: {e}"[:200]}
    r = recs[0]
    bad = _well_typed(r)
    if t.startswith("digest"):
        for d in (r.x if t.endswith("[]") else [r.x]):
            for alg, size in (("md5", 16), ("sha1", 20), ("sha256", 32)):
                hx = getattr(d, alg)
                if hx is not None and len(hx) != 2 * size:
                    bad.append(f"digest.{alg} decoded as {hx!r}")
    return {"violates": bool(bad), "problems": bad, "decoded": repr(r)[:200]}


def c05_capture(fname, x=7):
    from flow.record import RecordDescriptor

    D = RecordDescriptor("c05/cap", [("varint", fname), ("string", "other")])
    bad = []
    try:
        r1 = D(**{fname: x, "other": "o"})
        for r in (r1, D(x), r1._replace(other="p")):
            if r._version != 1 or type(r._version).__name__ != "varint":
                bad.append(f"_version is {r._version!r}")
            if type(r._generated).__name__ != "datetime":
                bad.append(f"_generated is {r._generated!r}")
            if getattr(r, fname) != x or type(getattr(r, fname)).__name__ != "varint":
                bad.append(f"field {fname} holds {getattr(r, fname)!r}")
    except Exception as e:
        bad.append(f"raised {type(e).__name__}: {e}")
    return {"problems": bad, "violates": bool(bad)}


def c05_replace(x=0):
    from flow.record import RecordDescriptor

    D = RecordDescriptor("c05/rep", [("uint16", "p"), ("string", "s"), ("varint", "v")])
    r = D(p=1, s="old", v=5)
    before = _observe(r)
    bad = []
    try:
        r2 = r._replace(p=x)
        if not (0 <= x <= 0xFFFF):
            bad.append("accepted an out-of-range value")
        if int(r2.p) != x or r2.s != "old" or r2.v != 5 or r2._generated != r._generated:
            bad.append(f"copy {r2!r}")
        bad += _well_typed(r2)
    except Exception as e:
        if 0 <= x <= 0xFFFF:
            bad.append(f"raised {type(e).__name__}")
    if _observe(r) != before:
        bad.append("original modified")
    try:
        r._replace(nosuchfield=1)
        bad.append("unknown field name accepted")
    except Exception:
        pass
    return {"problems": bad, "violates": bool(bad)}


def c05_legacy_list(ftype):
    from flow.record import RecordDescriptor
    from flow.record.fieldtypes.net import ipnetwork

    D = RecordDescriptor("c05/legacy", [(ftype, "x")])
    try:
        r = D(x=[ipnetwork("10.0.0.0/8"), 5])
    except Exception as e:
        return {"rejected": f"{type(e).__name__}: {e}", "violates": False}
    s = _serialisable(r)
    return {"accepted": repr(r.x), "serialisable": s is None, "exception": s, "violates": s is not None}


def c05_cross_types(seed, n):
    """Values taken from a field of one type assigned to a field of another type: accepted => well typed and serialisable; rejected => unchanged."""
    from flow.record import RecordDescriptor

    V = _vals()
    rnd = random.Random(seed)
    forms = [(t, False) for t in V.SCALARS] + [(t, True) for t in V.LISTABLE]
    cases = 0
    for i in range(n):
        (ta, la), (tb, lb) = rnd.choice(forms), rnd.choice(forms)
        srcs = V.VALID.get(ta, [])
        if not srcs:
            continue
        A = RecordDescriptor("c05/src", [(ta + ("[]" if la else ""), "x")])
        B = RecordDescriptor("c05/dst", [(tb + ("[]" if lb else ""), "y"), ("varint", "n")])
        try:
            a = A(x=[_eval(s) for s in rnd.sample(srcs, min(2, len(srcs)))] if la else _eval(rnd.choice(srcs)))
        except Exception:
            continue
        if tb in ("stringlist", "dictlist") and ta not in ("string", "wstring", "stringlist", "dictlist") or tb == "dynamic" and (la or ta in ("stringlist", "dictlist", "dynamic")):
            continue  # known finding (known_findings.txt): the legacy list types keep whatever elements they are given
        how = rnd.choice(["setattr", "init", "replace"])
        cases += 1
        b = B(n=1)
        before = _observe(b)
        try:
            if how == "setattr":
                b.y = a.x
            elif how == "init":
                b = B(y=a.x, n=1)
            else:
                b2 = b._replace(y=a.x)
                if _observe(b) != before:
                    return {"violates": True, "detail": f"_replace modified the original ({ta}{'[]' if la else ''} -> {tb}{'[]' if lb else ''})", "cases": cases}
                b = b2
        except Exception:
            if how == "setattr" and _observe(b) != before:
                return {"violates": True, "detail": f"rejected assignment changed the record: {ta}{'[]' if la else ''} value into {tb}{'[]' if lb else ''}", "witness": {"src": ta, "dst": tb, "lists": [la, lb]}, "cases": cases}
            continue
        bad = _well_typed(b)
        s = _serialisable(b)
        if s and "surrogates not allowed" not in s:
            bad.append(f"not serialisable: {s}")
        if bad:
            return {"violates": True, "detail": f"{how}: value of a {ta}{'[]' if la else ''} field into a {tb}{'[]' if lb else ''} field: {bad}", "witness": {"src": ta, "dst": tb, "lists": [la, lb], "how": how}, "cases": cases}
    return {"violates": False, "cases": cases}



def c05_naive(src, display="UTC"):
    """run in a child process with FLOW_RECORD_TZ set BEFORE the package is imported (the setting is read at import time)"""
    import subprocess
    import sys

    tz = {"UTC": "UTC", "Europe/Amsterdam": "Europe/Amsterdam", "a fixed offset of -07:00": "Etc/GMT+7", "no display zone": "NONE"}[display]
    code = (
        "import datetime, sys\n"
        "DT = datetime.datetime\n"
        "from flow.record import RecordDescriptor\n"
        f"v = {src}\n"
        "D = RecordDescriptor('c05/ts', [('datetime', 'x'), ('datetime[]', 'l')])\n"
        "r = D(x=v, l=[v]); r2 = D(); r2.x = v\n"
        "want = v if isinstance(v, DT) else DT.fromisoformat(v.decode() if isinstance(v, bytes) else v)\n"
        "bad = [repr(t) for t in (r.x, r.l[0], r2.x) if t.utcoffset() != datetime.timedelta(0) or t.replace(tzinfo=None) != want]\n"
        "print(bad); sys.exit(1 if bad else 0)\n"
    )
    p = subprocess.run([sys.executable, "-c", code], capture_output=True, text=True, env=dict(os.environ, FLOW_RECORD_TZ=tz))
    return {"violates": p.returncode != 0, "detail": f"FLOW_RECORD_TZ={tz}: naive {src} is held as {(p.stdout + p.stderr).strip()[-300:]}"}


def c05_defaults():
    from flow.record import RecordDescriptor

    D = RecordDescriptor("c05/def", [("string[]", "tags"), ("digest", "dg"), ("uint16[]", "ports"), ("varint", "n")])
    before, a = D(n=0), D(n=1)
    a.tags.append("suspicious")
    a.dg.md5 = "d41d8cd98f00b204e9800998ecf8427e"
    a.ports.append(80)
    after = D(n=2)
    got = [(len(r.tags), r.dg.md5, len(r.ports), r.tags is a.tags, r.dg is a.dg) for r in (before, after)]
    return {"violates": any(g != (0, None, 0, False, False) for g in got), "detail": f"records that never set the fields hold (len(tags), dg.md5, len(ports), same list, same digest) = {got!r}"}

CALLS = {"c05_defaults": c05_defaults, "c05_naive": c05_naive, "c05_digest_bytes": c05_digest_bytes, "c05_iadd": c05_iadd, "c05_history_pair": c05_history_pair, "c05_grouped_assign": c05_grouped_assign, "c05_naive_own_class": c05_naive_own_class, "c05_nonintegral": c05_nonintegral, "c05_json_writable": c05_json_writable, "c05_cross_value": c05_cross_value, "c05_assign": c05_assign, "c05_expect": c05_expect, "c05_range": c05_range, "c05_outcome": c05_outcome, "c05_cross_types": c05_cross_types, "c05_digest": c05_digest, "c05_legacy_list": c05_legacy_list, "c05_list_pair": c05_list_pair, "c05_init": c05_init, "c05_replace": c05_replace, "c05_capture": c05_capture, "c05_decode": c05_decode}

"""Native harness functions for C08 (run on the real code by /venv/bin/python)."""
import io
import random

FIELDS = [("varint", "n"), ("string", "s"), ("bytes", "b"), ("float", "f"), ("boolean", "flag"), ("string", "unset"), ("string[]", "sl"),
          ("net.ipaddress", "ip"), ("net.ipnetwork", "net"), ("uint16", "port"), ("digest", "dg"),
          ("command", "cmd"), ("net.ipv4.Address", "a4"), ("path", "p"), ("datetime", "ts"), ("uri", "u")]


def _rec(n=7, s="q"):
    from flow.record import RecordDescriptor

    D = RecordDescriptor("c08/rec", FIELDS)
    return D(n=n, s=s, b=b"ab", f=1.5, flag=True, sl=["a", "b"], ip="1.2.3.4", net="10.0.0.0/8", port=80, cmd="ls -l /tmp", a4="1.2.3.4", p="/a/b", ts=0, u="http://x/y")


def _engine(name):
    from flow.record.selector import CompiledSelector, Selector

    return {"interp": Selector, "compiled": CompiledSelector}[name]


def c08_eval(expr, engine):
    try:
        return {"outcome": repr(bool(_engine(engine)(expr).match(_rec()))), "violates": False}
    except Exception as e:
        return {"outcome": "raise:" + type(e).__name__, "violates": False}


def c08_select(expr, engine, n, s, want_false):
    out = {"expression": expr, "engine": engine, "record": {"n": n, "s": s}}
    try:
        r = _engine(engine)(expr).match(_rec(n, s))
        out["result"] = repr(r)
        out["violates"] = bool(r) if want_false else False
    except Exception as e:
        out["result"] = f"raised {type(e).__name__}: {e}"
        out["violates"] = True
    return out


def c08_ctx(expr, n, s, want):
    spec = {"false": False, "true": True, "n==1": n == 1, "s=='x'": s == "x"}[want]
    out = {"expression": expr, "record": {"n": n, "s": s}, "expected": spec}
    try:
        r = bool(_engine("interp")(expr).match(_rec(n, s)))
        out["result"] = r
        out["violates"] = r != spec
    except Exception as e:
        out["result"] = f"raised {type(e).__name__}: {e}"
        out["violates"] = True
    return out


def c08_helper(helper, extra, wrapped, s, x):
    from flow.record import selector

    rec = _rec(7, s or "")
    r = selector.WrappedRecord(rec) if wrapped else rec
    f = getattr(selector, helper)
    out = {}
    try:
        a = f(r, ["missing", "missing2"], [x or ""], **extra)
        b = f(r, ["missing", "s", "missing2"], ["abc"], **extra)
        c = f(r, ["s"], ["abc"], **extra)
        out.update(only_missing=a, with_missing=b, without=c, violates=bool(a) or bool(b) != bool(c))
    except Exception as e:
        out.update(result=f"raised {type(e).__name__}: {e}", violates=True)
    return out


def c08_helper_regex(wrapped, s):
    from flow.record import selector

    rec = _rec(7, s or "")
    r = selector.WrappedRecord(rec) if wrapped else rec
    out = {}
    try:
        a = selector.field_regex(r, ["missing", "missing2"], "a.c")
        b = selector.field_regex(r, ["missing", "s", "missing2"], "^a[bc]+$")
        c = selector.field_regex(r, ["s"], "^a[bc]+$")
        out.update(only_missing=a, with_missing=b, without=c, violates=bool(a) or bool(b) != bool(c))
    except Exception as e:
        out.update(result=f"raised {type(e).__name__}: {e}", violates=True)
    return out


def c08_mixed_stream(seed, records):
    """Filtering a stream that mixes record types: output == records that have the field and satisfy the condition."""
    from flow.record import RecordDescriptor, RecordReader, RecordStreamWriter
    from flow.record.selector import CompiledSelector, Selector

    rnd = random.Random(seed)
    A = RecordDescriptor("c08/a", [("varint", "n"), ("string", "s")])
    B = RecordDescriptor("c08/b", [("string", "s"), ("varint", "m")])
    recs = [(A(n=rnd.randint(-3, 12), s=rnd.choice("xyz")) if rnd.random() < 0.5 else B(s=rnd.choice("xyz"), m=rnd.randint(0, 9))) for _ in range(records)]
    buf = io.BytesIO()
    w = RecordStreamWriter(buf)
    for r in recs:
        w.write(r)
    w.flush()
    data = buf.getvalue()
    cases = 0
    for op, fn in (("==", lambda a: a == 8), ("!=", lambda a: a != 8), ("<", lambda a: a < 8), (">", lambda a: a > 8), ("<=", lambda a: a <= 8), (">=", lambda a: a >= 8), ("in", lambda a: a in [7, 8])):
        expr = f"r.n {op} 8" if op != "in" else "r.n in [7, 8]"
        expected = [(r.n, r.s) for r in recs if hasattr(r, "n") and fn(r.n)]
        for eng in (Selector, CompiledSelector):
            cases += 1
            try:
                got = [(r.n, r.s) for r in RecordReader(fileobj=io.BytesIO(data), selector=eng(expr))]
            except Exception as e:
                return {"violates": True, "detail": f"{eng.__name__}({expr!r}) over a mixed stream raised {type(e).__name__}: {e}", "witness": {"expr": expr, "seed": seed}, "cases": cases}
            if got != expected:
                return {"violates": True, "detail": f"{eng.__name__}({expr!r}): {len(got)} records out, {len(expected)} expected", "witness": {"expr": expr, "seed": seed}, "cases": cases}
    return {"violates": False, "cases": cases}


def c08_record_operand(expr, engine):
    from flow.record import RecordDescriptor

    A = RecordDescriptor("c08/inner", [("string", "s")])
    b = RecordDescriptor("c08/holder", [("record", "sub"), ("record[]", "subs")])(sub=A(s="x"), subs=[A(s="y")])
    try:
        r = _engine(engine)(expr).match(b)
        return {"violates": bool(r), "detail": f"{expr!r} on a record whose other operand is a nested record: {r!r}" if r else None}
    except Exception as e:
        return {"violates": True, "detail": f"{expr!r}: raised {type(e).__name__}: {e}"}


def c08_reader_json(engine, expr, want):
    from flow.record import selector as S
    from flow.record.adapter.jsonfile import JsonfileReader

    lines = ['{"id": 1, "user": "root", "port": 22}\n', '{"id": 2}\n', '{"id": 3, "user": "www", "port": 80}\n', '{"id": 4, "port": 443}\n']
    try:
        got = [r.id for r in JsonfileReader(io.StringIO("".join(lines)), selector=getattr(S, engine)(expr))]
    except Exception as e:
        got = f"raised {type(e).__name__}: {e}"
    return {"violates": got != want, "detail": None if got == want else f"plain JSON lines filtered with {expr!r}: ids {got}, expected {want}"}


def c08_helper_reserved(engine, expr, want):
    from flow.record import RecordDescriptor
    from flow.record import selector as S

    rec = RecordDescriptor("c08/meta", [("string", "s")])(s="x", _source="src-a", _classification="top secret")
    try:
        got = bool(getattr(S, engine)(expr).match(rec))
    except Exception as e:
        got = f"raised {type(e).__name__}: {e}"
    return {"violates": got is not want, "detail": None if got is want else f"{expr!r}: {got}, expected {want}"}


def c08_reader(expr="not (r.pid == 5)", engine="Selector"):
    from flow.record import RecordDescriptor
    from flow.record import selector as S
    from flow.record.stream import RecordStreamReader, RecordStreamWriter

    MISSING = object()
    refs = {
        "r.pid == 5": lambda f: f.get("pid", MISSING) == 5,
        "not (r.pid == 5)": lambda f: not (f.get("pid", MISSING) == 5),
        "not (r.pid >= 5)": lambda f: not ("pid" in f and f["pid"] >= 5),
        "r.nm == 'y' or not (r.pid == 5)": lambda f: f.get("nm") == "y" or not (f.get("pid", MISSING) == 5),
        "not (r.pid in (5, 6)) and not (r.nm == 'y')": lambda f: not (f.get("pid", MISSING) in (5, 6)) and not (f.get("nm", MISSING) == "y"),
        "not has_field(r, 'pid')": lambda f: "pid" not in f,
    }
    types = {"c08/event": [("string", "nm")], "c08/event2": [("string", "nm"), ("varint", "pid")], "c08/other": [("varint", "pid")], "c08/note": [("string", "text")]}
    rows = [("c08/event", {"nm": "x"}), ("c08/event2", {"nm": "x", "pid": 5}), ("c08/other", {"pid": 7}), ("c08/event", {"nm": "y"}), ("c08/note", {"text": "t"}), ("c08/event2", {"nm": "y", "pid": 6})]
    buf = io.BytesIO()
    w = RecordStreamWriter(buf)
    for t, f in rows:
        w.write(RecordDescriptor(t, types[t])(**f))
    w.flush()
    try:
        got = [(r._desc.name, {k: getattr(r, k) for k in r.__slots__ if not k.startswith("_")}) for r in RecordStreamReader(io.BytesIO(buf.getvalue()), selector=getattr(S, engine)(expr))]
    except Exception as e:
        return {"violates": True, "detail": f"reading with selector {expr!r} raised {type(e).__name__}: {e}"}
    want = [(t, f) for t, f in rows if refs[expr](f)]
    return {"violates": got != want, "detail": None if got == want else f"RecordStreamReader(selector={expr!r}) yields {got}, the condition holds for {want}"}


def c08_mixed(expr="r.pid == 5", engine="Selector"):
    from flow.record import RecordDescriptor
    from flow.record import selector as S

    Old = RecordDescriptor("c08/event", [("string", "nm")])
    New = RecordDescriptor("c08/event", [("string", "nm"), ("varint", "pid")])
    Other = RecordDescriptor("c08/other", [("varint", "pid")])
    recs = [Old(nm="x"), New(nm="x", pid=5), Old(nm="x"), Other(pid=5), New(nm="x", pid=5)]
    s = getattr(S, engine)(expr)
    out = []
    for r in recs:
        try:
            out.append(bool(s.match(r)))
        except Exception as e:
            out.append("raise " + type(e).__name__)
    want = [False, True, False, ("nm" not in expr), True]
    return {"violates": out != want, "got": out, "expected": want}


CALLS = {"c08_record_operand": c08_record_operand, "c08_reader_json": c08_reader_json, "c08_helper_reserved": c08_helper_reserved, "c08_reader": c08_reader, "c08_mixed": c08_mixed, "c08_eval": c08_eval, "c08_select": c08_select, "c08_ctx": c08_ctx, "c08_helper": c08_helper, "c08_helper_regex": c08_helper_regex, "c08_mixed_stream": c08_mixed_stream}

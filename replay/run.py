"""Native replay / run-time contract harness.

Executed by the repository's own interpreter (/venv/bin/python) with PYTHONPATH pointing at the source root under
verification; never by the prover.  A request is {"call": <name>, "args": {...}}; the functions live in h_<ID>.py and
answer a JSON object with at least {"violates": bool}.  A failure of the harness itself is not a violation.
"""
import glob
import importlib
import json
import os
import sys
import traceback
import warnings

warnings.simplefilter("ignore")
HERE = os.path.dirname(os.path.abspath(__file__))
sys.path.insert(0, HERE)

CALLS = {}


def load():
    for f in sorted(glob.glob(os.path.join(HERE, "h_*.py"))):
        m = importlib.import_module(os.path.basename(f)[:-3])
        CALLS.update(getattr(m, "CALLS", {}))


def one(req):
    try:
        return CALLS[req["call"]](**req.get("args", {}))
    except Exception as e:  # harness failure is not a violation
        return {"error": repr(e), "trace": traceback.format_exc()[-1500:], "violates": False}


if __name__ == "__main__":
    load()
    src = sys.stdin.read() if sys.argv[1] == "-" else open(sys.argv[1]).read()
    req = json.loads(src)
    if req.get("call") == "__batch__":
        res = {"results": [one(r) for r in req["args"]["requests"]]}
    else:
        res = one(req)
    print(json.dumps(res, default=str))

"""Native harness functions for C16: rdump.main on real files against a reference pipeline written from the property statement."""
import contextlib
import csv
import datetime
import glob
import io
import json
import os
import random
import tempfile

UTC = datetime.timezone.utc
GEN = datetime.datetime(2020, 1, 2, 3, 4, 5, tzinfo=UTC)
T1, T2 = datetime.datetime(2001, 1, 1, tzinfo=UTC), datetime.datetime(2002, 2, 2, tzinfo=UTC)
SELECTORS = {"r._source == None": lambda r: r._source is None, "r.t is not None": lambda r: True, "(r.t == 't1') == False": lambda r: getattr(r, "t", None) != "t1", None: lambda r: True, "r.n >= 2": lambda r: r.n >= 2, "r.n != 3 and has_field(r, 's')": lambda r: r.n != 3 and hasattr(r, "s"), "name(r) == 'c16/b' or r.n == 0": lambda r: r._desc.name == "c16/b" or r.n == 0,
             "r.nosuch == 1": lambda r: False, "r.n >= 1": lambda r: r.n >= 1, "'t' in r.t": lambda r: hasattr(r, "t") and "t" in r.t, "r.n in (0, 2, 4)": lambda r: r.n in (0, 2, 4), "any(x == r.n for x in (0, 2, 3, 5))": lambda r: r.n in (0, 2, 3, 5)}


def _descs():
    from flow.record import RecordDescriptor

    return RecordDescriptor("c16/a", [("varint", "n"), ("string", "s"), ("datetime", "ts"), ("datetime", "ts2")]), RecordDescriptor("c16/b", [("varint", "n"), ("string", "t")])


def _make_sources(td, layout, rng=None, exts=None):
    from flow.record import RecordWriter

    A, B = _descs()
    k = 0
    paths, intact = [], []
    for si, spec in enumerate(layout):
        ext = (exts[si] if exts else "")
        if spec.endswith("~"):
            # gzip-compressed, written with a flush after every record, the file ends at the last flush point (no gzip trailer: the writing process died)
            import gzip

            from flow.record.stream import RecordStreamWriter

            path = os.path.join(td, f"src{si}.records.gz")
            paths.append(path)
            A, B = _descs()
            raw = io.BytesIO()
            gz = gzip.GzipFile(fileobj=raw, mode="wb")
            w = RecordStreamWriter(gz)
            recs = []
            for kind in spec[:-1]:
                r = A(n=k, s=f"s{k}", ts=T1, ts2=T2, _generated=GEN) if kind == "A" else B(n=k, t=f"t{k}", _generated=GEN)
                k += 1
                w.write(r)
                w.flush()
                gz.flush()
                recs.append(r)
            open(path, "wb").write(raw.getvalue())
            w.fp = None
            intact.append(recs)
            continue
        if spec.endswith("^"):
            # a frame in the middle that is well-formed msgpack but of a foreign extension type: the decoder raises a plain Exception; what stands in front of it is intact
            import struct

            import msgpack

            from flow.record.stream import RecordStreamWriter

            path = os.path.join(td, f"src{si}.records")
            paths.append(path)
            A, B = _descs()
            recs, chunks = [], []
            for kind in spec[:-1]:
                r = A(n=k, s=f"s{k}", ts=T1, ts2=T2, _generated=GEN) if kind == "A" else B(n=k, t=f"t{k}", _generated=GEN)
                k += 1
                recs.append(r)
            buf = io.BytesIO()
            w = RecordStreamWriter(buf)
            w.write(recs[0])
            w.flush()
            first = buf.getvalue()
            for r in recs[1:]:
                w.write(r)
            w.flush()
            rest = buf.getvalue()[len(first):]
            w.fp = None
            body = msgpack.packb(msgpack.ExtType(5, b"not ours"))
            open(path, "wb").write(first + struct.pack(">I", len(body)) + body + rest)
            intact.append(recs[:1])
            continue
        path = os.path.join(td, f"src{si}.records{ext}")
        paths.append(path)
        if spec == "missing":
            intact.append([])
            continue
        if spec == "garbage":
            open(path, "wb").write(b"<html>this is not a record stream</html>")
            intact.append([])
            continue
        recs = []
        chunks = []  # a spec with "+" is a concatenation of streams (cat a b > c): every run is written by its own writer, with its own header frame
        for pi, part in enumerate(spec.replace("!", "").split("+")):
            ppath = path if pi == 0 else os.path.join(td, f"src{si}.part{pi}.records{ext}")
            w = RecordWriter(ppath)
            for kind in part:
                if kind == "a":
                    from flow.record import RecordDescriptor

                    r = RecordDescriptor("c16/a", [("varint", "n"), ("string", "s"), ("string", "extra")])(n=k, s=f"s{k}", extra=f"x{k}", _generated=GEN)
                else:
                    r = A(n=k, s=f"s{k}\udcff" if k % 2 else f"s{k}", ts=(None if k == 2 else T1), ts2=(None if k % 3 == 1 or k == 2 else T2), _generated=GEN) if kind == "A" else B(n=k, t=f"t{k}", _generated=GEN)
                k += 1
                w.write(r)
                recs.append(r)
            w.flush()
            w.close()
            chunks.append(open(ppath, "rb").read())
            if pi:
                os.unlink(ppath)
        if len(chunks) > 1:
            open(path, "wb").write(b"".join(chunks))
        if spec.endswith("!"):
            data = open(path, "rb").read()
            if ext:
                raise ValueError("truncation is applied to uncompressed sources")
            open(path, "wb").write(data[:-3])
            recs = recs[:-1]
        intact.append(recs)
    return paths, intact


def _obs(r, fields=None):
    fields = fields if fields is not None else [tuple(f) for f in r._desc.get_field_tuples()]
    return (r._desc.name, fields, {n: (type(getattr(r, n)).__name__, repr(getattr(r, n))) for _, n in fields + [("string", "_source"), ("string", "_classification")]})


def reference(intact, opts):
    recs = [r for src in intact for r in src if SELECTORS[opts.get("selector")](r)]
    skip, count = opts.get("skip", 0), opts.get("count")
    recs = recs[skip:(skip + count) if count else None]
    out = []
    for r in recs:
        fields = [tuple(f) for f in r._desc.get_field_tuples()]
        vals = {n: getattr(r, n) for n in r.__slots__}
        if opts.get("record_source") is not None:
            vals["_source"] = opts["record_source"]
        if opts.get("record_classification") is not None:
            vals["_classification"] = opts["record_classification"]
        fsel, ex = opts.get("fields"), opts.get("exclude") or []
        if fsel:
            fields = [(dict((n, t) for t, n in fields)[n], n) for n in fsel if n in [m for _, m in fields] and n not in ex]
        elif ex:
            fields = [(t, n) for t, n in fields if n not in ex]
        expanded = [(fields, vals)]
        if opts.get("multi_timestamp"):
            dts = [n for t, n in fields if t == "datetime"]
            if dts:
                expanded = []
                for n in dts:
                    v2 = dict(vals)
                    v2["ts"], v2["ts_description"] = vals[n], n
                    expanded.append(([("datetime", "ts"), ("string", "ts_description")] + [(t, m) for t, m in fields if m not in ("ts", "ts_description")], v2))
        for f, v in expanded:
            out.append((r._desc.name, f, {n: (type(v[n]).__name__ if v[n] is not None else "NoneType", repr(v[n])) for _, n in f + [("string", "_source"), ("string", "_classification")]}))
    return out


def _norm(o):
    name, fields, vals = o
    return (name, fields, {k: (("string", v[1]) if v[0] == "str" else v) for k, v in vals.items()})


def argv_of(opts, paths, out_uri):
    a = []
    if opts.get("selector"):
        a += ["-s", opts["selector"]]
    if opts.get("no_compile"):
        a += ["-n"]
    if opts.get("skip"):
        a += ["--skip", str(opts["skip"])]
    if opts.get("count") is not None:
        a += ["-c", str(opts["count"])]
    if opts.get("fields"):
        a += ["-F", ",".join(opts["fields"])]
    if opts.get("exclude"):
        a += ["-X", ",".join(opts["exclude"])]
    if opts.get("record_source") is not None:
        a += ["--record-source", opts["record_source"]]
    if opts.get("record_classification") is not None:
        a += ["--record-classification", opts["record_classification"]]
    if opts.get("multi_timestamp"):
        a += ["--multi-timestamp"]
    if opts.get("mode"):
        a += ["-m", opts["mode"]]
    if opts.get("split"):
        a += ["--split", str(opts["split"])]
    if out_uri:
        a += ["-w", out_uri]
    return a + list(paths)


def _run(argv):
    from flow.record.tools.rdump import main

    raw = io.BytesIO()
    buf = io.TextIOWrapper(raw, encoding="utf-8", errors="surrogateescape", write_through=True, newline="")
    with contextlib.redirect_stdout(buf), contextlib.redirect_stderr(io.StringIO()):
        main(argv)
        buf.flush()
    return raw.getvalue().decode("utf-8", "surrogateescape")


def _check(layout, opts, exts=None):
    from flow.record import RecordReader

    with tempfile.TemporaryDirectory() as td:
        paths, intact = _make_sources(td, layout, exts=exts)
        out = os.path.join(td, "out.records")
        _run(argv_of(opts, paths, out))
        if opts.get("split"):
            back = []
            for p in sorted(glob.glob(os.path.join(td, "out.*.records"))):
                with RecordReader(p) as rd:
                    part = list(rd)
                if len(part) > opts["split"]:
                    return f"split part {os.path.basename(p)} holds {len(part)} records"
                back += part
        else:
            with RecordReader(out) as rd:
                back = list(rd)
        got = [_norm(_obs(r)) for r in back]
        want = [_norm(o) for o in reference(intact, opts)]
        if got != want:
            k = next((i for i, (a, b) in enumerate(zip(got, want)) if a != b), min(len(got), len(want)))
            return f"{len(got)} records written, the reference pipeline gives {len(want)}; first difference at {k}: {got[k] if k < len(got) else None!r:.200} vs {want[k] if k < len(want) else None!r:.200}"
    return None


def c16_pipeline(opts=None, layout=None):
    try:
        bad = _check(list(layout) if layout else ["ABA", "BA", "A"], dict(opts or {}))
    except Exception as e:
        bad = f"raised {type(e).__name__}: {e}"
    return {"violates": bool(bad), "detail": bad}


def c16_isolate(bad="missing", pos=0):
    layout = ["AB", "BA"]
    layout.insert(pos, bad)
    try:
        res = _check(layout, {})
    except Exception as e:
        res = f"raised {type(e).__name__}: {e}"
    return {"violates": bool(res), "detail": res}


def _n_sequence(kind, text):
    if kind == "json":
        return [d["n"] for d in (json.loads(ln) for ln in text.splitlines() if ln.strip()) if d.get("_type") != "recorddescriptor"]
    if kind == "csv":
        rows = list(csv.reader(io.StringIO(text)))
        out, header = [], None
        for row in rows:
            if "n" in row and not row[row.index("n")].lstrip("-").isdigit():
                header = row
            elif header:
                out.append(int(row[header.index("n")]))
        return out
    if kind == "line":
        return [int(ln.split("=", 1)[1]) for ln in text.splitlines() if ln.strip().startswith("n =")]
    raise KeyError(kind)


def _writers(opts):
    with tempfile.TemporaryDirectory() as td:
        paths, intact = _make_sources(td, ["AA", "A"])
        want = [int(o[2]["n"][1]) for o in reference(intact, opts) if "n" in o[2]]
        for label, uri, mode, kind in (("jsonfile", "jsonfile://" + os.path.join(td, "o.json"), None, "json"), ("csvfile", "csvfile://" + os.path.join(td, "o.csv"), None, "csv"), ("line", "line://" + os.path.join(td, "o.txt"), None, "line"),
                                       ("mode jsonlines", None, "jsonlines", "json"), ("mode csv", None, "csv", "csv"), ("mode line", None, "line", "line")):
            o = dict(opts)
            if mode:
                o["mode"] = mode
            stdout = _run(argv_of(o, paths, uri))
            text = open(uri.split("://")[1], errors="surrogateescape").read() if uri else stdout
            got = _n_sequence(kind, text)
            if got != want:
                return f"{label}: records n={got}, the reference pipeline gives n={want}"
            if kind == "csv":  # one header row per run of records of one type: a header repeated inside a run is a data row to every CSV parser
                ref = reference(intact, opts)
                runs = sum(1 for i_, r_ in enumerate(ref) if i_ == 0 or (r_[0], r_[1]) != (ref[i_ - 1][0], ref[i_ - 1][1]))
                rows = list(csv.reader(io.StringIO(text)))
                if len(rows) != len(ref) + runs:
                    return f"{label}: {len(rows)} CSV rows for {len(ref)} records in {runs} run(s) of one type (a standard parser sees {len(rows) - runs} data rows)"
    return None


def c16_writers(opts=None):
    try:
        bad = _writers(dict(opts or {}))
    except Exception as e:
        bad = f"raised {type(e).__name__}: {e}"
    return {"violates": bool(bad), "detail": bad}


def c16_writer_options(mode="line-verbose", extra=None, want=None):
    from urllib.parse import parse_qsl, urlparse

    from flow.record.tools import rdump

    seen = []
    orig = rdump.RecordWriter

    def spy(uri, *a, **k):
        seen.append(uri)
        return orig(uri, *a, **k)

    with tempfile.TemporaryDirectory() as td:
        paths, intact = _make_sources(td, ["A"])
        rdump.RecordWriter = spy
        try:
            _run(["-m", mode] + list(extra or []) + paths)
        finally:
            rdump.RecordWriter = orig
    got = [dict(parse_qsl(urlparse(u).query)) for u in seen]
    ok = len(got) == 1 and all(got[0].get(k) == v for k, v in (want or {}).items())
    return {"violates": not ok, "detail": None if ok else f"-m {mode} {extra}: the writer is opened with the options {got}, the command line asks for {want}"}


def c16_split(count=1, suffix_length=1, n=12):
    from flow.record import RecordReader

    with tempfile.TemporaryDirectory() as td:
        paths, intact = _make_sources(td, ["A" * n])
        _run(["--split", str(count), "--suffix-length", str(suffix_length), "-w", os.path.join(td, "out.records")] + paths)
        got = []
        for p in sorted(glob.glob(os.path.join(td, "out.*.records"))):
            try:
                with RecordReader(p) as rd:
                    part = [r.n for r in rd]
            except Exception:
                part = []
            if len(part) > count:
                return {"violates": True, "detail": f"part {os.path.basename(p)} holds {len(part)} records"}
            got += part
        want = [r.n for r in intact[0]]
    return {"violates": sorted(got) != want, "detail": f"parts hold n={sorted(got)}, written n={want}"}


def c16_sweep(seed=0, n=60):
    rng = random.Random(seed)
    cases = 0
    for i in range(n):
        layout = []
        for _ in range(rng.randrange(1, 5)):
            k = rng.random()
            layout.append("missing" if k < 0.12 else "garbage" if k < 0.22 else "".join(rng.choice("AB") for _ in range(rng.randrange(1, 5))) + ("!" if rng.random() < 0.15 else ""))
        exts = [("" if (s in ("missing", "garbage") or s.endswith("!")) else rng.choice(["", "", ".gz", ".bz2"])) for s in layout]
        opts = {}
        if rng.random() < 0.5:
            opts["selector"] = rng.choice([s for s in SELECTORS if s])
            opts["no_compile"] = rng.random() < 0.5
        if rng.random() < 0.4:
            opts["skip"] = rng.randrange(0, 5)
        if rng.random() < 0.4:
            opts["count"] = rng.randrange(0, 5)
        if rng.random() < 0.3:
            opts["fields"] = rng.sample(["n", "s", "t", "ts", "nosuch"], rng.randrange(1, 4))
        if rng.random() < 0.3:
            opts["exclude"] = rng.sample(["n", "s", "ts2", "t"], rng.randrange(1, 3))
        if rng.random() < 0.25:
            opts["record_source"] = rng.choice(["src", ""])
        if rng.random() < 0.2:
            opts["record_classification"] = "cls"
        if rng.random() < 0.25:
            opts["multi_timestamp"] = True
        if rng.random() < 0.15:
            opts["split"] = rng.randrange(1, 4)
        cases += 1
        try:
            bad = _check(layout, opts, exts)
        except Exception as e:
            bad = f"raised {type(e).__name__}: {e}"
        if bad:
            return {"violates": True, "detail": f"run {i}: sources {layout} {exts} options {opts}: {bad}"[:600], "witness": {"seed": seed, "run": i, "layout": layout, "opts": opts}, "cases": cases}
        if i % 10 == 0:
            o2 = {k: v for k, v in opts.items() if k in ("selector", "no_compile", "skip", "count")}
            try:
                bad = _writers(o2)
            except Exception as e:
                bad = f"raised {type(e).__name__}: {e}"
            if bad:
                return {"violates": True, "detail": f"run {i}: writers / modes with {o2}: {bad}"[:600], "witness": {"seed": seed, "run": i, "writers": True}, "cases": cases}
    r = c16_split(1, 1, 12)
    if r["violates"]:
        return {"violates": True, "detail": "--split 1 --suffix-length 1 with 12 records: " + r["detail"], "witness": {"split": True}, "cases": cases}
    return {"violates": False, "cases": cases}


CALLS = {"c16_writer_options": c16_writer_options, "c16_split": c16_split, "c16_pipeline": c16_pipeline, "c16_isolate": c16_isolate, "c16_writers": c16_writers, "c16_sweep": c16_sweep}

"""Native harness functions for C20 (run on the real code by /venv/bin/python with the real csv module)."""
import csv
import datetime
import io
import os
import random
import sys
import tempfile

sys.path.insert(0, os.path.dirname(os.path.abspath(__file__)))
import h_C01 as H  # noqa: E402

UTC = datetime.timezone.utc
GEN = datetime.datetime(2020, 1, 2, 3, 4, 5, tzinfo=UTC)
DISPLAYS = {"UTC": UTC, "none": None, "+14:00": datetime.timezone(datetime.timedelta(hours=14))}


def _run_writer(scheme, fname, recs, **opts):
    from flow.record import RecordWriter

    with tempfile.TemporaryDirectory() as td:
        p = os.path.join(td, fname)
        q = "&".join(f"{k}={v}" for k, v in opts.items())
        w = RecordWriter(scheme + p + ("?" + q if q else ""))
        for r in recs:
            w.write(r)
        w.flush()
        w.close()
        return open(p, "rb").read()


def _descs():
    from flow.record import RecordDescriptor

    return RecordDescriptor("c20/a", [("varint", "n"), ("string", "s"), ("string", "t")]), RecordDescriptor("c20/b", [("string", "s"), ("varint", "k")])


def _expected_csv(recs, opts):
    sel = opts.get("fields")
    sel = sel.split(",") if sel else None
    ex = opts.get("exclude")
    ex = ex.split(",") if ex else []
    rows, prev = [], None
    for r in recs:
        names = [f for f in (sel if sel else r.__slots__) if f in r.__slots__ and f not in ex]
        if r._desc != prev:
            rows.append(names)
        prev = r._desc
        rows.append([str(getattr(r, f)) if getattr(r, f) is not None else "" for f in names])
    return rows


def _check_csv(recs, opts):
    data = _run_writer("csvfile://", "a.csv", recs, **opts)
    term = {None: "\r\n", "\\n": "\n", "\\r\\n": "\r\n"}.get(opts.get("lineterminator"), "\r\n")
    text = data.decode("utf-8", "surrogateescape")
    got = list(csv.reader(io.StringIO(text, newline=""), lineterminator=term)) if term in ("\r\n", "\n") else None
    want = _expected_csv(recs, opts)
    if got is not None and got != want:
        k = next((i for i, (a, b) in enumerate(zip(got, want)) if a != b), min(len(got), len(want)))
        return f"row {k} parsed by a standard CSV parser: {got[k] if k < len(got) else None!r}, expected {want[k] if k < len(want) else None!r} ({len(got)} rows, expected {len(want)})"
    return None


def c20_csv(opts=None, history="AAB", s="v"):
    A, B = _descs()
    recs = [A(n=5 + i, s=s, t=f"t{i}", _generated=GEN) if h == "A" else B(s="w", k=i, _generated=GEN) for i, h in enumerate(history)]
    try:
        bad = _check_csv(recs, dict(opts or {}))
    except Exception as e:
        bad = f"raised {type(e).__name__}: {e}"
    return {"violates": bool(bad), "detail": bad}


def c20_csv_grouped(opts=None):
    from flow.record import GroupedRecord, RecordDescriptor, RecordWriter

    opts = dict(opts or {})
    A = RecordDescriptor("c20/a", [("varint", "n"), ("string", "s")])
    B = RecordDescriptor("c20/b", [("string", "s"), ("varint", "k")])
    g = GroupedRecord("c20/grp", [A(n=5, s="mine", _source="first"), B(s="other", k=2, _source="second")])
    with tempfile.TemporaryDirectory() as td:
        p = os.path.join(td, "out.csv")
        q = "&".join(f"{k}={v}" for k, v in opts.items())
        w = RecordWriter("csvfile://" + p + ("?" + q if q else ""))
        w.write(g)
        w.close()
        with open(p, newline="") as f:
            rows = list(csv.reader(f))
    want_head = opts["fields"].split(",") if opts.get("fields") else ["n", "s", "k", "_source", "_classification", "_generated", "_version"]
    bad = None
    if len(rows) != 2 or (rows[0] != want_head if opts.get("fields") else (sorted(rows[0]) != sorted(want_head) or [c for c in rows[0] if not c.startswith("_")] != ["n", "s", "k"])):
        bad = f"rows {rows!r:.300}, expected the header fields {want_head}"
    else:
        row = dict(zip(rows[0], rows[1]))
        if (row["_source"], row["s"], row["n"]) != ("first", "mine", "5"):
            bad = f"cells _source / s / n are {(row['_source'], row['s'], row['n'])}, the grouped record holds ('first', 'mine', 5)"
    return {"violates": bool(bad), "detail": bad}


def c20_csv_read(s="a", w="b"):
    """CSV with unambiguous content (plain cells, several rows, one delimiter): read back as records with the same text values, for each delimiter"""
    from flow.record import RecordReader

    for delim in (",", ";", "\t", "|"):
        with tempfile.TemporaryDirectory() as td:
            p = os.path.join(td, "in.csv")
            rows = [["name", "2nd", "plain"], [s, "b", "c"], ["", w, "z"], ["n3", "v3", "p3"], ["n4", "v4", "p4"], ["line1\r\nline2", "v5", "p5"], ["n6", "cr\ronly", "lf\nonly"], ["", "", ""], ["n8", "", ""]]
            with open(p, "w", newline="") as f:
                wr = csv.writer(f, delimiter=delim)
                for row in rows:
                    wr.writerow(row)
            try:
                with RecordReader("csvfile://" + p) as rd:
                    back = list(rd)
            except Exception as e:
                return {"violates": True, "detail": f"delimiter {delim!r}: {type(e).__name__}: {e}"}
        got = [[r.name, r.x_2nd, r.plain] for r in back] if all(hasattr(r, "x_2nd") for r in back) else None
        if got != rows[1:]:
            return {"violates": True, "detail": f"delimiter {delim!r}: read back {back!r:.300}"}
    return {"violates": False}


def _expected_line(recs, opts):
    sel = opts.get("fields")
    sel = sel.split(",") if sel else None
    ex = opts.get("exclude")
    ex = ex.split(",") if ex else []
    verbose = str(opts.get("verbose", "")).lower() in ("true", "1")
    out = b""
    for i, r in enumerate(recs):
        names = [f for f in (sel if sel else r.__slots__) if f in r.__slots__ and f not in ex]
        types = {n: f.typename for n, f in r._desc.get_all_fields().items()}
        labels = [f"{k} ({types[k]})" if verbose else k for k in names]
        width = max([len(l_) for l_ in labels] or [0])
        out += f"--[ RECORD {i + 1} ]--\n".encode()
        for lab, k in zip(labels, names):
            out += (lab.rjust(width) + " = " + format(getattr(r, k)) + "\n").encode(errors="surrogateescape")
    return out


def c20_line(opts=None, s="v"):
    from flow.record import RecordDescriptor

    opts = dict(opts or {})
    A = RecordDescriptor("c20/a", [("varint", "n"), ("string", "longer_name"), ("bytes", "b")])
    recs = [A(n=5 + i, longer_name=s, b=b"\xff", _generated=GEN) for i in range(2)]
    try:
        data = _run_writer("line://", "a.txt", recs, **{k: v for k, v in opts.items()})
        want = _expected_line(recs, opts)
        bad = None if data == want else f"line output {data!r:.200}, expected {want!r:.200}"
    except Exception as e:
        bad = f"raised {type(e).__name__}: {e}"
    return {"violates": bool(bad), "detail": bad}


def _expected_text(r, format_spec):
    if not format_spec:
        return (repr(r) + "\n").encode(errors="surrogateescape")
    spec = format_spec
    for old, new in ((r"\r", "\r"), (r"\n", "\n"), (r"\t", "\t")):
        spec = spec.replace(old, new)

    class D(dict):
        def __missing__(self, key):
            return "{" + key + "}"

    return (spec.format_map(D(r._asdict())) + "\n").encode(errors="surrogateescape")


def c20_text(format_spec=None, s="v"):
    from flow.record import RecordDescriptor
    from flow.record.adapter.text import TextWriter

    A = RecordDescriptor("c20/a", [("varint", "n"), ("string", "s")])
    r = A(n=42, s=s, _generated=GEN)
    fp = io.BytesIO()
    try:
        w = TextWriter(fp, format_spec=format_spec)
        w.write(r)
        w.write(r)
        data = fp.getvalue()
        w.fp = None
        want = _expected_text(r, format_spec) * 2
        bad = None if data == want else f"text output {data!r:.200}, expected {want!r:.200}"
    except Exception as e:
        bad = f"raised {type(e).__name__}: {e}"
    return {"violates": bool(bad), "detail": bad}


def c20_text_grouped(format_spec=None, want=""):
    from flow.record import GroupedRecord, RecordDescriptor
    from flow.record.adapter.text import TextWriter

    A = RecordDescriptor("c20/a", [("varint", "n"), ("string", "s")])
    B = RecordDescriptor("c20/b", [("string", "s"), ("varint", "k")])
    g = GroupedRecord("c20/grp", [A(n=42, s="one", _generated=GEN), B(s="two", k=7, _generated=GEN)])
    fp = io.BytesIO()
    try:
        w = TextWriter(fp, format_spec=format_spec)
        w.write(g)
        data = fp.getvalue()
        w.fp = None
        bad = None if data == want.encode() else f"text output {data!r:.200}, expected {want.encode()!r:.200}"
    except Exception as e:
        bad = f"raised {type(e).__name__}: {e}"
    return {"violates": bool(bad), "detail": bad}


def c20_line_grouped(opts=None, want=()):
    from flow.record import GroupedRecord, RecordDescriptor
    from flow.record.adapter.line import LineWriter

    A = RecordDescriptor("c20/a", [("varint", "n"), ("string", "s")])
    B = RecordDescriptor("c20/b", [("string", "s"), ("varint", "k")])
    g = GroupedRecord("c20/grp", [A(n=42, s="one", _generated=GEN, _source="first"), B(s="two", k=7, _generated=GEN, _source="second")])
    fp = io.BytesIO()
    try:
        w = LineWriter(fp, **dict(opts or {}))
        w.write(g)
        lines = fp.getvalue().decode().splitlines(keepends=True)
        w.fp = None
        bad = None if lines[:1] == ["--[ RECORD 1 ]--\n"] and sorted(lines[1:]) == sorted(want) else f"line output {lines!r:.300}, expected the block header and (in some order) {list(want)!r:.300}"
    except Exception as e:
        bad = f"raised {type(e).__name__}: {e}"
    return {"violates": bool(bad), "detail": bad}


def c20_text_unset(format_spec, setv=None, rx=".*"):
    import re

    from flow.record import RecordDescriptor
    from flow.record.adapter.text import TextWriter

    A = RecordDescriptor("c20/a", [("varint", "n"), ("string", "s")])
    fp = io.BytesIO()
    try:
        w = TextWriter(fp, format_spec=format_spec)
        w.write(A(_generated=GEN, **dict(setv or {})))
        data = fp.getvalue()
        w.fp = None
    except Exception as e:
        return {"violates": True, "detail": f"the text writer raised {type(e).__name__}: {e} for the template {format_spec!r} and a record with the fields {sorted(setv or {})} set"}
    ok = re.fullmatch(rx.encode(), data) is not None
    return {"violates": not ok, "detail": None if ok else f"text output {data!r}, expected one line of the form {rx!r}"}


def c20_total(ftype, src, display="UTC"):
    import flow.record.fieldtypes as F
    from flow.record import RecordDescriptor

    D = RecordDescriptor("c20/t", [(ftype, "x")])
    try:
        r = D(x=H._eval(src), _generated=GEN)
    except Exception as e:
        return {"violates": False, "note": f"rejected at construction {type(e).__name__}"}
    saved = F.DISPLAY_TZINFO
    F.DISPLAY_TZINFO = DISPLAYS[display]
    try:
        for scheme, fname, opts in (("text://", "a.txt", {}), ("text://", "b.txt", {"format_spec": "{x}|{x!r}"}), ("line://", "c.txt", {"verbose": "true"}), ("csvfile://", "d.csv", {})):
            data = _run_writer(scheme, fname, [r], **opts)
            if not data:
                return {"violates": True, "detail": f"{scheme} wrote nothing"}
        return {"violates": False}
    except Exception as e:
        return {"violates": True, "detail": f"a text writer raised {type(e).__name__}: {e}"}
    finally:
        F.DISPLAY_TZINFO = saved


def c20_sweep(seed=0, n=120):
    import flow.record.fieldtypes as F
    from flow.record import RecordDescriptor

    rng = random.Random(seed)
    gens = dict(H.RANDOM)
    gens["string"] = lambda r: r.choice(["", "a", "a,b", 'q"uo"te', "line\nbreak", "cr\r\nlf", "tab\tsemi;colon", "é€😀", "\udcff\udc80", " lead", "x" * 50, "=1+1", "'single'"])
    gens["datetime"] = lambda r: r.choice([datetime.datetime(1, 1, 1, 3, tzinfo=datetime.timezone(datetime.timedelta(hours=5))), datetime.datetime(9999, 12, 31, 22, tzinfo=datetime.timezone(datetime.timedelta(hours=-5))), GEN, datetime.datetime(1969, 7, 20, 20, 17, tzinfo=UTC)])
    gens["filesize"] = lambda r: r.choice([0, 1, 1023, 1024, 10**6, 2**60, 2**70, r.randrange(2**64)])
    cases = 1
    r0 = c20_total("string", "'\\udcff\\udc80'")
    if r0.get("violates"):
        return {"violates": True, "detail": f"a string holding undecodable bytes: {r0['detail']}", "witness": {"undecodable": True}, "cases": cases}
    saved = F.DISPLAY_TZINFO
    try:
        for i in range(n):
            F.DISPLAY_TZINFO = rng.choice(list(DISPLAYS.values()))
            k = rng.random()
            cases += 1
            descs = []
            for _ in range(rng.randrange(1, 3)):
                types = [rng.choice(sorted(gens)) + ("[]" if rng.random() < 0.15 else "") for _ in range(rng.randrange(1, 5))]
                types = [t if (not t.endswith("[]") or t[:-2] in H.LISTABLE) else t[:-2] for t in types]
                descs.append(RecordDescriptor(rng.choice(["t/a", "t/b"]), [(t, f"f{j}") for j, t in enumerate(types)]))

            def mk(D):
                return D(_generated=GEN, **{nm: (None if rng.random() < 0.1 else ([gens[t[:-2]](rng) for _ in range(rng.randrange(3))] if t.endswith("[]") else gens[t](rng))) for t, nm in D.get_field_tuples()})

            recs = [mk(rng.choice(descs)) for _ in range(rng.randrange(1, 6))]
            try:
                if k < 0.45:
                    opts = rng.choice([{}, {"fields": "f0,f1"}, {"exclude": "_generated,_version"}, {"lineterminator": "\\n"}, {"fields": "f1,f0,nosuch", "exclude": "f0"}])
                    bad = _check_csv(recs, opts)
                elif k < 0.75:
                    opts = rng.choice([{}, {"verbose": "true"}, {"fields": "f0"}, {"exclude": "_source,_classification"}])
                    data = _run_writer("line://", "a.txt", recs, **opts)
                    want = _expected_line(recs, opts)
                    bad = None if data == want else f"line output differs: {data!r:.150} vs {want!r:.150}"
                else:
                    fmt = rng.choice([None, "{f0}\\t{f1}|{nosuch}", "{f0!r}\\n{_generated}", "x"])
                    from flow.record.adapter.text import TextWriter

                    fp = io.BytesIO()
                    w = TextWriter(fp, format_spec=fmt)
                    for r in recs:
                        w.write(r)
                    data = fp.getvalue()
                    w.fp = None
                    want = b"".join(_expected_text(r, fmt) for r in recs)
                    bad = None if data == want else f"text output differs: {data!r:.150} vs {want!r:.150}"
            except Exception as e:
                bad = f"raised {type(e).__name__}: {e}"
            if bad:
                return {"violates": True, "detail": f"case {i}: {bad}"[:500], "witness": {"seed": seed, "case": i}, "cases": cases}
    finally:
        F.DISPLAY_TZINFO = saved
    r = c20_csv_read("safecell", "another1")  # (cells with quotes / delimiters are ambiguous for the dialect sniffer the reader uses: not demanded)
    if r["violates"]:
        return {"violates": True, "detail": f"CSV read back: {r['detail']}", "witness": {"csv_read": True}, "cases": cases}
    return {"violates": False, "cases": cases}


CALLS = {"c20_line_grouped": c20_line_grouped, "c20_text_grouped": c20_text_grouped, "c20_text_unset": c20_text_unset, "c20_csv_grouped": c20_csv_grouped, "c20_csv": c20_csv, "c20_csv_read": c20_csv_read, "c20_line": c20_line, "c20_text": c20_text, "c20_total": c20_total, "c20_sweep": c20_sweep}

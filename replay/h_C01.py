"""Native harness functions for C01 (run on the real code by /venv/bin/python)."""
import datetime
import importlib.util
import io
import os
import pathlib
import random
import sys

VERIF = os.path.dirname(os.path.dirname(os.path.abspath(__file__)))
_spec = importlib.util.spec_from_file_location("c05_values", os.path.join(VERIF, "replay", "c05_values.py"))
V = importlib.util.module_from_spec(_spec)
_spec.loader.exec_module(V)
UTC = datetime.timezone.utc


def _eval(src):
    import ipaddress

    import struct

    return eval(src, dict(V.NS, PurePosixPath=pathlib.PurePosixPath, PureWindowsPath=pathlib.PureWindowsPath, IP4=ipaddress.IPv4Address, IP6=ipaddress.IPv6Address, F64=lambda h: struct.unpack(">d", bytes.fromhex(h))[0]))


def deep(v):
    """Deep canonical observation: class names, flavour, packed form, text form - not Record.__eq__."""
    from flow.record import GroupedRecord, Record
    from flow.record.fieldtypes import FieldType

    if isinstance(v, GroupedRecord):
        return ("grouped", v.name, tuple(deep(r) for r in v.records))
    if isinstance(v, Record):
        return ("record", v._desc.name, tuple(tuple(f) for f in v._desc.get_field_tuples()), tuple((k, deep(getattr(v, k))) for k in v.__slots__))
    if isinstance(v, list):
        return ("list", type(v).__name__, tuple(deep(e) for e in v))
    if isinstance(v, tuple):
        return ("tuple", tuple(deep(e) for e in v))
    if isinstance(v, dict):
        return ("dict", tuple((k, deep(e)) for k, e in v.items()))
    if isinstance(v, float):
        import struct

        return (type(v).__name__, struct.pack(">d", float(v)).hex())  # the bit pattern (float.hex() says 'nan' for every NaN)
    if isinstance(v, datetime.datetime):
        return (type(v).__name__, v.isoformat(), v.utcoffset().total_seconds() if v.utcoffset() is not None else None)
    if isinstance(v, FieldType) and hasattr(v, "_pack") and not isinstance(v, (int, str, bytes, float)):
        fam = getattr(getattr(v, "val", None), "version", None)
        # (a digest is its three binary values: the letter case of the hex text it was given is not part of the value)
        return (type(v).__name__, fam, deep(v._pack()), "" if type(v).__name__ == "digest" else str(v))
    return (type(v).__name__, repr(v))


def _roundtrip(records):
    from flow.record.stream import RecordStreamReader, RecordStreamWriter

    fp = io.BytesIO()
    w = RecordStreamWriter(fp)
    for r in records:
        w.write(r)
    w.flush()
    data = fp.getvalue()
    w.fp = None
    return list(RecordStreamReader(io.BytesIO(data)))


def _compare(records):
    try:
        back = _roundtrip(records)
    except UnicodeEncodeError:
        return {"violates": False, "note": "text cannot be encoded (C05 finding)"}
    except Exception as e:
        return {"violates": True, "detail": f"round trip raised {type(e).__name__}: {e}"}
    a, b = [deep(r) for r in records], [deep(r) for r in back]
    if a != b:
        k = next((i for i, (x, y) in enumerate(zip(a, b)) if x != y), min(len(a), len(b)))
        return {"violates": True, "detail": f"record {k}: written {a[k] if k < len(a) else None!r:.250} read {b[k] if k < len(b) else None!r:.250}"}
    return {"violates": False}


def c01_value(ftype, src):
    from flow.record import RecordDescriptor

    D = RecordDescriptor("c01/t", [(ftype, "x"), ("varint", "n")])
    try:
        r = D(x=_eval(src), n=7)
    except Exception as e:
        return {"violates": False, "note": f"value rejected at construction: {type(e).__name__}"}
    return _compare([r])


def c01_obs(ftype, src):
    from flow.record import RecordDescriptor

    D = RecordDescriptor("c01/t", [(ftype, "x"), ("varint", "n")])
    try:
        back = _roundtrip([D(x=_eval(src), n=7)])
        v = back[0].x
        return {"obs": [type(v).__name__, str(v)], "violates": False}
    except Exception as e:
        return {"obs": "raise:" + type(e).__name__, "violates": False}


def c01_keyword(x=0, s="", y=0):
    from flow.record import RecordDescriptor

    D = RecordDescriptor("c01/kw", [("varint", "from"), ("string", "class"), ("boolean", "is"), ("string[]", "in"), ("varint", "plain")])
    return _compare([D(x, s, False, [], y)])


def c01_meta(x=0, s="", w=""):
    from flow.record import RecordDescriptor

    D = RecordDescriptor("c01/meta", [("varint", "n")])
    return _compare([D(n=x, _source=s, _classification=w, _generated=datetime.datetime(2001, 2, 3, 4, 5, 6, 7, tzinfo=datetime.timezone(datetime.timedelta(hours=2))))])


def c01_ignore_scope(x=0, s=""):
    from flow.record import GroupedRecord, RecordDescriptor
    from flow.record.base import ignore_fields_for_comparison

    A = RecordDescriptor("c01/a", [("varint", "n"), ("string", "s")])
    N = RecordDescriptor("c01/nest", [("record", "r")])
    recs = [A(n=x, s=s), N(r=A(n=x + 1, s="in")), GroupedRecord("c01/grp", [A(n=x + 1, s="g")])]
    before = [deep(r) for r in recs]
    try:
        with ignore_fields_for_comparison(["_generated"]):
            back = _roundtrip(recs)
    except UnicodeEncodeError:
        return {"violates": False}
    except Exception as e:
        return {"violates": True, "detail": f"round trip inside an ignore scope raised {type(e).__name__}: {e}"}
    after = [deep(r) for r in back]
    return {"violates": after != before, "detail": None if after == before else "records written while fields are ignored for comparison come back different"}


def c01_refused_between(x=0):
    from flow.record import RecordDescriptor
    from flow.record.stream import RecordStreamReader, RecordStreamWriter

    A = RecordDescriptor("c01/a", [("varint", "n")])
    DL = RecordDescriptor("c01/dl", [("dictlist", "dl"), ("varint", "n")])
    good = [A(n=x), DL(dl=[{"k": "v"}], n=x + 1), A(n=x + 1)]
    fp = io.BytesIO()
    w = RecordStreamWriter(fp)
    w.write(good[0])
    try:
        w.write(DL(dl=[{"k": {1, 2}}], n=1))
        return {"violates": True, "detail": "a record holding an unpackable value was accepted"}
    except Exception:
        pass
    for r in good[1:]:
        w.write(r)
    w.flush()
    try:
        back = list(RecordStreamReader(io.BytesIO(fp.getvalue())))
    except Exception as e:
        return {"violates": True, "detail": f"after a refused write the stream cannot be read back: {type(e).__name__}: {e}"}
    ok = [deep(r) for r in back] == [deep(r) for r in good]
    return {"violates": not ok, "detail": None if ok else f"after a refused write {len(back)} of {len(good)} accepted records come back / they differ"}


def c01_sequence(x=0):
    from flow.record import RecordDescriptor

    A = RecordDescriptor("c01/a", [("varint", "n")])
    A2 = RecordDescriptor("c01/a", [("string", "s"), ("varint", "n")])
    W0, W3 = RecordDescriptor("c01/w0", []), RecordDescriptor("c01/w3", [("varint", "f0"), ("varint", "f1"), ("varint", "f2")])
    return _compare([A(n=x), A2(s="v", n=x + 1), A(n=x + 1), A2(s="", n=0), W0(), W3(x, x + 1, x + 2)])


def c01_nested(x=0, y=0):
    from flow.record import RecordDescriptor

    A = RecordDescriptor("c01/a", [("varint", "n")])
    N = RecordDescriptor("c01/nest", [("record", "r"), ("record[]", "rs"), ("varint", "k")])
    a = A(n=x)
    inner = N(r=a, rs=[], k=1)
    return _compare([N(r=inner, rs=[a, inner], k=y)])


def c01_grouped(x=0, s="", y=0):
    from flow.record import GroupedRecord, RecordDescriptor

    A = RecordDescriptor("c01/a", [("varint", "n")])
    B = RecordDescriptor("c01/b", [("string", "s"), ("varint", "n")])
    return _compare([GroupedRecord("c01/grp", [A(n=x), B(s=s, n=y)])])


RANDOM = {"varint": lambda r: r.choice([0, 1, -1, 2**63, -(2**63) - 1, 2**64, r.randrange(-(2**80), 2**80)]), "filesize": lambda r: r.choice([0, 2**60, r.randrange(2**70)]), "unix_file_mode": lambda r: r.randrange(0o7777),
          "uint16": lambda r: r.choice([0, 65535, r.randrange(65536)]), "uint32": lambda r: r.choice([0, 2**32 - 1, r.randrange(2**32)]), "net.tcp.Port": lambda r: r.randrange(65536), "boolean": lambda r: r.choice([True, False, 0, 1]),
          "float": lambda r: r.choice([0.0, -0.0, 1.5, float("inf"), float("-inf"), 5e-324, 1.7976931348623157e308, r.random()]),
          "string": lambda r: r.choice(["", "a", "é€😀", "\udc80\udcff", "x" * 300, "\x00", "line\nbreak", "".join(chr(r.randrange(32, 0x2FF)) for _ in range(r.randrange(8)))]), "wstring": lambda r: r.choice(["", "wé"]),
          "bytes": lambda r: r.choice([b"", b"\x00", bytes(range(256)), bytes(r.randrange(256) for _ in range(r.randrange(40)))]),
          "datetime": lambda r: r.choice([datetime.datetime(1970, 1, 1, tzinfo=UTC), datetime.datetime(1, 1, 1, tzinfo=UTC), datetime.datetime(9999, 12, 31, 23, 59, 59, 999999, tzinfo=UTC), datetime.datetime(1969, 12, 31, 23, 59, 59, 1, tzinfo=UTC),
                                              datetime.datetime(2021, 10, 31, 2, 30, tzinfo=datetime.timezone(datetime.timedelta(hours=1))), datetime.datetime(2020, 2, 29, 12, 0, 0, r.randrange(10**6), tzinfo=datetime.timezone(datetime.timedelta(minutes=r.randrange(-720, 720)))),
                                              "2020-01-02T03:04:05", 1e9]),
          "digest": lambda r: r.choice([("d41d8cd98f00b204e9800998ecf8427e", None, None), (None, "da39a3ee5e6b4b0d3255bfef95601890afd80709", None), ("D41D8CD98F00B204E9800998ECF8427E", None, "e3b0c44298fc1c149afbf4c8996fb92427ae41e4649b934ca495991b7852b855"), (None, None, None)]),
          "path": lambda r: r.choice(["/a/b", "c:\\x\\y", "", "relative/p", "/", "C:\\", "\\\\server\\share\\f", "/with space/x", pathlib.PurePosixPath("/q"), pathlib.PureWindowsPath("c:/q")]),
          "command": lambda r: r.choice(["ls -l /tmp", "c:\\windows\\cmd.exe /c dir", '"/bin/my prog" a b', "x", "%WINDIR%\\x.exe -k", "/bin/sh -c 'a b'"]),
          "uri": lambda r: r.choice(["http://h/p?q#f", "", "file:///c:/x", "HTTP://User@Host:80/%7e"]),
          "net.ipaddress": lambda r: r.choice(["1.2.3.4", "255.255.255.255", "0.0.0.0", "2001:db8::1", "ffff:ffff:ffff:ffff:ffff:ffff:ffff:ffff", "::1:0:0:0"]),
          "net.ipnetwork": lambda r: r.choice(["10.0.0.0/8", "::/0", "1.2.3.4", "2001:db8::/32", "0.0.0.0/0"]), "net.ipv4.Address": lambda r: r.choice(["1.2.3.4", 16909060]), "net.ipv4.Subnet": lambda r: r.choice(["10.0.0.0/8", "1.2.3.4/32"]),
          "stringlist": lambda r: r.choice([[], ["a", "b"], ["", "é"]]), "dictlist": lambda r: r.choice([[], [{"a": 1}], [{"a": 1, "b": {"c": None}}, {}]]),
          "dynamic": lambda r: r.choice(["x", 5, b"y", True, ["a"], 2**70, datetime.datetime(2020, 1, 2, tzinfo=UTC)])}
LISTABLE = [t for t in V.LISTABLE if t in RANDOM]


def c01_sweep(seed=0, n=150):
    from flow.record import GroupedRecord, RecordDescriptor

    rng = random.Random(seed)
    cases = 0
    names = ["s/a", "s/b", "s/a/c", "x"]
    for i in range(n):
        descs = []
        for _ in range(rng.randrange(1, 4)):
            types = [rng.choice(sorted(RANDOM)) + ("[]" if rng.random() < 0.25 else "") for _ in range(rng.randrange(0, 6))]
            types = [t if (not t.endswith("[]") or t[:-2] in LISTABLE) else t[:-2] for t in types]
            descs.append(RecordDescriptor(rng.choice(names), [(t, f"f{j}") for j, t in enumerate(types)]))
        nest = RecordDescriptor("s/nest", [("record", "r"), ("record[]", "rs")])

        def value(t):
            if rng.random() < 0.12:
                return None
            if t.endswith("[]"):
                return [RANDOM[t[:-2]](rng) for _ in range(rng.randrange(4))]
            return RANDOM[t](rng)

        def plain():
            D = rng.choice(descs)
            return D(**{nm: value(t) for t, nm in D.get_field_tuples()})

        recs = []
        for _ in range(rng.randrange(1, 6)):
            k = rng.random()
            if k < 0.7:
                recs.append(plain())
            elif k < 0.85:
                recs.append(nest(r=plain() if rng.random() < 0.8 else None, rs=[plain() for _ in range(rng.randrange(3))]))
            else:
                recs.append(GroupedRecord("s/grp", [plain() for _ in range(rng.randrange(1, 4))]))
        cases += 1
        res = _compare(recs)
        if res.get("violates"):
            # the two recorded findings (IPv6 address below 2**32, dynamic holding a structured value) are not generated here; anything else is reported
            return {"violates": True, "detail": f"sequence {i}: {res['detail']}", "witness": {"seed": seed, "sequence": i}, "cases": cases}
    return {"violates": False, "cases": cases}




def c01_alias(s=""):
    from flow.record import RecordDescriptor

    A = RecordDescriptor("c01/alias", [("string", "s"), ("net.ipaddress", "ip"), ("string[]", "l")])
    B = RecordDescriptor("c01/alias", [("wstring", "s"), ("net.IPAddress", "ip"), ("wstring[]", "l")])
    return _compare([A(s=s, ip="1.2.3.4", l=["a"]), B(s=s, ip="1.2.3.4", l=["a"]), A(s="x", ip="2001:db8::1", l=[]), B(s="y", ip=None, l=["b", "c"])])


def c01_same_instant(x=0):
    from flow.record import RecordDescriptor

    D = RecordDescriptor("c01/ts", [("datetime", "ts"), ("datetime[]", "tl"), ("varint", "n")])
    vals = [_eval(s_) for s_ in ("DT(2020, 1, 1, 12, 0, 0, 5, tzinfo=TZ(TD(0)))", "DT(2020, 1, 1, 13, 0, 0, 5, tzinfo=TZ(TD(hours=1)))", "DT(2020, 1, 1, 7, 0, 0, 5, tzinfo=TZ(TD(hours=-5)))", "DT(2020, 1, 1, 17, 30, 0, 5, tzinfo=TZ(TD(hours=5, minutes=30)))")]
    rs = [D(ts=v, tl=[vals[(i + 1) % 4], vals[(i + 2) % 4]], n=x, _generated=vals[(i + 3) % 4]) for i, v in enumerate(vals)]
    rs.append(D(ts=vals[0], tl=[], n=x, _generated=vals[0]))
    return _compare(rs)



def c01_meta_unset(x=0):
    from flow.record import RecordDescriptor

    r = RecordDescriptor("c01/meta", [("varint", "n")])(n=x)
    r._generated = None
    return _compare([r])


def c01_grouped_same_name(x=0, s="", y=0):
    from flow.record import GroupedRecord, RecordDescriptor

    A = RecordDescriptor("c01/a", [("varint", "n")])
    A2 = RecordDescriptor("c01/a", [("string", "s"), ("varint", "n")])
    return _compare([A(n=x), GroupedRecord("c01/grp", [A2(s=s, n=y), A(n=3)]), A2(s="after", n=4)])


def c01_buffer_history(kind="bytearray"):
    """a bytes field given a mutable buffer that the caller changes after the record was created (when the buffer is accepted at all)"""
    from flow.record import RecordDescriptor

    D = RecordDescriptor("c01/buf", [("bytes", "x"), ("bytes[]", "l")])
    buf = bytearray(b"AAAAAAAA")
    src = buf if kind == "bytearray" else memoryview(buf)
    try:
        r = D(x=src, l=[src])
    except (TypeError, ValueError):
        return {"violates": False, "note": "the mutable buffer is refused"}
    before = deep(r)
    buf[:] = b"DDDDDDDD"
    try:
        back = _roundtrip([r])
    except Exception as e:
        return {"violates": True, "detail": f"round trip raised {type(e).__name__}: {e}"}
    after = deep(back[0])
    return {"violates": after != before, "detail": f"the record held {before[3][:2]!r} when it was created, the stream gave back {after[3][:2]!r}"}

CALLS = {"c01_buffer_history": c01_buffer_history, "c01_grouped_same_name": c01_grouped_same_name, "c01_meta_unset": c01_meta_unset, "c01_refused_between": c01_refused_between, "c01_ignore_scope": c01_ignore_scope, "c01_value": c01_value, "c01_obs": c01_obs, "c01_keyword": c01_keyword, "c01_meta": c01_meta, "c01_sequence": c01_sequence, "c01_nested": c01_nested, "c01_grouped": c01_grouped, "c01_sweep": c01_sweep, "c01_alias": c01_alias, "c01_same_instant": c01_same_instant}

"""Representative values per field type (value, equal value, different value): shared by contracts/C12.py and replay/h_C12.py."""
ONE = {  # per type: (value, an equal value written differently or None, a different value)
    "varint": (5, 5, 6), "string": ("a", "a", "b"), "uint16": (80, 80, 81), "uint32": (80, 80, 81), "boolean": (True, 1, False), "float": (1.5, 1.5, 2.5), "bytes": (b"ab", b"ab", b"ac"),
    "datetime": ("2020-01-02T03:04:05+00:00", "2020-01-02T03:04:05+00:00", "2020-01-02T03:04:06+00:00"), "digest": (("d41d8cd98f00b204e9800998ecf8427e", None, None), ("d41d8cd98f00b204e9800998ecf8427e", None, None), (None, None, None)),
    "path": ("/a/b", "/a/b", "/a/c"), "command": ("ls -l /tmp", "ls -l /tmp", "ls -l /var"), "net.ipaddress": ("1.2.3.4", "1.2.3.4", "1.2.3.5"), "net.ipnetwork": ("10.0.0.0/8", "10.0.0.0/8", "10.0.0.0/16"),
    "string[]": (["a", "b"], ["a", "b"], ["b", "a"]), "dictlist": ([{"a": 1, "b": [1, 2]}], [{"b": [1, 2], "a": 1}], [{"a": 2}]), "stringlist": (["x"], ["x"], ["y"]), "uri": ("http://h/p", "http://h/p", "http://h/q"),
    "filesize": (3, 3, 4), "unix_file_mode": (0o644, 0o644, 0o600), "wstring": ("w", "w", "v"), "varint[]": ([1, 2], [1, 2], [2, 1]), "net.tcp.Port": (443, 443, 80), "net.udp.Port": (53, 53, 54), "dynamic": ("x", "x", "y"),
    "command[]": (["ls -l", "cat /x"], ["ls -l", "cat /x"], ["ls"]), "path[]": (["/a", "/b"], ["/a", "/b"], ["/a"]), "digest[]": ([("d41d8cd98f00b204e9800998ecf8427e", None, None)], [("d41d8cd98f00b204e9800998ecf8427e", None, None)], []),
    "net.ipaddress[]": (["1.2.3.4"], ["1.2.3.4"], ["1.2.3.5"]), "datetime[]": (["2020-01-02T03:04:05+00:00"], ["2020-01-02T03:04:05+00:00"], []), "bytes[]": ([b"a"], [b"a"], [b"b"]), "float[]": ([1.5], [1.5], [2.5]),
}

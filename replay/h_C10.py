"""Native harness functions for C10 (run on the real code by /venv/bin/python)."""
import datetime
import os
import random
import sys
import tempfile

VERIF = os.path.dirname(os.path.dirname(os.path.abspath(__file__)))
sys.path.insert(0, os.path.join(VERIF, "replay"))
UTC = datetime.timezone.utc


def _obs(r):
    d = r._asdict()
    return (r._desc.name, tuple(tuple(f) for f in r._desc.get_field_tuples()), tuple((k, type(v).__name__, repr(v)) for k, v in d.items() if k != "_generated"))


def _descs():
    from flow.record import RecordDescriptor

    return [RecordDescriptor("c10/a", [("varint", "n"), ("string", "s"), ("varint", "other")]), RecordDescriptor("c10/b", [("string", "s"), ("string", "t")]), RecordDescriptor("c10/c", [("varint", "n"), ("float", "f")])]


def _records(rng, n, uniform=False):
    D = _descs()
    out = []
    for i in range(n):
        k = 0 if uniform else rng.randrange(3)
        if k == 0:
            out.append(D[0](n=rng.randrange(4), s=rng.choice(["a", "b", "x", "", "a  b", "a b", "a\tb"]), other=rng.choice([None, 0, 5])))
        elif k == 1:
            out.append(D[1](s=rng.choice(["a", "xa", "c"]), t=rng.choice(["a", "t"])))
        else:
            out.append(D[2](n=rng.randrange(4), f=rng.choice([0.5, 2.0])))
    return out


EXPRS = ["r.s == 'a  b'", "r.s not in ['a b', 'a\tb']", "r.n == 1", "r.s in ['a', 'b']", "'x' in r.s", "lower(r.s) == 'a'", "field_equals(r, ['s'], ['a'])", "name(r) == 'c10/a'", "has_field(r, 'n')", "fields('varint')", "any(f.name == 'n' for f in fields('varint'))",
         "Type.string == 'a'", "'a' in Type.string", "r.missing == 1", "r.n > 1 and r.s != 'a' or not r.n", "r.n + 1 >= 2", "upper(r.s) in ('A', 'B')", "field_contains(r, ['s'], ['a'])", "r.s", "not r.other", "r.n >= 2",
         "r.f > 1", "1 < r.n < 3", "r.n != 2 and has_field(r, 't') or r.s == 'x'"]
KINDS = {"stream": ("", "a.records", False), "stream-gz": ("", "a.records.gz", False), "json": ("jsonfile://", "a.json", False), "avro": ("avro://", "a.avro", True), "csv": ("csvfile://", "a.csv", True), "sqlite": ("sqlite://", "a.sqlite", False)}


def _safe_match(sel, r):
    try:
        return bool(sel.match(r))
    except Exception as e:
        return f"raise:{type(e).__name__}"


def _case(kind, recs, expr, form):
    from flow.record import RecordReader, RecordWriter
    from flow.record.selector import CompiledSelector, Selector

    scheme, fname, _ = KINDS[kind]
    with tempfile.TemporaryDirectory() as td:
        path = scheme + os.path.join(td, fname)
        w = RecordWriter(path)
        for r in recs:
            w.write(r)
        w.flush()
        w.close()
        with RecordReader(path) as rd:
            everything = list(rd)
        mk = (lambda: expr) if form == "text" else (lambda: Selector(expr)) if form == "Selector" else (lambda: CompiledSelector(expr))
        fresh = (lambda: CompiledSelector(expr)) if form == "CompiledSelector" else (lambda: Selector(expr))
        expected, raised = [], False
        for r in everything:
            before = _obs(r)
            m = _safe_match(fresh(), r)
            if _obs(r) != before:
                return f"match() changed the record {before!r:.120}"
            if isinstance(m, str):
                raised = True
                break
            if m:
                expected.append(_obs(r))
        got, err = [], None
        try:
            # (SQLite: a small batch size, so that the table spans several batches)
            with RecordReader(path + ("?batch_size=1" if kind == "sqlite" else ""), selector=mk()) as rd:
                for r in rd:
                    got.append(_obs(r))
        except Exception as e:
            err = type(e).__name__
        if raised:
            return None if (err is not None and got == expected[: len(got)]) else f"filtering afterwards raises at some record but the reader with the selector ended with {err} after {len(got)} records"
        if err is not None or got != expected:
            return f"{kind} reader with selector {expr!r} ({form}): {len(got)} records (error {err}); reading everything and filtering afterwards keeps {len(expected)}"
    return None


def c10_sweep(seed=0, n=40):
    rng = random.Random(seed)
    cases = 0
    for i in range(n):
        kind = rng.choice(sorted(KINDS))
        recs = _records(rng, rng.randrange(1 if KINDS[kind][2] else 0, 7), uniform=KINDS[kind][2])
        expr = rng.choice(EXPRS)
        form = rng.choice(["text", "Selector", "CompiledSelector"])
        if form == "CompiledSelector" and "fields(" in expr:
            form = "Selector"
        cases += 1
        bad = _case(kind, recs, expr, form)
        if bad:
            return {"violates": True, "detail": f"case {i}: {bad}", "witness": {"seed": seed, "case": i, "kind": kind, "expr": expr, "form": form}, "cases": cases}
    return {"violates": False, "cases": cases}


def c10_reader(kind="stream"):
    rng = random.Random(5)
    k = {"stream": "stream"}.get(kind, kind)
    for expr in EXPRS[:12]:
        recs = _records(rng, 5, uniform=KINDS[k][2])
        bad = _case(k, recs, expr, "text")
        if bad:
            return {"violates": True, "detail": bad}
    # plain JSON lines take the reader's fallback branch
    if kind == "json":
        from flow.record import RecordReader
        from flow.record.selector import Selector

        with tempfile.TemporaryDirectory() as td:
            p = os.path.join(td, "plain.json")
            open(p, "w").write('{"n": 1, "s": "a"}\n{"n": 2, "s": "b"}\n')
            with RecordReader("jsonfile://" + p) as rd:
                everything = list(rd)
            want = [_obs(r)[2][:2] for r in everything if Selector("r.n == 2").match(r)]
            with RecordReader("jsonfile://" + p, selector="r.n == 2") as rd:
                got = [_obs(r)[2][:2] for r in rd]
            if got != want:
                return {"violates": True, "detail": f"plain JSON lines: reader with selector gave {len(got)} records, filtering afterwards {len(want)}"}
    return {"violates": False}


def c10_equiv(kind="sqlite", expr="not (r.n == 1)", form="text"):
    rng = random.Random(11)
    k = {"stream": "stream"}.get(kind, kind)
    recs = _records(rng, 6, uniform=KINDS[k][2])
    bad = _case(k, recs, expr, "text" if form == "text" else form)
    return {"violates": bool(bad), "detail": bad}


def c10_history(expr, cls="Selector", order="a then b", x=0, s=""):
    from flow.record import RecordDescriptor
    from flow.record import selector as S

    D = _descs()
    ra, rb = D[0](n=x, s=s, other=0), D[1](s=s, t="a")
    if "same name" in order:
        rb = RecordDescriptor("c10/a", [("string", "s"), ("string", "t")])(s=s, t="a")
    first, second = (ra, rb) if order.startswith("a then") else (rb, ra)
    C = getattr(S, cls)
    s1 = C(expr)
    _safe_match(s1, first)
    after, fresh = _safe_match(s1, second), _safe_match(C(expr), second)
    return {"violates": after != fresh, "after": after, "fresh": fresh}


REF_CASES = [
    ("(r.n, r.s) in [(r.other, 'a'), (1, 'b')]", [("varint", "n"), ("string", "s"), ("varint", "other")], {"n": 5, "s": "a", "other": 5}, [("varint", "n"), ("string", "s"), ("varint", "other")], {"n": 5, "s": "a", "other": 6}, False),
    ("(r.n, r.s) in [(r.other, 'a'), (1, 'b')]", [("varint", "n"), ("string", "s"), ("varint", "other")], {"n": 5, "s": "a", "other": 7}, [("varint", "n"), ("string", "s"), ("varint", "other")], {"n": 6, "s": "a", "other": 6}, True),
    ("r.n in [0, (r.other,), r.other]", [("varint", "n"), ("varint", "other")], {"n": 1, "other": 1}, [("varint", "n"), ("varint", "other")], {"n": 1, "other": 2}, False),
    ("str(lower(r.v)) == '1'", [("boolean", "v")], {"v": True}, [("varint", "v")], {"v": 1}, True),
    ("str(upper(r.v)) == 'True'", [("varint", "v")], {"v": 1}, [("boolean", "v")], {"v": True}, True),
    ("str(lower(r.v)) == '1.0'", [("varint", "v")], {"v": 1}, [("float", "v")], {"v": 1.0}, True),
    ("lower(r.v) == 'ab'", [("string", "v")], {"v": "AB"}, [("string", "v")], {"v": "Ab"}, True),
    ("upper(r.v) in ['X', r.w]", [("string", "v"), ("string", "w")], {"v": "q", "w": "Q"}, [("string", "v"), ("string", "w")], {"v": "q", "w": "Z"}, False),
]


def c10_history_value(case=0, cls="Selector"):
    from flow.record import RecordDescriptor
    from flow.record import selector as S

    expr, f1, v1, f2, v2, want = REF_CASES[case]
    R1 = RecordDescriptor("c10/h1", f1)
    R2 = RecordDescriptor("c10/h2" if f1 != f2 else "c10/h1", f2)
    s1 = getattr(S, cls)(expr)
    _safe_match(s1, R1(**v1))
    got = _safe_match(s1, R2(**v2))
    ok = got == ("ok", want) or got == want or (isinstance(got, tuple) and got[-1] is want)
    return {"violates": not ok, "detail": None if ok else f"{expr!r}: the record {v2} matched after {v1} gives {got}, its own values give {want}"}


def c10_history_grouped(cls="Selector", order="ab then cd"):
    from flow.record import GroupedRecord, RecordDescriptor
    from flow.record import selector as S

    mk = lambda tn, fn: RecordDescriptor(tn, [("string", fn)])(**{fn: "v"})
    g_ab = GroupedRecord("c10/grp", [mk("c10/ma", "x"), mk("c10/mb", "y")])
    g_cd = GroupedRecord("c10/grp", [mk("c10/mc", "x"), mk("c10/md", "y")])
    s1 = getattr(S, cls)('"c10/ma" in names(r)')
    seq = [g_ab, g_cd] if order.startswith("ab") else [g_cd, g_ab]
    out = {}
    for g in seq + seq:
        out.setdefault("ab" if g is g_ab else "cd", []).append(_safe_match(s1, g))
    ok = out == {"ab": [True, True], "cd": [False, False]}
    return {"violates": not ok, "detail": None if ok else f"'\"c10/ma\" in names(r)' over two grouped records of one group name ({order}): {out}"}


def c10_frame_list(expr, cls="Selector"):
    from flow.record import RecordDescriptor
    from flow.record import selector as S

    rec = RecordDescriptor("c10/tags", [("string", "s"), ("string[]", "tags"), ("stringlist", "sl")])(s="root", tags=["Wheel", "ROOT", "adm"], sl=["Mixed", "CASE"])
    _safe_match(getattr(S, cls)(expr), rec)
    got = (list(rec.tags), list(rec.sl))
    ok = got == (["Wheel", "ROOT", "adm"], ["Mixed", "CASE"])
    return {"violates": not ok, "detail": None if ok else f"after matching {expr!r} the record's list fields hold {got}"}


def c10_frame(expr, cls="Selector"):
    from flow.record import selector as S

    D = _descs()
    ra, rb = D[0](n=1, s="a", other=0), D[1](s="a", t="a")
    before = (_obs(ra), _obs(rb))

    def gstate():
        return {k: (type(v).__name__, len(v), sorted(map(repr, v))[:50] if not isinstance(v, list) else list(map(repr, v))[:50]) for k, v in vars(S).items() if isinstance(v, (dict, list, set)) and not k.startswith("__")}

    g0 = gstate()
    s1 = getattr(S, cls)(expr)
    for r in (ra, rb, ra):
        _safe_match(s1, r)
    g1 = gstate()
    leaked = [k for k in g1 if g1[k] != g0.get(k)]
    return {"violates": (_obs(ra), _obs(rb)) != before or bool(leaked), "module_state_left_behind": leaked}


def c10_make():
    from flow.record.selector import CompiledSelector, Selector, make_selector

    a, b = make_selector("r.n == 1"), make_selector("r.n == 1", True)
    ok = make_selector(None) is None and make_selector("") is None and type(a) is Selector and type(b) is CompiledSelector and make_selector(a) is a and make_selector(b) is b and type(make_selector(a, True)) is CompiledSelector
    return {"violates": not ok}


def c10_model_conformance():
    """Samples the ghost-state models against the real engines: fastavro buffering, csv rows, sqlite3 transaction visibility."""
    import csv
    import io
    import sqlite3

    import fastavro

    schema = fastavro.parse_schema({"type": "record", "name": "t", "fields": [{"name": "n", "type": ["long", "null"]}]})
    fp = io.BytesIO()
    w = fastavro.write.Writer(fp, schema, codec="null")
    header = len(fp.getvalue())
    w.write({"n": 1})
    buffered = len(fp.getvalue()) == header
    w.flush()
    flushed = len(fp.getvalue()) > header
    back = list(fastavro.reader(io.BytesIO(fp.getvalue())))
    try:
        w.write({"n": "text"})
        w.flush()
        rejected = False
    except Exception:
        rejected = True
    if not (header > 0 and buffered and flushed and back == [{"n": 1}] and rejected):
        return {"ok": False, "detail": f"fastavro: header {header} buffered {buffered} flushed {flushed} back {back} rejected {rejected}"}
    s = io.StringIO()
    dw = csv.DictWriter(s, ["a", "b"], lineterminator="\n")
    dw.writeheader()
    dw.writerow({"a": 1, "b": "x,y"})
    try:
        dw.writerow({"zz": 1})
        extra = False
    except ValueError:
        extra = True
    if list(csv.reader(io.StringIO(s.getvalue()))) != [["a", "b"], ["1", "x,y"]] or not extra:
        return {"ok": False, "detail": "csv"}
    with tempfile.TemporaryDirectory() as td:
        p = os.path.join(td, "t.db")
        c1 = sqlite3.connect(p, isolation_level=None)
        c1.execute("BEGIN")
        c1.execute('CREATE TABLE IF NOT EXISTS "t" ("a" BIGINT)')
        c1.execute('INSERT INTO "t" ("a") VALUES (?)', [1])
        c2 = sqlite3.connect(p)
        try:
            invisible = c2.execute("SELECT name FROM sqlite_master WHERE type='table'").fetchall() == []
        except sqlite3.OperationalError:
            invisible = True
        c1.execute("COMMIT")
        visible = c2.execute('SELECT * FROM "t"').fetchall() == [(1,)]
        c1.execute("BEGIN")
        c1.execute('INSERT INTO "t" ("a") VALUES (?)', [2])
        c1.close()
        lost = sqlite3.connect(p).execute('SELECT * FROM "t"').fetchall() == [(1,)]
        if not (invisible and visible and lost):
            return {"ok": False, "detail": f"sqlite3: invisible {invisible} visible {visible} lost-on-close {lost}"}
    return {"ok": True, "cases": 3, "violates": False}



def c10_entry(expr="r.n > 6 and r.s"):
    from flow.record import RecordDescriptor, RecordReader, RecordWriter
    from flow.record.selector import Selector

    A = RecordDescriptor("c10/a", [("varint", "n"), ("string", "s")])
    recs = [A(n=5, s="a"), A(n=None, s="b"), A(n=7, s=""), A(n=9, s="d")]
    with tempfile.TemporaryDirectory() as td:
        path = os.path.join(td, "e.records")
        w = RecordWriter(path)
        for r in recs:
            w.write(r)
        w.flush()
        w.close()
        want = [r.s for r in recs if _safe_match(Selector(expr), r) is True]
        got, end = [], "stop"
        try:
            with RecordReader(path, selector=expr) as rd:
                for r in rd:
                    got.append(r.s)
        except Exception as e:
            end = f"raise {type(e).__name__}"
    return {"violates": got != want or end != "stop", "detail": f"reading by path with the text selector {expr!r} yields {got} (ended {end}), testing each record afterwards keeps {want}"}


def c10_contains(eng="Selector", expr="r.s"):
    from flow.record import RecordDescriptor, selector

    A = RecordDescriptor("c10/a", [("varint", "n"), ("string", "s")])
    recs = [A(n=5, s="a"), A(n=None, s="b"), A(n=7, s=""), A(n=9, s="d")]
    s1, s2 = getattr(selector, eng)(expr), getattr(selector, eng)(expr)
    def outcome(f):
        try:
            return bool(f())
        except Exception as e:
            return f"raise {type(e).__name__}"

    a, b = [outcome(lambda: r in s1) for r in recs], [outcome(lambda: s2.match(r)) for r in recs]
    return {"violates": a != b, "detail": f"`record in selector` gives {a}, selector.match(record) gives {b}"}


def c10_selector_raises(kind="stream"):
    """a selector that cannot be evaluated on the second record: the reader yields what was kept before and raises, like testing afterwards does"""
    from flow.record import RecordDescriptor, RecordReader, RecordWriter
    from flow.record.selector import Selector

    k = {"stream": "stream"}.get(kind, kind)
    scheme, fname, _ = KINDS[k]
    D = RecordDescriptor("c10/sz", [("string", "size"), ("string", "s")])
    recs = [D(size="5", s="a"), D(size="zz", s="b"), D(size="7", s="c")]

    class Raising(Selector):
        def match(self, r):
            if r.s == "b":
                raise TypeError("'>' not supported between instances of 'str' and 'int'")
            return True

    with tempfile.TemporaryDirectory() as td:
        path = scheme + os.path.join(td, fname)
        w = RecordWriter(path)
        for r in recs:
            w.write(r)
        w.flush()
        w.close()
        got, end = [], "stop"
        try:
            with RecordReader(path, selector=Raising("r.s")) as rd:
                for r in rd:
                    got.append(r.s)
        except TypeError:
            end = "raise TypeError"
        except Exception as e:
            end = f"raise {type(e).__name__}"
    return {"violates": got != ["a"] or end != "raise TypeError", "detail": f"{kind}: the reader yielded {got} and ended {end}; testing afterwards keeps ['a'] and raises TypeError at the second record"}

CALLS = {"c10_contains": c10_contains, "c10_selector_raises": c10_selector_raises, "c10_entry": c10_entry, "c10_history_grouped": c10_history_grouped, "c10_frame_list": c10_frame_list, "c10_history_value": c10_history_value, "c10_equiv": c10_equiv, "c10_sweep": c10_sweep, "c10_reader": c10_reader, "c10_history": c10_history, "c10_frame": c10_frame, "c10_make": c10_make, "c10_model_conformance": c10_model_conformance}

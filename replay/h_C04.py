"""Native harness functions for C04 (run on the real code by /venv/bin/python)."""
import gzip
import io
import os
import random
import sys

sys.path.insert(0, os.path.dirname(os.path.dirname(os.path.abspath(__file__))))


def _descs():
    from flow.record import RecordDescriptor

    return [RecordDescriptor("c04/rec", [("varint", "n"), ("string", "s")]),
            RecordDescriptor("c04/rec", [("string", "s"), ("varint", "n"), ("uint16", "p")]),
            RecordDescriptor("c04/other", [("bytes", "b"), ("datetime", "ts"), ("string[]", "l")]),
            RecordDescriptor("c04/nest", [("record", "r"), ("varint", "k")]),
            RecordDescriptor("c04/marker", [])]


def _obs(r):
    from flow.record import Record

    def o(v):
        if isinstance(v, Record):
            return ("rec", v._desc.name, tuple(v._desc.get_field_tuples()), tuple(o(getattr(v, f)) for f in v.__slots__))
        if isinstance(v, list):
            return ("list", type(v).__name__, tuple(o(x) for x in v))
        return (type(v).__name__, repr(v))

    return o(r)


def _gen_records(rng, n):
    import datetime

    D = _descs()
    out = []
    for i in range(n):
        k = rng.randrange(5)
        if k == 4:
            out.append(D[4](_source=rng.choice([None, "m"])))
        elif k == 0:
            out.append(D[0](n=rng.choice([0, 1, -1, 2**70, -(2**64), rng.randrange(-1000, 1000)]), s=rng.choice(["", "a", "é" * 40, "x" * 300, "\udc80"])))
        elif k == 1:
            out.append(D[1](s="p", n=i, p=rng.randrange(65536)))
        elif k == 2:
            out.append(D[2](b=bytes(rng.randrange(256) for _ in range(rng.choice([0, 1, 300]))), ts=datetime.datetime(2020, 1, 2, 3, 4, 5, rng.randrange(10**6), tzinfo=datetime.timezone.utc), l=["a", "b"][: rng.randrange(3)]))
        else:
            out.append(D[3](r=D[0](n=i, s="inner"), k=i))
    return out


class _TrackingIO(io.BytesIO):
    def close(self):
        self.final = self.getvalue()
        super().close()


def _write_stream(records):
    """Writes with the real RecordStreamWriter; returns (bytes, list of end offsets of each record's frame)."""
    from flow.record.stream import RecordStreamWriter

    fp = io.BytesIO()
    w = RecordStreamWriter(fp)
    ends = []
    for r in records:
        w.write(r)
        ends.append(fp.tell())
    w.flush()
    data = fp.getvalue()
    w.fp = None
    return data, ends


class _ShortPeek(io.BytesIO):
    """A binary file object whose peek() behaves like io.BufferedReader / GzipFile at an unlucky buffer position: behind the start of the file it
    returns a single byte ("the number of bytes returned may be less or more than requested"), at the start as many as asked for."""

    def peek(self, n=0):
        pos = self.tell()
        return self.getvalue()[pos:pos + (max(n, 1) if pos == 0 else 1)]


def _read_all(fp):
    """(list of observations yielded, how it ended); a BytesIO is read a second time through a file object with a short peek(): same outcome required"""
    if type(fp) is io.BytesIO:
        first = _read_all_(fp)
        second = _read_all_(_ShortPeek(fp.getvalue()))
        return first if first == second else (second[0], second[1] + " (through a file object whose peek() returns one byte)")
    return _read_all_(fp)


def _read_all_(fp):
    from flow.record.stream import RecordStreamReader

    out = []
    try:
        rd = RecordStreamReader(fp)
    except Exception as e:
        return out, f"ctor:{type(e).__name__}"
    try:
        for r in rd:
            out.append(_obs(r))
    except Exception as e:
        return out, f"raise:{type(e).__name__}"
    return out, "end"


def c04_roundtrip(x=0, s="", marker=False):
    D = _descs()[0]
    if marker:
        from flow.record import RecordDescriptor

        r = RecordDescriptor("c04/marker", [])(_source=s)
    else:
        r = D(n=x, s=s)
    try:
        data, ends = _write_stream([r])
    except Exception as e:
        return {"violates": False, "note": f"write raised {type(e).__name__}"}
    out, end = _read_all(io.BytesIO(data))
    ok = out == [_obs(r)] and end == "end"
    return {"violates": not ok, "yielded": len(out), "end": end}


def c04_large_values():
    """complete frames that hold a large value (a text of 1.5 MiB, a list of 70000 entries) are read like any other"""
    from flow.record import RecordDescriptor

    D = RecordDescriptor("c04/big", [("string", "s"), ("string[]", "l"), ("varint", "n")])
    recs = [D(s="a", l=["x"], n=0), D(s="b" * (3 * 512 * 1024), l=[], n=1), D(s="c", l=["y"] * 70000, n=2), D(s="d", l=[], n=3)]
    data, ends = _write_stream(recs)
    out, end = _read_all(io.BytesIO(data))
    ok = [o for o in out] == [_obs(r) for r in recs] and end == "end"
    return {"violates": not ok, "detail": None if ok else f"4 complete frames (one with a 1.5 MiB text, one with a list of 70000 entries): {len(out)} records read, ended with {end}"}


def c04_cut(records=1, cut=0, gz=False, tail=None):
    rng = random.Random(7)
    recs = _gen_records(rng, records)
    data, ends = _write_stream(recs) if recs else (_write_stream([])[0], [])
    if tail is not None:
        c = len(data) + 0
        data = data + b"\x00\x00\x01\x00"[:tail]
        c = len(data)
    elif cut == -2:
        c = len(data) - 1
    else:
        c = cut
    out, end = _read_all(io.BytesIO(data[:c]))
    want = [_obs(r) for r, e in zip(recs, ends) if e <= c]
    bad = out != want or (c < 19 and not end.startswith("ctor:"))
    return {"violates": bad, "cut": c, "yielded": len(out), "expected": len(want), "end": end}


def c04_unknown_identifier():
    """A record frame whose identifier (name, hash) is not registered, while another descriptor of the same name is."""
    from flow.record.packer import RecordPacker
    import struct

    D = _descs()
    p = RecordPacker()
    blob_other_desc = p.pack(D[1])
    q = RecordPacker()
    blob_rec = q.pack(D[0](n=5, s="7"))
    hdr = b"\x00\x00\x00\x0f\xc4\x0dRECORDSTREAM\n"
    data = hdr + struct.pack(">I", len(blob_other_desc)) + blob_other_desc + struct.pack(">I", len(blob_rec)) + blob_rec
    out, end = _read_all(io.BytesIO(data))
    return {"violates": bool(out), "yielded": out, "end": end}


class _FailingIO(io.BytesIO):
    def __init__(self, fail_index, short=False):
        super().__init__()
        self.k, self.fail_index, self.short = 0, fail_index, short

    def write(self, b):
        k = self.k
        self.k += 1
        if k == self.fail_index:
            if self.short and len(b) > 1:
                super().write(bytes(b)[: len(b) // 2])
            raise OSError(28, "No space left on device (injected)")
        return super().write(b)


def _fail_case(recs, index, short):
    from flow.record.stream import RecordStreamWriter

    fp = _FailingIO(index, short)
    w = RecordStreamWriter(fp)
    done = 0
    err = None
    try:
        for r in recs:
            w.write(r)
            done += 1
    except OSError as e:
        err = e
    data = fp.getvalue()
    w.fp = None
    out, end = _read_all(io.BytesIO(data))
    want = [_obs(r) for r in recs[:done]]
    bad = out != want
    return bad, {"index": index, "short": short, "completed": done, "yielded": len(out), "end": end, "raised": err is not None}


def c04_fail(index=0):
    recs = _gen_records(random.Random(3), 2)
    bad, info = _fail_case(recs, index, False)
    return dict(info, violates=bad)


def c04_sweep(seed=0, streams=6):
    rng = random.Random(seed)
    cases = 1
    u = c04_unknown_identifier()
    if u["violates"]:
        return {"violates": True, "detail": f"record frame with an unregistered identifier while a same-name descriptor is registered: {u}", "witness": {"case": "unknown identifier"}, "cases": cases}
    for si in range(streams):
        recs = _gen_records(rng, rng.randrange(0, 7))
        data, ends = _write_stream(recs)
        obs = [_obs(r) for r in recs]
        # raw: every byte offset
        for c in range(len(data) + 1):
            out, end = _read_all(io.BytesIO(data[:c]))
            want = [o for o, e in zip(obs, ends) if e <= c]
            cases += 1
            if out != want or (c < 19 and not end.startswith("ctor:")):
                return {"violates": True, "detail": f"stream {si} cut at byte {c} of {len(data)}: yielded {len(out)} record(s), {len(want)} complete frame(s) on disk, ended {end}", "witness": {"seed": seed, "stream": si, "cut": c}, "cases": cases}
        # gzip: every byte offset of the compressed file (through the public RecordReader on a real file)
        if si < max(2, streams // 3):
            import tempfile
            from flow.record import RecordReader

            gzd = gzip.compress(data, mtime=0)
            with tempfile.TemporaryDirectory() as td:
                path = os.path.join(td, "s.records.gz")
                for c in range(len(gzd) + 1):
                    with open(path, "wb") as f:
                        f.write(gzd[:c])
                    out, end = [], "end"
                    try:
                        with RecordReader(path) as rd:
                            for r in rd:
                                out.append(_obs(r))
                    except Exception as e:
                        end = f"raise:{type(e).__name__}"
                    cases += 1
                    # what a standard decompressor recovers from the cut file holds so many complete frames: exactly those records are expected
                    import zlib

                    try:
                        inner = zlib.decompressobj(wbits=31).decompress(gzd[:c])
                    except zlib.error:
                        inner = b""
                    want_gz = [o for o, e in zip(obs, ends) if e <= len(inner)]
                    if out != want_gz or (c == len(gzd) and out != obs):
                        return {"violates": True, "detail": f"gzip stream {si} cut at byte {c} of {len(gzd)}: {len(out)} record(s) yielded, the recoverable part of the file holds {len(want_gz)} complete frame(s) (ended {end})", "witness": {"seed": seed, "stream": si, "gzcut": c}, "cases": cases}
        # failing / short write at every call index
        for idx in range(2 * (len(recs) + 4) + 2):
            for short in (False, True):
                bad, info = _fail_case(recs, idx, short)
                cases += 1
                if bad:
                    return {"violates": True, "detail": f"stream {si}: fp.write call {idx} {'short' if short else 'failing'}: {info}", "witness": dict(info, seed=seed, stream=si), "cases": cases}
    return {"violates": False, "cases": cases}


def c04_model_conformance(seed=0):
    """Samples the assumed contracts the deductive part uses: the msgpack specification codec against the msgpack package (encoding,
    decoding, every proper prefix refused with a ValueError that is not an EOFError), BytesIO reads, struct '>I'."""
    import struct

    import msgpack

    from spec import msgpack_spec as S

    def tree(o):
        if isinstance(o, msgpack.ExtType):
            return ("ext", o.code, o.data)
        if isinstance(o, (list, tuple)):
            return ("arr", [tree(x) for x in o])
        if isinstance(o, dict):
            return ("map", [(tree(k), tree(v)) for k, v in o.items()])
        return ("leaf", o)

    rng = random.Random(seed)

    def rnd(d=0):
        k = rng.randrange(9 if d < 3 else 6)
        if k == 0:
            return None
        if k == 1:
            return rng.choice([True, False])
        if k == 2:
            return rng.choice([0, 1, -1, 127, 128, 255, 256, 65535, 65536, 2**32 - 1, 2**32, 2**64 - 1, -32, -33, -128, -129, -32768, -32769, -(2**31), -(2**31) - 1, -(2**63), rng.randrange(-(2**63), 2**64)])
        if k == 3:
            return rng.random() * 10 ** rng.randrange(-5, 5)
        if k == 4:
            return "".join(rng.choice("aé\udc80\udcffz€😀") for _ in range(rng.choice([0, 1, 5, 31, 32, 255, 256])))
        if k == 5:
            return bytes(rng.randrange(256) for _ in range(rng.choice([0, 1, 15, 16, 255, 256])))
        if k == 6:
            return [rnd(d + 1) for _ in range(rng.choice([0, 1, 3, 15, 16, 17]))]
        if k == 7:
            return {str(i): rnd(d + 1) for i in range(rng.choice([0, 1, 15, 16]))}
        return msgpack.ExtType(rng.choice([14, 0, 127, 1]), bytes(rng.randrange(256) for _ in range(rng.choice([0, 1, 2, 3, 4, 8, 16, 17, 255, 256]))))

    cases = 0
    for _ in range(400):
        o = rnd()
        b = msgpack.packb(o, use_bin_type=True, unicode_errors="surrogateescape")
        if S.encode(tree(o)) != b:
            return {"ok": False, "detail": f"spec encoder differs from msgpack for {o!r}"[:300]}
        if S.encode(S.decode(b)) != b:
            return {"ok": False, "detail": f"spec decoder differs for {o!r}"[:300]}
        for cut in {0, 1, len(b) // 2, len(b) - 1}:
            if 0 <= cut < len(b):
                cases += 1
                try:
                    msgpack.unpackb(b[:cut], raw=False)
                    return {"ok": False, "detail": f"msgpack decoded a proper prefix of {o!r}"[:300]}
                except EOFError:
                    return {"ok": False, "detail": "msgpack raised EOFError for a truncated value"}
                except ValueError:
                    pass
                try:
                    S.decode(b[:cut])
                    return {"ok": False, "detail": "spec decoder accepted a proper prefix"}
                except S.Incomplete:
                    pass
    for n in (0, 1, 255, 256, 2**32 - 1):
        if struct.pack(">I", n) != n.to_bytes(4, "big") or struct.unpack(">I", n.to_bytes(4, "big"))[0] != n:
            return {"ok": False, "detail": "struct >I"}
    f = io.BytesIO(b"abcdef")
    if (f.read(4), f.read(4), f.read(4)) != (b"abcd", b"ef", b""):
        return {"ok": False, "detail": "BytesIO.read"}
    return {"ok": True, "cases": cases, "violates": False}



def c04_gz_flushpoint(records=1, by_path=False):
    """a gzip stream written with a flush after every record, cut at the flush point behind the last record (no end-of-stream marker)"""
    import gzip

    from flow.record import RecordDescriptor
    from flow.record.stream import RecordStreamReader, RecordStreamWriter

    D = RecordDescriptor("c04/gz", [("varint", "n"), ("string", "s")])
    raw = io.BytesIO()
    gz = gzip.GzipFile(fileobj=raw, mode="wb")
    w = RecordStreamWriter(gz)
    w.flush()  # header
    gz.flush()
    for i in range(records):
        w.write(D(n=i, s="v" * 50))
        w.flush()
        gz.flush()
    data = raw.getvalue()  # what is on disk when the process dies here: no trailer
    w.fp = None
    out, end = [], "stop"
    try:
        if by_path:
            import tempfile

            from flow.record import RecordReader

            with tempfile.TemporaryDirectory() as td:
                p_ = os.path.join(td, "cut.records.gz")
                open(p_, "wb").write(data)
                src = list(RecordReader(p_)) + [None] + list(RecordReader(fileobj=open(p_, "rb")))
                first, second = src[: src.index(None)], src[src.index(None) + 1:]
                if [r.n for r in first] != [r.n for r in second]:
                    raise ValueError(f"by path {len(first)} record(s), as file object {len(second)}")
                out = [r.n for r in first]
                src = []
        else:
            src = RecordStreamReader(gzip.GzipFile(fileobj=io.BytesIO(data), mode="rb"))
        for r in src:
            out.append(r.n)
    except Exception as e:
        end = f"raise {type(e).__name__}: {e}"
    bad = out != list(range(records)) or end != "stop"
    return {"violates": bad, "detail": f"{records} flushed record(s), file without gzip trailer: read {out}, ended {end}"}


def c04_extra_bytes(extra="05"):
    import struct

    from flow.record.packer import RecordPacker

    D = _descs()
    p = RecordPacker()
    desc = p.pack(D[0])
    body = p.pack(D[0](n=5, s="v")) + bytes.fromhex(extra)
    hdr = b"\x00\x00\x00\x0f\xc4\x0dRECORDSTREAM\n"
    data = hdr + struct.pack(">I", len(desc)) + desc + struct.pack(">I", len(body)) + body
    out, end = _read_all(io.BytesIO(data))
    return {"violates": bool(out), "yielded": repr(out)[:200], "end": end}


class _ShortOnce(io.RawIOBase):
    def __init__(self, at, keep):
        self.data, self.calls, self.at, self.keep = bytearray(), 0, at, keep

    def writable(self):
        return True

    def write(self, b):
        b = bytes(b)
        if self.calls == self.at:
            b = b[: self.keep]
        self.calls += 1
        self.data += b
        return len(b)


def c04_short_prefix(keep=1, records=1):
    from flow.record import Record
    from flow.record.stream import RecordStreamReader, RecordStreamWriter

    D = _descs()
    recs = [D[0](n=5 + i, s="v") for i in range(records)]
    fp = _ShortOnce(at=4 + 2 * (records - 1), keep=keep)  # write calls: 0,1 header  2,3 descriptor  4,5 record 0 ...
    w = RecordStreamWriter(fp)
    for r in recs:
        w.write(r)
    w.fp = None
    out, end = [], "stop"
    try:
        for o in RecordStreamReader(io.BytesIO(bytes(fp.data))):
            out.append(o.n if isinstance(o, Record) else repr(o)[:80])
    except Exception as e:
        end = f"raise {type(e).__name__}"
    want = [5 + i for i in range(records - 1)]
    return {"violates": out != want, "detail": f"{keep} of 4 length bytes of the last of {records} frame(s) written: read back {out!r}, ended {end}; completely written: {want!r}"}


def c04_equal_frames_cut(cut_back=1):
    D = _descs()
    r = D[0](n=5, s="same")
    data, ends = _write_stream([r, D[0](n=5, s="same", _generated=r._generated)])
    out, end = _read_all(io.BytesIO(data[: len(data) - cut_back]))
    return {"violates": len(out) != 1, "detail": f"two equal record frames, the file ends {cut_back} byte(s) early: yielded {len(out)} record(s), ended {end}"}


def c04_short_mid(call=7, keep=47):
    import datetime

    from flow.record import Record, RecordDescriptor
    from flow.record.stream import RecordStreamReader, RecordStreamWriter

    GEN = datetime.datetime(2024, 5, 6, 7, 8, 9, 123456, tzinfo=datetime.timezone.utc)
    SIZES = [10, 300, 250, 700, 40]
    D = RecordDescriptor("c04/blob", [("string", "s"), ("varint", "n"), ("bytes", "blob")])
    recs = [D(n=10 + i, s="r%d" % i, blob=b"A" * size, _generated=GEN) for i, size in enumerate(SIZES)]
    fp = _ShortOnce(at=call, keep=keep)
    w = RecordStreamWriter(fp)
    accepted = True
    try:
        for r in recs:
            w.write(r)
    except Exception:
        accepted = False
    w.fp = None
    out, end = [], "stop"
    try:
        for o in RecordStreamReader(io.BytesIO(bytes(fp.data))):
            out.append((o.n, o.s, len(o.blob or b""), repr(o._generated)) if isinstance(o, Record) else repr(o)[:60])
    except Exception as e:
        end = f"raise {type(e).__name__}"
    want = [(10 + i, "r%d" % i, size, repr(GEN)) for i, size in enumerate(SIZES)]
    damaged = (call - 4) // 2
    bad, k = out[:damaged] != want[:damaged], damaged
    for o in out[damaged:]:
        while k < len(want) and want[k] != o:
            k += 1
        if k == len(want):
            bad = True
            break
        k += 1
    return {"violates": bad, "detail": f"write call {call} stored {keep} byte(s) (short write), writer {'returned normally' if accepted else 'raised'}: read back {[o if isinstance(o, str) else o[0] for o in out]!r}, ended {end}; written {[w_[0] for w_ in want]!r}"}


def c04_complete_then_damage(k=1):
    import struct

    from flow.record.packer import RecordPacker
    from flow.record.stream import RecordStreamReader

    D = _descs()
    p = RecordPacker()
    frames = [p.pack(D[0])] + [p.pack(D[0](n=i, s="v")) for i in range(k)] + [p.pack(D[0](n=5, s="v")) + b"\x05"]
    hdr = b"\x00\x00\x00\x0f\xc4\x0dRECORDSTREAM\n"
    data = hdr + b"".join(struct.pack(">I", len(f)) + f for f in frames)
    out, end = [], "stop"
    try:
        for r in RecordStreamReader(io.BytesIO(data)):
            out.append(r.n)
    except Exception as e:
        end = f"raise {type(e).__name__}"
    return {"violates": out != list(range(k)) or end == "stop", "detail": f"{k} complete record frame(s) then a damaged one: yielded {out}, ended {end}"}


def c04_embedded_stream(cut_back=1):
    from flow.record import RecordDescriptor

    B = RecordDescriptor("c04/blobrec", [("bytes", "data"), ("varint", "n")])
    I = RecordDescriptor("c04/inner", [("varint", "k")])
    inner, _ = _write_stream([I(k=99)])
    data, _ = _write_stream([B(data=b"x", n=1), B(data=inner, n=2)])
    out, end = [], "stop"
    from flow.record.stream import RecordStreamReader

    try:
        for r in RecordStreamReader(io.BytesIO(data[: len(data) - cut_back])):
            out.append((r._desc.name, getattr(r, "n", getattr(r, "k", None))))
    except Exception as e:
        end = f"raise {type(e).__name__}"
    return {"violates": out != [("c04/blobrec", 1)], "detail": f"outer stream cut {cut_back} byte(s) inside the frame that holds an embedded stream: yielded {out}, ended {end}"}

CALLS = {"c04_embedded_stream": c04_embedded_stream, "c04_complete_then_damage": c04_complete_then_damage, "c04_short_mid": c04_short_mid, "c04_equal_frames_cut": c04_equal_frames_cut, "c04_extra_bytes": c04_extra_bytes, "c04_short_prefix": c04_short_prefix, "c04_gz_flushpoint": c04_gz_flushpoint, "c04_large_values": c04_large_values, "c04_roundtrip": c04_roundtrip, "c04_cut": c04_cut, "c04_unknown_identifier": c04_unknown_identifier, "c04_fail": c04_fail, "c04_sweep": c04_sweep, "c04_model_conformance": c04_model_conformance}

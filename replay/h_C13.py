"""Native harness functions for C13 (run on the real code by /venv/bin/python)."""
import datetime
import io
import os
import random
import tempfile
import zoneinfo

UTC = datetime.timezone.utc
TD = datetime.timedelta
TZS = {"naive": None, "UTC": UTC, "+02:00": datetime.timezone(TD(hours=2)), "-09:30": datetime.timezone(TD(hours=-9, minutes=-30)), "+05:30:15": datetime.timezone(TD(hours=5, minutes=30, seconds=15)),
       "-00:00:01": datetime.timezone(TD(seconds=-1)), "+14:00": datetime.timezone(TD(hours=14))}
AMS, NYC = zoneinfo.ZoneInfo("Europe/Amsterdam"), zoneinfo.ZoneInfo("America/New_York")
CONCRETE = {"fold=0 Amsterdam": datetime.datetime(2021, 10, 31, 2, 30, tzinfo=AMS, fold=0), "fold=1 Amsterdam": datetime.datetime(2021, 10, 31, 2, 30, tzinfo=AMS, fold=1), "gap New York": datetime.datetime(2021, 3, 14, 2, 30, tzinfo=NYC),
            "gap fold=1 New York": datetime.datetime(2021, 3, 14, 2, 30, tzinfo=NYC, fold=1), "1969": datetime.datetime(1969, 12, 31, 23, 59, 59, 999999, tzinfo=UTC), "year 1": datetime.datetime(1, 1, 1, tzinfo=UTC),
            "year 9999": datetime.datetime(9999, 12, 31, 23, 59, 59, 999999, tzinfo=UTC), "year 1 +05:00": datetime.datetime(1, 1, 1, 3, tzinfo=datetime.timezone(TD(hours=5))), "year 9999 -05:00": datetime.datetime(9999, 12, 31, 22, tzinfo=datetime.timezone(TD(hours=-5))),
            "naive": datetime.datetime(2020, 2, 29, 12, 0, 0, 1), "summer Amsterdam": datetime.datetime(2021, 7, 1, 12, 0, tzinfo=AMS),
            "offset +05:30:15": datetime.datetime(2020, 1, 2, 12, 30, 15, 123456, tzinfo=datetime.timezone(TD(hours=5, minutes=30, seconds=15))), "offset -00:00:31": datetime.datetime(1969, 12, 31, 23, 59, 59, 5, tzinfo=datetime.timezone(-TD(seconds=31))),
            "Amsterdam local mean time 1900 (+00:19:32)": datetime.datetime(1900, 1, 1, 0, 0, 0, tzinfo=AMS), "offset with microseconds": datetime.datetime(2001, 2, 3, 4, 5, 6, 7, tzinfo=datetime.timezone(TD(hours=1, microseconds=500)))}


def wall(d):
    return (d.year, d.month, d.day, d.hour, d.minute, d.second, d.microsecond), (d.utcoffset().total_seconds() if d.utcoffset() is not None else None)


def naive(d):
    """plain naive datetime of the wall clock (the field type's replace()/arithmetic re-apply 'naive means UTC')"""
    return datetime.datetime(d.year, d.month, d.day, d.hour, d.minute, d.second, d.microsecond)


def _via(fmt, value):
    """write a record holding `value` (any accepted input form) in the given format, read it back: (field value as constructed, values read back)"""
    from flow.record import RecordDescriptor, RecordReader, RecordWriter

    D = RecordDescriptor("c13/t", [("datetime", "ts")])
    r = D(ts=value)
    if fmt in ("none", "copy"):
        from flow.record.fieldtypes import datetime as FDT

        return r.ts, [FDT(r.ts)] if fmt == "copy" else [r.ts]
    scheme, name = {"stream": ("", "t.records"), "json": ("jsonfile://", "t.json"), "sqlite": ("sqlite://", "t.sqlite"), "avro": ("avro://", "t.avro")}[fmt]
    with tempfile.TemporaryDirectory() as td:
        path = scheme + os.path.join(td, name)
        w = RecordWriter(path)
        w.write(r)
        w.flush()
        w.close()
        try:
            with RecordReader(path) as rd:
                back = [x.ts for x in rd]
        except Exception as e:
            back = [f"reading back raised {type(e).__name__}: {e}"]
    return r.ts, back


def _judge(fmt, orig, back, need_fold=False):
    if orig.tzinfo is None:
        return "the field value is naive"
    if len(back) != 1:
        return f"{len(back)} records read back"
    b = back[0]
    if not isinstance(b, datetime.datetime) or b.tzinfo is None:
        return f"read back {b!r} (not an aware timestamp)"
    if fmt == "avro":
        try:
            same = b.utcoffset() == TD(0) and naive(b) == naive(orig) - orig.utcoffset()
        except OverflowError:
            return None
        return None if same else f"Avro: instant {orig.isoformat()} read back as {b.isoformat()}"
    if wall(b) != wall(orig) or (need_fold and b.fold != orig.fold):
        return f"{orig.isoformat()} (fold {orig.fold}) read back as {b.isoformat()} (fold {b.fold})"
    return None


def c13_roundtrip(Y=2000, M=1, D=1, h=0, m=0, s=0, us=0, tz="UTC", fmt="stream"):
    try:
        d = datetime.datetime(Y, M, D, h, m, s, us, tzinfo=TZS[tz])
    except (ValueError, TypeError):
        return {"violates": False, "note": "not a date"}
    orig, back = _via(fmt, d)
    want = d if d.tzinfo is not None else d.replace(tzinfo=UTC)
    bad = None if wall(orig) == wall(want) else f"field value {orig.isoformat()} for input {d.isoformat()}"
    bad = bad or _judge(fmt, orig, back, need_fold=(fmt == "copy"))
    return {"violates": bool(bad), "detail": bad}


def c13_concrete(which, fmt="stream"):
    d = CONCRETE[which]
    try:
        orig, back = _via(fmt, d)
    except OverflowError as e:
        return {"violates": fmt != "avro", "detail": f"OverflowError: {e}"}
    want = d if d.tzinfo is not None else d.replace(tzinfo=UTC)
    bad = None if (wall(orig) == wall(want) and orig.fold == want.fold) else f"field value {orig!r} for input {d!r}"
    bad = bad or _judge(fmt, orig, back, need_fold=(fmt == "copy"))
    return {"violates": bool(bad), "detail": bad}


def c13_history(fmt="stream"):
    """one process writes the same instant under different offsets / zones / folds, in both orders: each value must come back as it was written"""
    same = [datetime.datetime(2021, 7, 1, 12, 30, 15, 5, tzinfo=UTC), datetime.datetime(2021, 7, 1, 14, 30, 15, 5, tzinfo=datetime.timezone(TD(hours=2))), datetime.datetime(2021, 7, 1, 14, 30, 15, 5, tzinfo=AMS),
            datetime.datetime(2021, 7, 1, 3, 0, 15, 5, tzinfo=datetime.timezone(TD(hours=-9, minutes=-30)))]
    folds = [datetime.datetime(2021, 10, 31, 2, 30, tzinfo=AMS, fold=0), datetime.datetime(2021, 10, 31, 2, 30, tzinfo=AMS, fold=1), datetime.datetime(2021, 10, 31, 0, 30, tzinfo=UTC), datetime.datetime(2021, 10, 31, 1, 30, tzinfo=UTC)]
    for seq in (same, same[::-1], folds, folds[::-1]):
        for d in seq + seq[:2]:
            orig, back = _via(fmt, d)
            bad = _judge(fmt, orig, back)
            if bad:
                return {"violates": True, "detail": f"within one process, after writing {[x.isoformat() for x in seq]}: {bad}"}
    return {"violates": False}


def c13_text(text):
    from flow.record.fieldtypes import datetime as FDT

    a, b = FDT(text), FDT(text.encode())
    ref = datetime.datetime.fromisoformat(text[:26] + text[29:] if "123456789" in text else text)
    if ref.tzinfo is None:
        ref = ref.replace(tzinfo=UTC)
    ok = wall(a) == wall(b) == wall(ref)
    return {"violates": not ok, "parsed": a.isoformat()}


def c13_epoch(ep, systz=None):
    import time

    from flow.record.fieldtypes import datetime as FDT

    saved = os.environ.get("TZ")
    if systz:
        os.environ["TZ"] = systz
        time.tzset()
    try:
        a = FDT(ep)
    finally:
        if systz:
            if saved is None:
                os.environ.pop("TZ", None)
            else:
                os.environ["TZ"] = saved
            time.tzset()
    ref = datetime.datetime.fromtimestamp(ep, UTC)
    bad = wall(a) != wall(ref)
    return {"violates": bad, "parsed": a.isoformat(), "detail": f"epoch {ep} with the system time zone {systz} became {a.isoformat()}, the instant is {ref.isoformat()}" if bad else None}


def _stored_bytes(fmt, d):
    from flow.record import RecordDescriptor, RecordWriter

    D = RecordDescriptor("c13/t", [("datetime", "ts")])
    r = D(ts=d, _generated=datetime.datetime(2020, 1, 1, tzinfo=UTC))
    scheme, name = {"stream": ("", "t.records"), "json": ("jsonfile://", "t.json"), "sqlite": ("sqlite://", "t.sqlite"), "avro": ("avro://", "t.avro")}[fmt]
    with tempfile.TemporaryDirectory() as td:
        p = os.path.join(td, name)
        w = RecordWriter(scheme + p)
        w.write(r)
        w.flush()
        w.close()
        if fmt == "sqlite":
            import sqlite3

            return repr(sqlite3.connect(p).execute('SELECT ts FROM "c13/t"').fetchall())
        data = open(p, "rb").read()
        if fmt == "avro":
            import fastavro

            return repr(list(fastavro.reader(io.BytesIO(data))))
        return data


def c13_display(fmt=None):
    import flow.record.fieldtypes as F

    fmts = [fmt] if fmt else ["stream", "json", "sqlite", "avro"]
    saved = F.DISPLAY_TZINFO
    try:
        for f in fmts:
            for d in (CONCRETE["summer Amsterdam"], CONCRETE["1969"], datetime.datetime(2020, 1, 1, 12, tzinfo=datetime.timezone(TD(hours=3)))):
                outs = []
                for disp in (None, AMS, datetime.timezone(TD(hours=-7)), UTC):
                    F.DISPLAY_TZINFO = disp
                    outs.append(_stored_bytes(f, d))
                if len(set(outs)) != 1:
                    return {"violates": True, "detail": f"{f}: what is written for {d.isoformat()} depends on the display time zone"}
    finally:
        F.DISPLAY_TZINFO = saved
    return {"violates": False}


def c13_sweep(seed=0, n=150):
    import flow.record.fieldtypes as F

    rng = random.Random(seed)
    zones = [None, UTC, AMS, NYC, zoneinfo.ZoneInfo("Australia/Lord_Howe"), zoneinfo.ZoneInfo("Asia/Kolkata")] + [datetime.timezone(TD(seconds=rng.randrange(-86399, 86400))) for _ in range(6)] + [datetime.timezone(TD(hours=h)) for h in (-12, 5, 14)]
    cases = 0
    saved = F.DISPLAY_TZINFO
    try:
        for i in range(n):
            k = rng.random()
            if k < 0.25:
                base = rng.choice([datetime.datetime(1, 1, 2), datetime.datetime(9999, 12, 30, 23, 59, 59, 999999), datetime.datetime(1969, 12, 31, 23, 59, 59, 999999), datetime.datetime(1970, 1, 1), datetime.datetime(2021, 10, 31, 2, 30),
                                   datetime.datetime(2021, 3, 14, 2, 30), datetime.datetime(2021, 3, 28, 2, 30), datetime.datetime(2038, 1, 19, 3, 14, 8)])
            else:
                base = datetime.datetime(rng.randrange(2, 9999), rng.randrange(1, 13), rng.randrange(1, 29), rng.randrange(24), rng.randrange(60), rng.randrange(60), rng.choice([0, 1, 999999, rng.randrange(10**6)]))
            tz = rng.choice(zones)
            d = base.replace(tzinfo=tz, fold=rng.choice([0, 0, 1]))
            try:
                d.utcoffset()
                if tz is not None:
                    (naive(d) - d.utcoffset())
            except OverflowError:
                continue
            form = rng.choice(["object", "object", "iso", "epoch"])
            if form == "iso":
                if tz is not None and (d.utcoffset().microseconds or (abs(d.utcoffset()) < TD(seconds=1) and d.utcoffset() != TD(0))):
                    form = "object"
            fmt = rng.choice(["stream", "json", "sqlite", "avro", "copy"])
            F.DISPLAY_TZINFO = rng.choice([None, UTC, AMS, datetime.timezone(TD(hours=-7))])
            want = d if d.tzinfo is not None else d.replace(tzinfo=UTC)
            if form == "iso":
                value = d.isoformat()
                want = datetime.datetime.fromisoformat(value)
                want = want if want.tzinfo is not None else want.replace(tzinfo=UTC)
            elif form == "epoch":
                if not (datetime.datetime(1, 1, 3, tzinfo=UTC) < want < datetime.datetime(9999, 12, 29, tzinfo=UTC)):
                    continue
                value = int((want - datetime.datetime(1970, 1, 1, tzinfo=UTC)).total_seconds())
                want = datetime.datetime(1970, 1, 1, tzinfo=UTC) + TD(seconds=value)
            else:
                value = d
            cases += 1
            try:
                orig, back = _via(fmt, value)
            except OverflowError:
                if fmt == "avro":
                    continue
                return {"violates": True, "detail": f"case {i}: {fmt} raised OverflowError for {d!r}", "witness": {"seed": seed, "case": i}, "cases": cases}
            bad = None if (wall(orig) == wall(want) and (form != "object" or orig.fold == want.fold)) else f"field value {orig!r} for input {value!r}"
            bad = bad or _judge(fmt, orig, back, need_fold=(fmt == "copy"))
            if bad:
                return {"violates": True, "detail": f"case {i} ({fmt}, input as {form}, display {F.DISPLAY_TZINFO}): {bad}", "witness": {"seed": seed, "case": i, "value": repr(value), "fmt": fmt}, "cases": cases}
    finally:
        F.DISPLAY_TZINFO = saved
    for f_ in ("stream", "json", "sqlite", "avro"):
        h = c13_history(f_)
        if h["violates"]:
            return {"violates": True, "detail": h["detail"], "witness": {"history": f_}, "cases": cases}
    res = c13_display()
    if res["violates"]:
        return {"violates": True, "detail": res["detail"], "witness": {"display": True}, "cases": cases}
    return {"violates": False, "cases": cases}


def c13_model_conformance(seed=0):
    """datetime contract samples: fromisoformat(isoformat(d)) keeps wall clock and offset (whole-second offsets), timetuple/replace field wise, constructor ranges."""
    rng = random.Random(seed)
    cases = 0
    for _ in range(300):
        off = rng.choice([0, 3600, -34200, 19815, -1, 50400, rng.randrange(-86399, 86400)])
        d = datetime.datetime(rng.choice([1, 9999, rng.randrange(1, 10000)]), rng.randrange(1, 13), rng.randrange(1, 29), rng.randrange(24), rng.randrange(60), rng.randrange(60), rng.choice([0, 999999, rng.randrange(10**6)]), tzinfo=datetime.timezone(TD(seconds=off)))
        for sep in ("T", " "):
            e = datetime.datetime.fromisoformat(d.isoformat(sep))
            cases += 1
            if wall(e) != wall(d):
                return {"ok": False, "detail": f"fromisoformat(isoformat({d!r})) = {e!r}"}
        if d.timetuple()[:6] != (d.year, d.month, d.day, d.hour, d.minute, d.second) or d.replace(tzinfo=UTC).tzinfo is not UTC or wall(d.replace(tzinfo=UTC))[0] != wall(d)[0]:
            return {"ok": False, "detail": "timetuple/replace"}
    for bad in ((0, 1, 1), (10000, 1, 1), (2021, 2, 29), (2020, 2, 30), (2021, 13, 1), (2021, 4, 31)):
        try:
            datetime.datetime(*bad)
            return {"ok": False, "detail": f"datetime{bad} accepted"}
        except ValueError:
            pass
    datetime.datetime(2020, 2, 29), datetime.datetime(2000, 2, 29), datetime.datetime(9999, 12, 31, 23, 59, 59, 999999)
    try:
        datetime.datetime(1900, 2, 29)
        return {"ok": False, "detail": "1900-02-29 accepted"}
    except ValueError:
        pass
    return {"ok": True, "cases": cases, "violates": False}


CALLS = {"c13_history": c13_history, "c13_roundtrip": c13_roundtrip, "c13_concrete": c13_concrete, "c13_text": c13_text, "c13_epoch": c13_epoch, "c13_display": c13_display, "c13_sweep": c13_sweep, "c13_model_conformance": c13_model_conformance}

"""Sample inputs per field type for C05 (shared by contracts/C05.py and replay/h_C05.py): valid inputs (incl. inputs that must be converted)
and inputs the type cannot represent.  Values are written as Python source text so that both sides build them with their own objects."""
import datetime as _dt

VALID = {
    "varint": ["0", "-1", "2**70", "True"],
    "filesize": ["0", "2**60", "5"],
    "unix_file_mode": ["0o644", "0"],
    "uint16": ["0", "65535", "80"],
    "uint32": ["0", "4294967295", "80"],
    "net.tcp.Port": ["0", "65535"],
    "net.udp.Port": ["53"],
    "boolean": ["0", "1", "True", "False"],
    "float": ["1.5", "0.0", "float('nan')", "1"],
    "string": ["'abc'", "''", "b'abc'", "b'\\xff\\xfe'", "'\\udcff'", "'\\x00'"],
    "wstring": ["'w'", "b'w'"],
    "bytes": ["b'ab'", "b''"],
    "datetime": ["'2020-01-02T03:04:05'", "'2020-01-02T03:04:05.000006+02:00'", "0", "1e9", "DT(2020, 1, 2, 3, 4, 5)", "DT(2020, 1, 2, 3, 4, 5, tzinfo=TZ(TD(hours=5, minutes=30)))", "b'2020-01-02T03:04:05'"],
    "digest": ["('d41d8cd98f00b204e9800998ecf8427e', None, None)", "(None, 'da39a3ee5e6b4b0d3255bfef95601890afd80709', None)", "{'sha256': 'e3b0c44298fc1c149afbf4c8996fb92427ae41e4649b934ca495991b7852b855'}", "(None, None, None)"],
    "path": ["'/a/b'", "'c:\\\\x\\\\y'", "''", "PurePosixPath('/q')", "PureWindowsPath('c:/q')"],
    "command": ["'ls -l /tmp'", "'c:\\\\windows\\\\cmd.exe /c dir'", "'\"/bin/my prog\" a b'"],
    "uri": ["'http://h/p?q#f'", "''"],
    "net.ipaddress": ["'1.2.3.4'", "'::1'", "16909060", "b'\\x01\\x02\\x03\\x04'"],
    "net.ipnetwork": ["'10.0.0.0/8'", "'::/0'", "'1.2.3.4'"],
    "net.ipv4.Address": ["'1.2.3.4'", "16909060"],
    "net.ipv4.Subnet": ["'10.0.0.0/8'"],
    "stringlist": ["['a', 'b']", "[]"],
    "dictlist": ["[{'a': 1}]", "[]"],
    "dynamic": ["'x'", "5", "b'y'", "True", "['a']", "DT(2020, 1, 2)", "PurePosixPath('/d')"],
    "record": ["None"],
}
INVALID = {
    "uint16": ["-1", "65536", "2**70"],
    "uint32": ["-1", "4294967296"],
    "net.tcp.Port": ["-1", "65536"],
    "net.udp.Port": ["70000"],
    "boolean": ["2", "-1", "255"],
    "bytes": ["'text'", "5", "['a']", "bytearray(b'x')"],
    "datetime": ["'not a date'", "'2020-13-01T00:00:00'", "['x']"],
    "digest": ["('d41d8cd98f00b204e9800998ecf8427e\\n', None, None)", "('d41d8cd9 8f00b204 e9800998 ecf8427e', None, None)", "(None, ' da39a3ee5e6b4b0d3255bfef95601890afd80709', None)", "(b'd41d8cd98f00b204e9800998ecf8427e\\t', None, None)", "('00', None, None)", "('zz' * 16, None, None)", "(None, 'abcd', None)", "(None, None, 'e3b0')", "('d41d8cd98f00b204e9800998ecf8427e',)", "'d41d8cd98f00b204e9800998ecf8427e'", "12345", "b'\\x00' * 16"],
    "net.ipaddress": ["'1.2.3.256'", "'nonsense'", "-1", "2**128", "'010.8.8.8'", "'127.0.0.01'", "'1.2.3'", "'1.2.3.4.5'", "' 1.2.3.4'", "'1.2.3.4/32'", "'::g'", "'1:2:3:4:5:6:7:8:9'", "''"],
    "net.ipnetwork": ["'10.0.0.1/8'", "'nonsense'", "'010.0.0.0/8'", "'172.016.0.0/12'", "'10.0.0.0/33'", "'10.0.0.0/8/8'", "'::/129'"],
    "net.ipv4.Subnet": ["'10.0.0.1/8'", "5"],
    "command": ["5", "b'ls'"],
    "float": ["'abc'"],
    "varint": ["'abc'", "None.__class__"],
    "dynamic": ["object()", "{'a': 1}"],
}
NS = {"DT": _dt.datetime, "TZ": _dt.timezone, "TD": _dt.timedelta}
SCALARS = ["varint", "filesize", "unix_file_mode", "uint16", "uint32", "net.tcp.Port", "net.udp.Port", "boolean", "float", "string", "wstring", "bytes", "datetime", "digest", "path", "command", "uri", "net.ipaddress", "net.ipnetwork",
           "net.ipv4.Address", "net.ipv4.Subnet", "stringlist", "dictlist", "dynamic"]
LISTABLE = ["varint", "filesize", "unix_file_mode", "uint16", "uint32", "boolean", "float", "string", "wstring", "bytes", "datetime", "digest", "path", "command", "uri", "net.ipaddress", "net.ipnetwork", "net.tcp.Port"]

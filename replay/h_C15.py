"""Native harness functions for C15 (run on the real code by /venv/bin/python): a dictionary-based reference model of composition."""
import datetime
import random

UTC = datetime.timezone.utc
INT_TYPES = ["varint", "filesize", "uint32", "unix_file_mode", "uint16", "net.tcp.Port", "net.udp.Port"]


def ref_merge(fields_list, replace):
    fm = {}
    for fields in fields_list:
        for t, n in fields:
            if n in fm and not replace:
                continue
            fm[n] = t
    return [(t, n) for n, t in fm.items()]


def ref_values(fields_list, value_list, replace):
    out = {}
    order = list(range(len(fields_list)))
    for i in order:
        for (t, n) in fields_list[i]:
            if n in out and not replace:
                continue
            out[n] = value_list[i][n]
    return out


def _obs(r):
    return (r._desc.name, tuple(tuple(f) for f in r._desc.get_field_tuples()), tuple((k, type(v).__name__, repr(v)) for k, v in r._asdict().items()))


def _check_extend(fields_list, values, replace, rename, repeat=None):
    """fields_list: per record [(type, name)]; values: per record {name: value}; repeat: descriptor index per record (records may share a descriptor object)"""
    from flow.record import RecordDescriptor
    from flow.record.base import extend_record, merge_record_descriptors

    descs = {}
    recs = []
    for i, f in enumerate(fields_list):
        key = repeat[i] if repeat else i
        if key not in descs:
            descs[key] = RecordDescriptor(f"c15/d{key}", [tuple(x) for x in f])
        recs.append(descs[key](**values[i]))
    before = [_obs(r) for r in recs]
    kw = {"replace": replace}
    if rename:
        kw["name"] = "c15/renamed"
    out = extend_record(recs[0], recs[1:], **kw)
    want_fields = ref_merge([[tuple(x) for x in f] for f in fields_list], replace)
    got_fields = [tuple(f) for f in out._desc.get_field_tuples()]
    merged = [tuple(f) for f in merge_record_descriptors(tuple(r._desc for r in recs), **kw).get_field_tuples()]
    if got_fields != want_fields or merged != want_fields:
        return f"fields {got_fields} / merged {merged}, the rule gives {want_fields}"
    if out._desc.name != ("c15/renamed" if rename else recs[0]._desc.name):
        return f"name {out._desc.name!r}"
    want_vals = ref_values([[tuple(x) for x in f] for f in fields_list], [{n: getattr(r, n) for _, n in r._desc.get_field_tuples()} for r in recs], replace)
    for t, n in want_fields:
        g = getattr(out, n)
        if g != want_vals[n] or (g is not None and type(g).__name__ != type(want_vals[n]).__name__):
            return f"field {n}: {g!r} ({type(g).__name__}), the rule gives {want_vals[n]!r} ({type(want_vals[n]).__name__})"
    if [_obs(r) for r in recs] != before:
        return "an original record was modified"
    return None


def c15_extend(fields=None, replace=False, rename=False):
    fields = fields or [[["varint", "a"]], [["filesize", "a"]]]
    values = [{n: 100 * i + j for j, (_, n) in enumerate(f)} for i, f in enumerate(fields)]
    repeat = None
    keys = [tuple(map(tuple, f)) for f in fields]
    if len(set(keys)) < len(keys):
        repeat = [keys.index(k) for k in keys]
    bad = _check_extend(fields, values, replace, rename, repeat)
    return {"violates": bool(bad), "detail": bad}


def _check_timestamps(fields, values):
    from flow.record import RecordDescriptor
    from flow.record.base import iter_timestamped_records

    D = RecordDescriptor("c15/ts", [tuple(f) for f in fields])
    rec = D(**values)
    before = _obs(rec)
    out = list(iter_timestamped_records(rec))
    dts = [n for t, n in fields if t == "datetime"]
    if _obs(rec) != before:
        return "the original record was modified"
    if not dts:
        return None if (len(out) == 1 and (out[0] is rec or _obs(out[0]) == before)) else "a record without timestamp fields comes out changed (or not exactly once)"
    if len(out) != len(dts):
        return f"{len(dts)} timestamp fields, {len(out)} records"
    for n, o in zip(dts, out):
        if o.ts != getattr(rec, n) or o.ts_description != n:
            return f"expansion for {n!r}: ts={o.ts!r} ts_description={o.ts_description!r}, the original holds {getattr(rec, n)!r}"
        if o._desc.name != rec._desc.name:
            return f"name {o._desc.name}"
        for t, m in fields:
            if m in ("ts", "ts_description"):
                continue
            if not hasattr(o, m) or getattr(o, m) != getattr(rec, m):
                return f"original field {m} not kept"
    return None


def c15_ts_unset(which=()):
    from flow.record import RecordDescriptor
    from flow.record.base import iter_timestamped_records

    vals = {"a": datetime.datetime(2001, 1, 1, tzinfo=UTC), "b": datetime.datetime(2002, 2, 2, tzinfo=UTC)}
    setv = {k: vals[k] for k in which}
    rec = RecordDescriptor("c15/ts", [("datetime", "a"), ("string", "s"), ("datetime", "b")])(s="kept", **setv)
    got = [(o.ts, o.ts_description, o.s, o.a, o.b) for o in iter_timestamped_records(rec)]
    want = [(setv.get("a"), "a", "kept", setv.get("a"), setv.get("b")), (setv.get("b"), "b", "kept", setv.get("a"), setv.get("b"))]
    return {"violates": got != want, "detail": None if got == want else f"expansion of a record with unset timestamp fields: {got}, expected one record per timestamp field"}


def c15_ts_collision(ftype="string", fname="ts"):
    from flow.record import RecordDescriptor
    from flow.record.base import iter_timestamped_records

    D = RecordDescriptor("c15/ts", [(ftype, fname), ("datetime", "created")])
    own = datetime.datetime(2001, 1, 1, tzinfo=UTC) if ftype == "datetime" else "own text"
    created = datetime.datetime(2002, 2, 2, tzinfo=UTC)
    rec = D(**{fname: own, "created": created})
    out = list(iter_timestamped_records(rec))
    exp = [o for o in out if o.ts_description == "created" or o.ts == created]
    got = [getattr(o, fname) for o in exp]
    ok = bool(got) and all(v == own for v in got)
    return {"violates": not ok, "detail": None if ok else f"the expansion for 'created' holds {fname}={got!r}, the original record holds {own!r}"}


def c15_grouped_view():
    from flow.record import GroupedRecord, RecordDescriptor, extend_record

    a = RecordDescriptor("c15/ma", [("string", "x"), ("varint", "n")])(x="old", n=1)
    g = GroupedRecord("c15/grp", [a, RecordDescriptor("c15/mb", [("string", "y")])(y="why")])
    first = g.x
    a.x = "new"
    second, asd, ext = g.x, g._asdict()["x"], extend_record(g, []).x
    g.x = "through the view"
    got = (first, second, asd, ext, a.x, g.x)
    ok = got == ("old", "new", "new", "new", "through the view", "through the view")
    return {"violates": not ok, "detail": None if ok else f"g.x before / after the member was assigned / in _asdict() / in extend_record(g) / member after g.x = ... / g.x: {got}"}


def c15_colliding():
    from flow.record import RecordDescriptor, extend_record
    from flow.record.stream import RecordFieldRewriter

    A = RecordDescriptor("c15/col", [("wstring", "x")])
    B = RecordDescriptor("c15/col", [("string", "xw")])
    z = RecordDescriptor("c15/z", [("varint", "z")])(z=1)
    e1, e2 = extend_record(A(x="1"), [z]), extend_record(B(xw="2"), [z])
    rw = RecordFieldRewriter(fields=["x", "xw"])
    p1, p2 = rw.rewrite(A(x="1")), rw.rewrite(B(xw="2"))
    f = lambda r: [tuple(t) for t in r._desc.get_field_tuples()]
    got = (f(e1), f(e2), getattr(e2, "xw", None), f(p1), f(p2))
    ok = got == ([("wstring", "x"), ("varint", "z")], [("string", "xw"), ("varint", "z")], "2", [("wstring", "x")], [("string", "xw")])
    return {"violates": not ok, "detail": None if ok else f"extended / projected descriptors {got}"}


def c15_desc_extend():
    from flow.record import RecordDescriptor

    A = RecordDescriptor("c15/de", [("string", "a"), ("varint", "b")])
    f = lambda d: [tuple(t) for t in d.get_field_tuples()]
    before = (f(A), A.name)
    E1, E0 = A.extend([("uint16", "c"), ("string[]", "d")]), A.extend([])
    r = E1(a="x", b=2, c=3, d=["y"])
    got = (f(E1), E1.name, f(E0), E0.name, (f(A), A.name) == before, f(A), [r.a, r.b, r.c, list(r.d)])
    ok = got == ([("string", "a"), ("varint", "b"), ("uint16", "c"), ("string[]", "d")], "c15/de", [("string", "a"), ("varint", "b")], "c15/de", True, [("string", "a"), ("varint", "b")], ["x", 2, 3, ["y"]])
    return {"violates": not ok, "detail": None if ok else f"extended type / name / extended by nothing / name / original unchanged / original / a record of it: {got}"}


def c15_grouped_replace(named=None):
    from flow.record import GroupedRecord, RecordDescriptor

    named = dict(named or {})
    A = RecordDescriptor("c15/ma", [("string", "x"), ("varint", "n")])
    B = RecordDescriptor("c15/mb", [("string", "x"), ("string", "y")])
    a, b = A(x="ax", n=7, _source="sa"), B(x="bx", y="by", _source="sb")
    g = GroupedRecord("c15/grp", [a, b])
    before = (_obs(a), _obs(b))
    g2 = g._replace(**named)
    if (_obs(a), _obs(b)) != before:
        return {"violates": True, "detail": "the members of the original group were modified"}
    want = [{"x": "ax", "n": 7, "_source": "sa"}, {"x": "bx", "y": "by", "_source": "sb"}]
    for k, v in named.items():
        next(m for m in want if k in m)[k] = v
    got = [{k: getattr(m, k) for k in w} for m, w in zip(g2.records, want)]
    ok = got == want
    return {"violates": not ok, "detail": None if ok else f"_replace({named}): the members hold {got}, expected {want}"}


def c15_grouped_collision(fname="name"):
    from flow.record import GroupedRecord, RecordDescriptor

    A = RecordDescriptor("c15/ma", [("string", fname), ("string", "x")])
    g = GroupedRecord("c15/grp", [A(**{fname: "member value", "x": "ax"})])
    got = (getattr(g, fname), g._asdict().get(fname))
    ok = got == ("member value", "member value")
    return {"violates": not ok, "detail": None if ok else f"the group answers {fname}={got[0]!r} / _asdict()[{fname!r}]={got[1]!r}, the member holds 'member value'"}


def c15_timestamps(fields=None):
    fields = fields or [["datetime", "a"], ["datetime", "ts"]]
    values = {}
    for i, (t, n) in enumerate(fields):
        values[n] = datetime.datetime(2001 + i, 1, 1, tzinfo=UTC) if t == "datetime" else i if t == "varint" else f"text{i}"
    bad = _check_timestamps(fields, values)
    return {"violates": bool(bad), "detail": bad}


def _check_grouped(members, values):
    from flow.record import GroupedRecord, RecordDescriptor

    recs = [RecordDescriptor(f"c15/m{i}", [tuple(x) for x in f])(**values[i]) for i, f in enumerate(members)]
    g = GroupedRecord("c15/grp", recs)
    want = ref_merge([[tuple(x) for x in f] for f in members], False)
    if [tuple(f) for f in g._desc.get_field_tuples()] != want:
        return f"flat descriptor {g._desc.get_field_tuples()}, the rule gives {want}"
    wv = ref_values([[tuple(x) for x in f] for f in members], values, False)
    for t, n in want:
        if getattr(g, n) != wv[n]:
            return f"attribute {n}: {getattr(g, n)!r}, first member holds {wv[n]!r}"
    if [k for k in g._asdict() if not k.startswith("_")] != [n for _, n in want]:
        return f"_asdict keys {list(g._asdict())}"
    for t, n in want:
        if g._asdict()[n] != wv[n]:
            return f"_asdict()[{n!r}] is {g._asdict()[n]!r}, the first member that has the field holds {wv[n]!r}"
    sel = [n for _, n in want][::-1][:2]
    if sel and (list(g._asdict(fields=sel)) != sel or any(g._asdict(fields=sel)[n] != wv[n] for n in sel)):  # (an empty selection means: no selection)
        return f"_asdict(fields={sel}) gives {g._asdict(fields=sel)!r}"
    try:
        g.nosuchfield
        return "unknown attribute answered"
    except AttributeError:
        pass
    return None


def c15_grouped(members=None):
    members = members or [[["varint", "a"]], [["filesize", "a"], ["varint", "b"]]]
    values = [{n: 100 * i + j for j, (_, n) in enumerate(f)} for i, f in enumerate(members)]
    bad = _check_grouped(members, values)
    return {"violates": bool(bad), "detail": bad}


def _check_rewrite(fsel, ex):
    from flow.record import RecordDescriptor
    from flow.record.stream import RecordFieldRewriter

    base_fields = [("varint", "a"), ("filesize", "b"), ("uint32", "c")]
    rec = RecordDescriptor("c15/rw", base_fields)(a=1, b=2, c=3)
    before = _obs(rec)
    out = RecordFieldRewriter(fields=fsel, exclude=ex).rewrite(rec)
    exs = ex or []
    if fsel:
        want = [(dict((n, t) for t, n in base_fields)[n], n) for n in fsel if n in ("a", "b", "c") and n not in exs]
    else:
        want = [(t, n) for t, n in base_fields if n not in exs]
    if _obs(rec) != before:
        return "original modified"
    if not fsel and not ex:
        return None if out is rec else "no projection requested: the record must be passed through"
    if [tuple(f) for f in out._desc.get_field_tuples()] != want:
        return f"fields={fsel} exclude={ex}: projected fields {out._desc.get_field_tuples()}, expected {want}"
    for t, n in want:
        if getattr(out, n) != getattr(rec, n):
            return f"value of {n} changed"
    return None


def c15_rewrite(fields=None, exclude=None):
    bad = _check_rewrite(fields, exclude)
    return {"violates": bool(bad), "detail": bad}


def c15_rewrite_history(fields=None, exclude=None, order=None):
    from flow.record import RecordDescriptor
    from flow.record.stream import RecordFieldRewriter

    gens = {"g1": [("varint", "a"), ("filesize", "b")], "g2": [("filesize", "b"), ("uint32", "c"), ("varint", "a")], "other": [("uint16", "b"), ("varint", "z")]}
    names = {"g1": "c15/gen", "g2": "c15/gen", "other": "c15/other"}
    rw = RecordFieldRewriter(fields=fields, exclude=exclude)
    exs = exclude or []
    for rnd in range(2):
        for i, g in enumerate(order or ["g1", "g2", "other"]):
            D = RecordDescriptor(names[g], gens[g])
            rec = D(**{n: 10 * i + j for j, (_, n) in enumerate(gens[g])})
            try:
                o = rw.rewrite(rec)
            except Exception as e:
                return {"violates": True, "detail": f"rewriting a {g} record raised {type(e).__name__}: {e}"}
            if fields:
                want = [(dict((n, t) for t, n in gens[g])[n], n) for n in fields if n in [m for _, m in gens[g]] and n not in exs]
            else:
                want = [(t, n) for t, n in gens[g] if n not in exs]
            got = [tuple(f) for f in o._desc.get_field_tuples()]
            if got != want or any(getattr(o, n) != getattr(rec, n) for _, n in want):
                return {"violates": True, "detail": f"a {g} record {gens[g]} was projected to {got} (values {[getattr(o, n, None) for _, n in got]}), expected {want}"}
    return {"violates": False}


def c15_sweep(seed=0, n=300):
    rng = random.Random(seed)
    names = ["a", "b", "c", "d", "ts", "ts_description", "e"]
    types = ["varint", "filesize", "uint32", "string", "bytes", "datetime", "float", "boolean", "string[]"]

    def val(t, k):
        return {"varint": k, "filesize": k, "uint32": k, "string": f"s{k}", "bytes": b"b%d" % k, "datetime": datetime.datetime(2000 + k % 50, 1, 1, tzinfo=UTC), "float": k + 0.5, "boolean": bool(k % 2), "string[]": [f"l{k}"]}[t]

    cases = 0
    for i in range(n):
        kind = rng.choice(["extend", "extend", "timestamps", "grouped", "rewrite"])
        cases += 1
        if kind == "extend":
            nrec = rng.randrange(1, 6)
            pool = []
            for _ in range(rng.randrange(1, 4)):
                k = rng.randrange(0, 6)
                ns = rng.sample(names, min(k, len(names)))
                pool.append([(rng.choice(types), nm) for nm in ns])
            repeat = [rng.randrange(len(pool)) for _ in range(nrec)]
            fields = [pool[r] for r in repeat]
            values = [{nm: (None if rng.random() < 0.1 else val(t, 10 * j + q)) for q, (t, nm) in enumerate(f)} for j, f in enumerate(fields)]
            replace, rename = rng.random() < 0.5, rng.random() < 0.3
            # with replace the type comes from the last record that has the field and so does the value: always coercible
            try:
                bad = _check_extend(fields, values, replace, rename, repeat)
            except Exception as e:
                bad = f"raised {type(e).__name__}: {e}"
            if bad:
                return {"violates": True, "detail": f"case {i}: extend fields={fields} replace={replace}: {bad}", "witness": {"seed": seed, "case": i}, "cases": cases}
        elif kind == "timestamps":
            k = rng.randrange(0, 6)
            ns = rng.sample(names, k)
            fields = [(rng.choice(["datetime", "datetime", "varint", "string"]), nm) for nm in ns]
            values = {nm: (None if rng.random() < 0.1 and t != "datetime" else val(t, q)) for q, (t, nm) in enumerate(fields)}
            try:
                bad = _check_timestamps(fields, values)
            except Exception as e:
                bad = f"raised {type(e).__name__}: {e}"
            if bad:
                return {"violates": True, "detail": f"case {i}: timestamps fields={fields}: {bad}", "witness": {"seed": seed, "case": i}, "cases": cases}
        elif kind == "grouped":
            members = []
            for _ in range(rng.randrange(1, 5)):
                ns = rng.sample(names, rng.randrange(0, 4))
                members.append([(rng.choice(types), nm) for nm in ns])
            values = [{nm: val(t, 10 * j + q) for q, (t, nm) in enumerate(f)} for j, f in enumerate(members)]
            try:
                bad = _check_grouped(members, values)
            except Exception as e:
                bad = f"raised {type(e).__name__}: {e}"
            if bad:
                return {"violates": True, "detail": f"case {i}: grouped members={members}: {bad}", "witness": {"seed": seed, "case": i}, "cases": cases}
        else:
            fsel = rng.choice([None, rng.sample(["a", "b", "c", "zz"], rng.randrange(1, 4))])
            ex = rng.choice([None, rng.sample(["a", "b", "c", "zz"], rng.randrange(1, 3))])
            try:
                bad = _check_rewrite(fsel, ex)
            except Exception as e:
                bad = f"raised {type(e).__name__}: {e}"
            if bad:
                return {"violates": True, "detail": f"case {i}: {bad}", "witness": {"seed": seed, "case": i}, "cases": cases}
    return {"violates": False, "cases": cases}



def c15_copy(kind="grouped", x=3):
    from flow.record import GroupedRecord, RecordDescriptor

    A = RecordDescriptor("c15/ca", [("varint", "n"), ("string", "s")])
    B = RecordDescriptor("c15/cb", [("string", "s"), ("string", "t")])
    T = RecordDescriptor("c15/ct", [("string", "t"), ("varint", "n"), ("string", "zz")])
    a = A(n=x, s="from a", _source="src-a", _classification="cls-a")
    b = B(s="from b", t="tee")
    src = a if kind == "plain" else GroupedRecord("c15/cg", [a, b]) if kind == "grouped" else GroupedRecord("c15/cg", [GroupedRecord("c15/ci", [a]), b])
    r = T.init_from_record(src)
    want = {"t": None if kind == "plain" else "tee", "n": x, "zz": None, "_source": "src-a", "_classification": "cls-a"}
    got = {k: getattr(r, k) for k in want}
    return {"violates": got != want, "detail": f"init_from_record({kind} source): the copy holds {got!r}, expected {want!r}"}


def c15_replace_self(kind="plain"):
    from flow.record import GroupedRecord, RecordDescriptor

    r = RecordDescriptor("c15/rs", [("string", "self"), ("varint", "n")])(**{"self": "old", "n": 4})
    src = r if kind == "plain" else GroupedRecord("c15/rg", [r])
    try:
        c = src._replace(**{"self": "new"})
        got = (getattr(c, "self"), c.n, getattr(src, "self"))
    except Exception as e:
        got = f"{type(e).__name__}: {e}"
    return {"violates": got != ("new", 4, "old"), "detail": f"_replace(self='new') on a {kind} record with the fields self='old', n=4: {got!r}"}

CALLS = {"c15_desc_extend": c15_desc_extend, "c15_replace_self": c15_replace_self, "c15_copy": c15_copy, "c15_rewrite_history": c15_rewrite_history, "c15_extend": c15_extend, "c15_timestamps": c15_timestamps, "c15_grouped_view": c15_grouped_view, "c15_colliding": c15_colliding, "c15_grouped_replace": c15_grouped_replace, "c15_grouped_collision": c15_grouped_collision, "c15_ts_collision": c15_ts_collision, "c15_ts_unset": c15_ts_unset, "c15_grouped": c15_grouped, "c15_rewrite": c15_rewrite, "c15_sweep": c15_sweep}

"""Native harness functions for C06 (run on the real code by /venv/bin/python)."""
import ast
import io
import json
import random
import re

IDENT = re.compile(r"[A-Za-z][A-Za-z0-9_]*\Z")
TYPENAME = re.compile(r"[A-Za-z][A-Za-z0-9_]*(/[A-Za-z][A-Za-z0-9_]*)*\Z")
RESERVED = ["_source", "_classification", "_generated", "_version"]


def _whitelist():
    from flow.record.whitelist import WHITELIST

    return set(WHITELIST)


def spec_accepts(name, fields):
    wl = _whitelist()
    if not isinstance(name, str) or not TYPENAME.match(name):
        return False
    for t, f in fields:
        if not isinstance(f, str) or not IDENT.match(f):
            return False
        if not isinstance(t, str) or (t[:-2] if t.endswith("[]") else t) not in wl:
            return False
    return True


def c06_eval(what, value, check_reserved=True):
    from flow.record import RecordDescriptor
    from flow.record import base

    try:
        if what == "field":
            return {"outcome": repr(base.is_valid_field_name(value, check_reserved=check_reserved)), "violates": False}
        if what == "type":
            base.fieldtype.cache_clear()
            return {"outcome": "ok:" + base.fieldtype(value).__name__, "violates": False}
        base._generate_record_class.cache_clear()
        RecordDescriptor(value, [("string", "x")])
        return {"outcome": "ok", "violates": False}
    except Exception as e:
        return {"outcome": "raise:" + type(e).__name__, "violates": False}


def c06_field_name(fname, check_reserved):
    from flow.record import base

    r = base.is_valid_field_name(fname, check_reserved=check_reserved)
    ok = bool(IDENT.match(fname)) or (not check_reserved and fname in RESERVED)
    return {"field_name": fname, "accepted": r, "in_grammar": ok, "violates": bool(r) and not ok}


def c06_fieldtype(ftype):
    from flow.record import base

    base.fieldtype.cache_clear()
    try:
        t = base.fieldtype(ftype)
    except Exception as e:
        return {"ftype": ftype, "result": f"raised {type(e).__name__}", "violates": False}
    ok = (ftype[:-2] if ftype.endswith("[]") else ftype) in _whitelist()
    return {"ftype": ftype, "result": repr(t), "on_whitelist": ok, "violates": not ok}


class Capture:
    """Shadows exec in flow.record.base's namespace (no repository change) to capture the generated source."""

    def __enter__(self):
        from flow.record import base

        self.base, self.texts = base, []

        def _exec(code, g=None, l=None):
            self.texts.append(code)
            return exec(code, g) if l is None else exec(code, g, l)

        base.__dict__["exec"] = _exec
        return self

    def __exit__(self, *a):
        self.base.__dict__.pop("exec", None)


def _check_source(text, name, fields):
    """Same allow-list as contracts/C06.validate_generated_source (imported from there: one text, two uses)."""
    from spec.template_allowlist import validate_generated_source

    return validate_generated_source(text, name, [f for _, f in fields])


def _through(entry, name, fields):
    """Feeds one definition through a real entry point. Returns (accepted, descriptor or exception)."""
    from flow.record import RecordDescriptor, base
    from flow.record.jsonpacker import JsonRecordPacker
    from flow.record.packer import RecordPacker

    base._generate_record_class.cache_clear()
    base.fieldtype.cache_clear()
    try:
        if entry == "api":
            d = RecordDescriptor(name, [tuple(x) for x in fields])
        elif entry == "stream":
            import msgpack

            blob = msgpack.packb(msgpack.ExtType(14, msgpack.packb((2, (name, [list(x) for x in fields])), use_bin_type=True, unicode_errors="surrogateescape")), use_bin_type=True)
            d = RecordPacker().unpack(blob)
        elif entry == "json":
            d = JsonRecordPacker().unpack(json.dumps({"_type": "recorddescriptor", "_data": [name, [list(x) for x in fields]]}))
        elif entry == "avro_doc":
            from flow.record.adapter.avro import schema_to_descriptor

            d = schema_to_descriptor({"type": "record", "name": "x", "doc": json.dumps([name, [list(x) for x in fields]])})
        elif entry == "avro_schema":
            from flow.record.adapter.avro import schema_to_descriptor

            ns, _, nme = name.rpartition("/")
            d = schema_to_descriptor({"type": "record", "namespace": ns.replace("/", "."), "name": nme, "fields": [{"name": f, "type": ["string", "null"]} for _, f in fields]})
        elif entry in ("merge_api", "extend_api"):
            from flow.record.base import extend_record, merge_record_descriptors

            base.merge_record_descriptors.cache_clear() if hasattr(base.merge_record_descriptors, "cache_clear") else None
            P = RecordDescriptor("c06/p", [tuple(x) for x in fields])
            d = merge_record_descriptors((P,), name=name) if entry == "merge_api" else extend_record(P(), [], name=name)._desc
        elif entry == "descriptor_extend":
            d = RecordDescriptor("c06/p", [("string", "kept")]).extend([tuple(x) for x in fields])
        elif entry == "api_clone":
            import warnings

            with warnings.catch_warnings():
                warnings.simplefilter("ignore")
                d = RecordDescriptor(name, RecordDescriptor("c06/proto", [tuple(x) for x in fields]))
        elif entry == "api_one_string":
            import warnings

            with warnings.catch_warnings():
                warnings.simplefilter("ignore")
                d = RecordDescriptor(name + "".join(f"\n{t} {f};" for t, f in fields))
        elif entry == "stream_nested":
            import msgpack

            inner = msgpack.ExtType(14, msgpack.packb((2, ("c06/inner", [list(x) for x in fields])), use_bin_type=True))
            blob = msgpack.packb(msgpack.ExtType(14, msgpack.packb((2, (name, inner)), use_bin_type=True, unicode_errors="surrogateescape")), use_bin_type=True)
            d = RecordPacker().unpack(blob)
        elif entry == "grouped_api":
            from flow.record import GroupedRecord

            g = GroupedRecord(name, [RecordDescriptor("c06/member", [("string", "s")])(s="x")])
            d = "grouped"  # (accepted: the group exists; its flat descriptor is looked at by the caller)
            g._desc
        elif entry == "grouped_stream":
            import msgpack

            M = RecordDescriptor("c06/member", [("string", "s")])
            p = RecordPacker()
            p.register(M)
            blob = msgpack.packb(msgpack.ExtType(14, msgpack.packb((0x12, (name, [[list(M.identifier), ["x", None, None, None, 1]]])), use_bin_type=True, unicode_errors="surrogateescape")), use_bin_type=True)
            g = p.unpack(blob)
            d = "grouped"
        else:
            raise KeyError(entry)
        return True, d
    except Exception as e:
        return False, e


HOSTILE_DEFAULTS = [("ｔｅｓｔ/ｒｅｃ", []), ("ﬁle/entry", []), ("ok", [("string", "ｎａｍｅ")]), ("A\nimport os", []), ("a b", []), ("A;B", []), ("tеst", []), ("_x/", []), ("ok", [("string", "a b")]), ("ok", [("string", "_hidden")]), ("ok", [("string\n", "a")]), ("ok", [("os.system", "a")]),
                    ("A\rB", []), ("class", [("string", "x-y")])]


def c06_definition(entry=None, name=None, fields=None, _fallback=True):
    if name is not None and fields is not None and _fallback and entry is not None:
        # the solver's model may be spurious where the path goes through an uninterpreted function (a text normalisation): when it does not fail on the real code, a few
        # fixed hostile definitions are tried as well - whatever is reported is a real failing input
        first = c06_definition(entry, name, fields, _fallback=False)
        if first.get("violates"):
            return first
        for nm_, fl_ in HOSTILE_DEFAULTS:
            if entry == "avro_doc" and not fl_:
                continue  # (a doc without fields is not a definition: the reader takes the schema's own name and fields instead)
            nxt = c06_definition(entry, nm_, fl_, _fallback=False)
            if nxt.get("violates"):
                nxt["note"] = f"the solver's witness name={name!r} fields={fields!r} does not fail on the real code; this fixed hostile definition does"
                return nxt
        return first
    if name is None or fields is None:
        # the solver refuted the obligation without handing out a model: look for a failing input among a few fixed hostile definitions
        last = {"violates": False, "note": "no model from the solver and none of the fixed hostile definitions fails"}
        for nm_, fl_ in HOSTILE_DEFAULTS:
            if entry is None:
                break
            last = c06_definition(entry, nm_, fl_, _fallback=False)
            if last.get("violates"):
                return last
        return last
    fields = [tuple(x) for x in fields]
    with Capture() as cap:
        accepted, res = _through(entry, name, fields)
    if entry == "descriptor_extend":
        name = "c06/p"
    expect = spec_accepts(name, fields if entry != "avro_schema" else [("string", f) for _, f in fields])
    out = {"entry": entry, "name": name, "fields": fields, "accepted": accepted, "reference_grammar_accepts": expect, "result": repr(res)[:200]}
    bad = []
    if accepted and not expect:
        bad.append("accepted a definition outside the grammar / whitelist")
    texts = cap.texts[1:] if entry == "descriptor_extend" else cap.texts  # (the first text is the class of the valid descriptor that is being extended)
    for text in texts:
        if not expect:
            bad.append("text of a definition outside the grammar reached exec")
    if accepted and expect and not entry.startswith("grouped"):
        want = (["kept"] if entry == "descriptor_extend" else []) + [f for _, f in fields] + RESERVED
        if list(res.recordType.__slots__) != list(dict.fromkeys(want)):
            bad.append(f"slots {res.recordType.__slots__} != declared + reserved")
        try:
            r = res.recordType()
            if r._version != 1:
                bad.append(f"_version is {r._version!r} for an accepted definition")
        except Exception as e:
            bad.append(f"record of the accepted definition cannot be created: {type(e).__name__}: {e}")
    out["problems"] = bad
    out["violates"] = bool(bad)
    return out


def c06_dup_fields():
    from flow.record import RecordDescriptor

    try:
        D = RecordDescriptor("c06/dup", [("string", "a"), ("varint", "a"), ("string", "b")])
    except Exception as e:
        return {"violates": False, "outcome": f"rejected: {type(e).__name__}"}
    slots = [s for s in D.recordType.__slots__ if s not in RESERVED]
    declared = [n for _, n in D.get_field_tuples()]
    return {"violates": slots != declared, "detail": f"accepted; the record has the fields {slots}, the descriptor declares {declared}" if slots != declared else None}


def c06_nofields(entry, name):
    """a descriptor frame / JSON descriptor line whose field list is nil / null"""
    from flow.record.jsonpacker import JsonRecordPacker
    from flow.record.packer import RecordPacker

    try:
        if entry == "stream":
            import msgpack

            blob = msgpack.packb(msgpack.ExtType(14, msgpack.packb((2, (name, None)), use_bin_type=True)), use_bin_type=True)
            d = RecordPacker().unpack(blob)
        elif entry == "avro_doc_text":
            from flow.record.adapter.avro import schema_to_descriptor

            d = schema_to_descriptor({"type": "record", "name": "x", "namespace": "", "fields": [], "doc": json.dumps([name, None])})
        else:
            d = JsonRecordPacker().unpack(json.dumps({"_type": "recorddescriptor", "_data": [name, None]}))
    except Exception as e:
        return {"violates": False, "outcome": f"rejected: {type(e).__name__}"}
    bad = ("\n" in name or d.name != name) and not (entry == "avro_doc_text" and d.name == "x")
    return {"violates": bad, "detail": f"a definition without a field list whose name text is {name!r} was accepted as the type {d.name!r} with the fields {d.get_field_tuples()!r}" if bad else None}


def c06_history(legit, crafted):
    """a stream whose second descriptor frame has the same name and unseparated field text as the first (legitimate) one but other fields / types"""
    import struct

    import msgpack

    from flow.record.stream import RecordStreamReader

    def frame(fields):
        body = msgpack.packb(msgpack.ExtType(14, msgpack.packb([2, ["c06/t", [list(f) for f in fields]]], use_bin_type=True)), use_bin_type=True)
        return struct.pack(">I", len(body)) + body

    header = msgpack.packb(b"RECORDSTREAM\n", use_bin_type=True)
    data = struct.pack(">I", len(header)) + header + frame(legit) + frame(crafted)
    try:
        out = list(RecordStreamReader(io.BytesIO(data)))
    except Exception as e:
        return {"violates": False, "outcome": f"rejected: {type(e).__name__}"}
    return {"violates": True, "detail": f"the crafted definition {crafted} was accepted without an error (the reader yielded {out!r})"}


def c06_definition_literal(entry, name, fields, literal=True):
    name, fields = eval(name), eval(fields)
    with Capture() as cap:
        accepted, res = _through("api", name, fields)
    return {"name": repr(name), "fields": repr(fields), "accepted": accepted, "exec_reached": len(cap.texts), "violates": bool(accepted or cap.texts)}


def c06_hostile(seed, n):
    rnd = random.Random(seed)
    wl = sorted(_whitelist())
    frag = ["a", "Z", "_", "9", "\n", " ", "/", ".", "[]", "é", "ı", "\x00", ";", "'", '"', ")", "(", ":", "\\", "import", "os", "if", "RECORD_VERSION", "Record", "_utcnow", "__self", "x" * 40, "\udcff", "K", "-", "\t", "\r", "=", ","]

    def gen_ident(hostile):
        s = rnd.choice(["a", "B", "f1", "name", "RECORD_VERSION", "Record", "from", "class", "match", "type", "args", "kwargs", "k", "v", "values", "setattr", "dict", "_generated", "ts"])
        if hostile:
            k = rnd.randrange(5)
            ins = rnd.choice(frag)
            s = [s + ins, ins + s, s[:1] + ins + s[1:], ins, ""][k]
        return s

    cases = 0
    for entry in ("api", "stream", "json", "avro_doc", "avro_schema"):
        for i in range(n):
            hostile = rnd.random() < 0.7
            name = "/".join(gen_ident(hostile and rnd.random() < 0.5) for _ in range(rnd.randint(1, 3)))
            fields = []
            for _ in range(rnd.randint(0, 3)):
                t = rnd.choice(wl) + rnd.choice(["", "", "[]", "[][]", " ", "\n", "]"]) if rnd.random() < 0.8 else gen_ident(True)
                fields.append((t if entry != "avro_schema" else "string", gen_ident(hostile and rnd.random() < 0.6)))
            if entry == "avro_schema":
                fields = [(t, f) for t, f in fields if isinstance(f, str) and not f.startswith("_")]
                if len({f for _, f in fields}) != len(fields) or "." in name or name.startswith("/") or name.endswith("/") or "" in name.split("/"):
                    continue
            if len({f for _, f in fields}) != len(fields) or (entry == "avro_doc" and not fields):
                continue  # (an Avro doc of a zero-field descriptor does not end in "]]]": the reader derives the descriptor from the schema instead)
            cases += 1
            try:
                r = c06_definition(entry, name, fields, _fallback=False)
            except Exception as e:
                return {"violates": False, "error": f"harness: {e!r}", "cases": cases}
            if r["violates"]:
                return {"violates": True, "detail": f"{entry}: {r['problems']} for name={name!r} fields={fields!r}", "witness": {"entry": entry, "name": name, "fields": fields}, "cases": cases}
    return {"violates": False, "cases": cases}


CALLS = {"c06_dup_fields": c06_dup_fields, "c06_nofields": c06_nofields, "c06_history": c06_history, "c06_eval": c06_eval, "c06_field_name": c06_field_name, "c06_fieldtype": c06_fieldtype, "c06_definition": c06_definition, "c06_definition_literal": c06_definition_literal, "c06_hostile": c06_hostile}

"""Independent reference codec of the flow.record stream format (no import of flow.record or msgpack).

decode_stream(data) -> list of events
    ("DESC", name, ((type, fieldname), ...))
    ("REC", name, hash_or_None, [values...])              values are plain Python: None/bool/int/float/str/bytes/list, timestamps as
    ("GROUPED", name, [(name_i, hash_i, [values...])])    ("ts", y, mo, d, h, mi, s, us) or ("ts-iso", text), nested records as ("REC", ...)
encode_stream(events) -> bytes   (inverse; integers outside [-2^63, 2^64) become the big-integer extension)
"""
import os
import sys

sys.path.insert(0, os.path.dirname(os.path.abspath(__file__)))
import msgpack_spec as M  # noqa: E402
import wire_spec as W  # noqa: E402


class FormatError(ValueError):
    pass


def _plain(t):
    k = t[0]
    if k == "leaf":
        return t[1]
    if k == "arr":
        return [_plain(x) for x in t[1]]
    if k == "map":
        return {_plain(a): _plain(b) for a, b in t[1]}
    if k == "ext":
        return _ext(t[1], t[2])
    raise FormatError(k)


def _ext(code, data):
    if code != W.EXT:
        raise FormatError(f"extension type {code}")
    inner = M.decode(data)
    if inner[0] != "arr" or len(inner[1]) != 2:
        raise FormatError("extension payload is not [sub-type, value]")
    sub = _plain(inner[1][0])
    v = _plain(inner[1][1])
    if sub == W.SUB_DATETIME:
        if len(v) == 7:
            return ("ts",) + tuple(v)
        if len(v) == 1:
            return ("ts-iso", v[0])
        raise FormatError("timestamp payload")
    if sub == W.SUB_VARINT:
        neg, mag = v
        n = int.from_bytes(mag, "big")
        return -n if neg else n
    if sub == W.SUB_RECORD:
        ident, values = v
        name, h = (ident[0], ident[1]) if isinstance(ident, list) else (ident, None)
        return ("REC", name, h, values)
    if sub == W.SUB_DESCRIPTOR:
        name, fields = v
        return ("DESC", name, tuple((t, n) for t, n in fields))
    if sub == W.SUB_GROUPED:
        name, members = v
        return ("GROUPED", name, [((i[0], i[1]) if isinstance(i, list) else (i, None)) + (vals,) for i, vals in members])
    raise FormatError(f"sub-type {sub}")


def frames(data):
    """Yields the frame bodies; raises FormatError on a truncated stream."""
    pos = 0
    while pos < len(data):
        if pos + 4 > len(data):
            raise FormatError("truncated length prefix")
        n = int.from_bytes(data[pos : pos + 4], "big")
        pos += 4
        if pos + n > len(data):
            raise FormatError("truncated frame body")
        yield data[pos : pos + n]
        pos += n


def decode_stream(data):
    fs = list(frames(data))
    if not fs or M.decode(fs[0]) != ("leaf", W.MAGIC):
        raise FormatError("no header frame")
    out = []
    for body in fs[1:]:
        v = _plain(M.decode(body))
        if v == W.MAGIC:
            continue
        out.append(v)
    return out


# ---- encoder ------------------------------------------------------------------------------------------------------------------------
class _Blob:
    def __init__(self, tree):
        self.concrete = M.encode(tree)


def _tree(v):
    if isinstance(v, tuple) and v and v[0] == "ts":
        return W.datetime_utc_tree(_Blob, *v[1:])
    if isinstance(v, tuple) and v and v[0] == "ts-iso":
        return W.datetime_iso_tree(_Blob, v[1])
    if isinstance(v, tuple) and v and v[0] == "REC":
        return _rec_tree(v)
    if isinstance(v, bool) or v is None or isinstance(v, (float, str, bytes)):
        return W.leaf(v)
    if isinstance(v, int):
        return W.int_tree(_Blob, v)
    if isinstance(v, (list, tuple)):
        return W.arr(*[_tree(x) for x in v])
    raise FormatError(f"cannot encode {v!r}")


def _rec_tree(ev):
    _, name, h, values = ev
    vt = [_tree(x) for x in values]
    if h is None:
        return W.ext(_Blob, W.SUB_RECORD, W.arr(W.leaf(name), W.arr(*vt)))
    return W.record_tree(_Blob, name, h, vt)


def encode_event(ev):
    if ev[0] == "DESC":
        t = W.descriptor_tree(_Blob, ev[1], ev[2])
    elif ev[0] == "REC":
        t = _rec_tree(ev)
    elif ev[0] == "GROUPED":
        t = W.grouped_tree(_Blob, ev[1], [(n, h, [_tree(x) for x in vals]) for n, h, vals in ev[2]])
    else:
        raise FormatError(ev[0])
    return M.encode(t)


def frame(body):
    return len(body).to_bytes(4, "big") + body


def encode_stream(events):
    return frame(M.encode(W.leaf(W.MAGIC))) + b"".join(frame(encode_event(e)) for e in events)

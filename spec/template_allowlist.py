"""AST allow-list for the source text that flow.record hands to exec() when it generates a record class.

Used twice: by the prover (contracts/C06.py, on the text of every symbolic path instantiated with a model) and by the native
harness (replay/h_C06.py, on the text captured from the real exec call).  Written from the published template shape, not from the generator.
"""
import ast
import re

RESERVED = ["_source", "_classification", "_generated", "_version"]  # published reserved metadata fields, in order
ALLOWED_NODES = {"Module", "ClassDef", "Assign", "Name", "Constant", "Dict", "Tuple", "FunctionDef", "arguments", "arg", "Attribute", "IfExp", "Compare", "IsNot", "Call", "keyword", "Return",
                 "For", "Expr", "ListComp", "comprehension", "BoolOp", "Or", "Load", "Store", "Starred", "Subscript"}
TEMPLATE_NAMES = {"Record", "None", "__self", "__cls", "_utcnow", "_RECORD_VERSION", "_zip_longest", "_setattr", "_dict", "setattr", "dict", "classmethod", "_desc", "_field_types", "__slots__", "args", "kwargs", "k", "v", "f", "values", "_generated"}
IDENT_RE = re.compile(r"[A-Za-z][A-Za-z0-9_]*\Z")


def validate_generated_source(code, type_name, field_names):
    """AST allow-list for the text handed to exec: returns a list of complaints (empty = conforming)."""
    bad = []
    try:
        tree = ast.parse(code)
    except SyntaxError as e:
        return [f"does not parse: {e}"]
    if len(tree.body) != 1 or not isinstance(tree.body[0], ast.ClassDef):
        return ["not exactly one class statement"]
    cls = tree.body[0]
    if (cls.name != type_name.replace("/", "_") if type_name is not None else not IDENT_RE.match(cls.name)) or [ast.dump(b) for b in cls.bases] != [ast.dump(ast.Name("Record", ast.Load()))] or cls.keywords or cls.decorator_list:
        bad.append(f"class header {cls.name!r}")
    fnames = list(field_names) + RESERVED
    allowed_names = TEMPLATE_NAMES | set(fnames) | {f"_field_{f}" for f in fnames}
    for n in ast.walk(tree):
        t = type(n).__name__
        if t not in ALLOWED_NODES:
            bad.append(f"node {t}")
        if isinstance(n, ast.Name) and n.id not in allowed_names:
            bad.append(f"name {n.id!r}")
        if isinstance(n, ast.Attribute) and n.attr not in set(fnames) | {"type", "default", "_unpack", "_field_types", "__slots__", "get", "_generated", "_version"}:
            bad.append(f"attribute .{n.attr}")
        if isinstance(n, ast.Constant) and not (n.value is None or isinstance(n.value, str) and n.value in fnames):
            bad.append(f"constant {n.value!r}")
        if isinstance(n, ast.Call):
            callee = ast.unparse(n.func)
            if not (callee in ("_utcnow", "_zip_longest", "_setattr", "_dict", "setattr", "dict", "__cls", "kwargs.get") or re.fullmatch(r"_field_\w+\.type\.(default|_unpack)", callee) or re.fullmatch(r"__cls\._field_types\[f\]\._unpack", callee)):
                bad.append(f"call {callee}")
    body = {ast.unparse(s.targets[0]): s.value for s in cls.body if isinstance(s, ast.Assign)}
    try:
        slots = list(ast.literal_eval(body["__slots__"]))
    except Exception:
        slots = None
    if slots != fnames:
        bad.append(f"__slots__ {slots} != declared fields followed by the reserved fields {fnames}")
    ft = body.get("_field_types")
    if not isinstance(ft, ast.Dict) or [k.value for k in ft.keys if isinstance(k, ast.Constant)] != fnames:
        bad.append("_field_types keys differ from the slots")
    funcs = [s for s in cls.body if isinstance(s, ast.FunctionDef)]
    if [f.name for f in funcs] != ["__init__", "_unpack"]:
        bad.append(f"methods {[f.name for f in funcs]}")
    for f in funcs:
        params = [a.arg for a in f.args.args + f.args.kwonlyargs] + ([f.args.vararg.arg] if f.args.vararg else []) + ([f.args.kwarg.arg] if f.args.kwarg else [])
        if f.args.vararg is None and params[1:] != fnames:
            bad.append(f"{f.name} parameters {params[1:]} != {fnames}")
        # capture avoidance: a name the body reads from the globals must not be expressible as a field name (which would make it a parameter)
        stores = {n.id for n in ast.walk(f) if isinstance(n, ast.Name) and isinstance(n.ctx, ast.Store)}
        for n in [x for st in f.body for x in ast.walk(st)]:  # (decorators are evaluated in the class body, before the class name is bound)
            if isinstance(n, ast.Name) and isinstance(n.ctx, ast.Load) and n.id not in params and n.id not in stores and not n.id.startswith("_field_") and n.id != "None":
                # a global the body reads must not be expressible as a field name (it would become a parameter of the plain template)
                # nor as a class name (the generated class is stored in the same globals and would shadow it)
                if IDENT_RE.match(n.id):
                    bad.append(f"capture: global/builtin {n.id!r} read by {f.name} can be shadowed by a field or record type of that name")
    return bad



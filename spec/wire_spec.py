"""The published flow.record stream format as abstract msgpack trees (written from the format description in the property
statements and the project's documentation - not from packer.py):

  stream   := frame(bin8 "RECORDSTREAM\\n")  frame*              frame := BE32(len(body)) body        body := one msgpack value
  record     = ext 14 [ 1,    [ [name, hash], [v_1 .. v_n, _source, _classification, _generated, _version] ] ]
  descriptor = ext 14 [ 2,    [ name, [ [type, fieldname] ... ] ] ]
  timestamp  = ext 14 [ 0x10, [Y, M, D, h, m, s, us] ]  (UTC / naive)      or  ext 14 [ 0x10, [iso-8601 text] ]  (other offsets)
  big int    = ext 14 [ 0x11, [negative?, big-endian magnitude bytes (minimal length)] ]     for integers outside [-2^63, 2^64)
  grouped    = ext 14 [ 0x12, [ name, [ [ [name_i, hash_i], [values_i...] ] ... ] ] ]
  hash       = first four bytes (big endian) of SHA-256( utf8( name ++ concat_i( fieldname_i ++ type_i ) ) )
the payload of an ext value is itself a msgpack encoding of the two-element array.
"""
import hashlib

EXT = 14
SUB_RECORD, SUB_DESCRIPTOR, SUB_DATETIME, SUB_VARINT, SUB_GROUPED = 1, 2, 0x10, 0x11, 0x12
MAGIC = b"RECORDSTREAM\n"
RESERVED = ("_source", "_classification", "_generated", "_version")
RESERVED_TYPES = ("string", "string", "datetime", "varint")
RECORD_VERSION = 1
INT_MIN, INT_MAX = -(2**63), 2**64 - 1


def leaf(v):
    return ("leaf", v)


def arr(*xs):
    return ("arr", list(xs))


def descriptor_hash(name, fields):
    """fields: sequence of (type, fieldname)"""
    data = name + "".join(fname + ftype for ftype, fname in fields)
    return int.from_bytes(hashlib.sha256(data.encode()).digest()[:4], "big")


def ext(blob_cls, sub, payload):
    return ("ext", EXT, blob_cls(arr(leaf(sub), payload)))


def descriptor_tree(blob_cls, name, fields):
    return ext(blob_cls, SUB_DESCRIPTOR, arr(leaf(name), arr(*[arr(leaf(t), leaf(n)) for t, n in fields])))


def identifier_tree(name, h):
    return arr(leaf(name), leaf(h))


def record_tree(blob_cls, name, h, value_trees):
    return ext(blob_cls, SUB_RECORD, arr(identifier_tree(name, h), arr(*value_trees)))


def grouped_tree(blob_cls, name, members):
    """members: [(name_i, hash_i, [value trees])]"""
    return ext(blob_cls, SUB_GROUPED, arr(leaf(name), arr(*[arr(identifier_tree(n, h), arr(*vs)) for n, h, vs in members])))


def datetime_utc_tree(blob_cls, y, mo, d, h, mi, s, us):
    return ext(blob_cls, SUB_DATETIME, arr(*[leaf(v) for v in (y, mo, d, h, mi, s, us)]))


def datetime_iso_tree(blob_cls, iso):
    return ext(blob_cls, SUB_DATETIME, arr(leaf(iso)))


def bigint_tree(blob_cls, neg, magnitude_bytes):
    return ext(blob_cls, SUB_VARINT, arr(leaf(neg), leaf(magnitude_bytes)))


def int_tree(blob_cls, v):
    """A concrete Python int as the format encodes it."""
    if INT_MIN <= v <= INT_MAX:
        return leaf(v)
    m = abs(v)
    return bigint_tree(blob_cls, v < 0, m.to_bytes((m.bit_length() + 7) // 8, "big"))

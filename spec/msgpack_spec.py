"""The msgpack wire format, written from the published specification (github.com/msgpack/msgpack/blob/master/spec.md), not from
the msgpack package (which is not imported here).  Trees are the abstract trees of pyvc/models/mp.py:

    ("leaf", None | bool | int | float | str | bytes)      ("arr", [tree...])      ("map", [(tree, tree)...])
    ("ext", code, payload)   payload: bytes, or an object with a `.concrete` bytes attribute (a nested packed blob)

encode(tree) -> bytes            smallest encoding, as the reference implementations produce (use_bin_type=True, float64)
decode(data) -> tree             raises Incomplete for a proper prefix of an encoding, ExtraData for trailing bytes
Strings: utf-8 with surrogateescape (the options flow.record passes).
"""
import struct


class Incomplete(ValueError):
    pass


class ExtraData(ValueError):
    pass


def enc_int(v):
    if 0 <= v < 0x80:
        return bytes([v])
    if -32 <= v < 0:
        return struct.pack("b", v)
    if 0 <= v:
        if v < 2**8:
            return b"\xcc" + struct.pack(">B", v)
        if v < 2**16:
            return b"\xcd" + struct.pack(">H", v)
        if v < 2**32:
            return b"\xce" + struct.pack(">I", v)
        if v < 2**64:
            return b"\xcf" + struct.pack(">Q", v)
        raise OverflowError("Integer value out of range")
    if v >= -(2**7):
        return b"\xd0" + struct.pack(">b", v)
    if v >= -(2**15):
        return b"\xd1" + struct.pack(">h", v)
    if v >= -(2**31):
        return b"\xd2" + struct.pack(">i", v)
    if v >= -(2**63):
        return b"\xd3" + struct.pack(">q", v)
    raise OverflowError("Integer value out of range")


def _payload(p):
    if isinstance(p, (bytes, bytearray)):
        return bytes(p)
    c = getattr(p, "concrete", None)
    if c is None:
        raise TypeError("ext payload is not concrete")
    return c


def encode(t):
    k = t[0]
    if k == "leaf":
        v = t[1]
        if v is None:
            return b"\xc0"
        if v is True:
            return b"\xc3"
        if v is False:
            return b"\xc2"
        if isinstance(v, int):
            return enc_int(v)
        if isinstance(v, float):
            return b"\xcb" + struct.pack(">d", v)
        if isinstance(v, str):
            b = v.encode("utf-8", "surrogateescape")
            n = len(b)
            if n < 32:
                return bytes([0xA0 | n]) + b
            if n < 2**8:
                return b"\xd9" + struct.pack(">B", n) + b
            if n < 2**16:
                return b"\xda" + struct.pack(">H", n) + b
            return b"\xdb" + struct.pack(">I", n) + b
        if isinstance(v, (bytes, bytearray)):
            n = len(v)
            if n < 2**8:
                return b"\xc4" + struct.pack(">B", n) + bytes(v)
            if n < 2**16:
                return b"\xc5" + struct.pack(">H", n) + bytes(v)
            return b"\xc6" + struct.pack(">I", n) + bytes(v)
        c = getattr(v, "concrete", None)
        if c is not None:  # a packed blob used as a bytes value
            return encode(("leaf", c))
        raise TypeError(f"not a concrete msgpack leaf: {v!r}")
    if k == "arr":
        n = len(t[1])
        head = bytes([0x90 | n]) if n < 16 else (b"\xdc" + struct.pack(">H", n) if n < 2**16 else b"\xdd" + struct.pack(">I", n))
        return head + b"".join(encode(x) for x in t[1])
    if k == "map":
        n = len(t[1])
        head = bytes([0x80 | n]) if n < 16 else (b"\xde" + struct.pack(">H", n) if n < 2**16 else b"\xdf" + struct.pack(">I", n))
        return head + b"".join(encode(a) + encode(b) for a, b in t[1])
    if k == "ext":
        data = _payload(t[2])
        n = len(data)
        code = struct.pack("b", t[1])
        fix = {1: b"\xd4", 2: b"\xd5", 4: b"\xd6", 8: b"\xd7", 16: b"\xd8"}
        if n in fix:
            return fix[n] + code + data
        if n < 2**8:
            return b"\xc7" + struct.pack(">B", n) + code + data
        if n < 2**16:
            return b"\xc8" + struct.pack(">H", n) + code + data
        return b"\xc9" + struct.pack(">I", n) + code + data
    raise TypeError(f"unknown tree node {k!r}")


def _need(data, pos, n):
    if pos + n > len(data):
        raise Incomplete("Unpack failed: incomplete input")
    return data[pos : pos + n], pos + n


def _dec(data, pos):
    b, pos = _need(data, pos, 1)
    c = b[0]
    if c < 0x80:
        return ("leaf", c), pos
    if c >= 0xE0:
        return ("leaf", c - 0x100), pos
    if 0x80 <= c <= 0x8F:
        return _map(data, pos, c & 0x0F)
    if 0x90 <= c <= 0x9F:
        return _arr(data, pos, c & 0x0F)
    if 0xA0 <= c <= 0xBF:
        return _str(data, pos, c & 0x1F)
    if c == 0xC0:
        return ("leaf", None), pos
    if c == 0xC1:
        raise ValueError("Unpack failed: reserved byte 0xc1")
    if c == 0xC2:
        return ("leaf", False), pos
    if c == 0xC3:
        return ("leaf", True), pos
    if c in (0xC4, 0xC5, 0xC6):
        w = {0xC4: 1, 0xC5: 2, 0xC6: 4}[c]
        h, pos = _need(data, pos, w)
        n = int.from_bytes(h, "big")
        v, pos = _need(data, pos, n)
        return ("leaf", bytes(v)), pos
    if c in (0xC7, 0xC8, 0xC9):
        w = {0xC7: 1, 0xC8: 2, 0xC9: 4}[c]
        h, pos = _need(data, pos, w)
        return _ext(data, pos, int.from_bytes(h, "big"))
    if c == 0xCA:
        v, pos = _need(data, pos, 4)
        return ("leaf", struct.unpack(">f", v)[0]), pos
    if c == 0xCB:
        v, pos = _need(data, pos, 8)
        return ("leaf", struct.unpack(">d", v)[0]), pos
    if c in (0xCC, 0xCD, 0xCE, 0xCF):
        w = 1 << (c - 0xCC)
        v, pos = _need(data, pos, w)
        return ("leaf", int.from_bytes(v, "big")), pos
    if c in (0xD0, 0xD1, 0xD2, 0xD3):
        w = 1 << (c - 0xD0)
        v, pos = _need(data, pos, w)
        return ("leaf", int.from_bytes(v, "big", signed=True)), pos
    if c in (0xD4, 0xD5, 0xD6, 0xD7, 0xD8):
        return _ext(data, pos, 1 << (c - 0xD4))
    if c in (0xD9, 0xDA, 0xDB):
        w = {0xD9: 1, 0xDA: 2, 0xDB: 4}[c]
        h, pos = _need(data, pos, w)
        return _str(data, pos, int.from_bytes(h, "big"))
    if c in (0xDC, 0xDD):
        h, pos = _need(data, pos, 2 if c == 0xDC else 4)
        return _arr(data, pos, int.from_bytes(h, "big"))
    if c in (0xDE, 0xDF):
        h, pos = _need(data, pos, 2 if c == 0xDE else 4)
        return _map(data, pos, int.from_bytes(h, "big"))
    raise ValueError("unreachable")


def _str(data, pos, n):
    v, pos = _need(data, pos, n)
    return ("leaf", bytes(v).decode("utf-8", "surrogateescape")), pos


def _arr(data, pos, n):
    out = []
    for _ in range(n):
        x, pos = _dec(data, pos)
        out.append(x)
    return ("arr", out), pos


def _map(data, pos, n):
    out = []
    for _ in range(n):
        a, pos = _dec(data, pos)
        b, pos = _dec(data, pos)
        out.append((a, b))
    return ("map", out), pos


def _ext(data, pos, n):
    h, pos = _need(data, pos, 1)
    v, pos = _need(data, pos, n)
    return ("ext", struct.unpack("b", h)[0], bytes(v)), pos


def decode(data):
    t, pos = _dec(bytes(data), 0)
    if pos != len(data):
        raise ExtraData("unpack(b) received extra data.")
    return t

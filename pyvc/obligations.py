"""Obligations, property packs, verdicts, evidence, replay files, known findings."""
import json
import os
import re
import subprocess
import sys
import time
import traceback

import z3

from . import solver
from .errors import PathEnd, PyRaise, Unsupported
from .models import ASSUMPTIONS

VERIF = os.environ.get("VERIF_DIR", os.path.dirname(os.path.dirname(os.path.abspath(__file__))))
REPO = os.environ.get("PYVC_ROOT", "/repo")
NATIVE_PY = os.environ.get("PYVC_NATIVE_PY", "/venv/bin/python")


class Result:
    """Outcome of one obligation.  status: proved | refuted | undecided | error"""

    def __init__(self, name, status, detail="", seconds=0.0, paths=0, witness=None, backend="z3", mode="paths"):
        self.name, self.status, self.detail, self.seconds, self.paths, self.witness, self.backend, self.mode = name, status, detail, seconds, paths, witness, backend, mode
        self.confirmed = None
        self.native = None

    def as_sample(self):
        d = {"obligation": self.name, "status": self.status, "paths": self.paths, "solver_s": round(self.seconds, 4), "backend": self.backend, "mode": self.mode}
        if self.detail:
            d["detail"] = self.detail[:300]
        return d


class Obligation:
    """A named proof obligation.

    ``run(tier)`` returns a Result (or raises Unsupported -> undecided).
    ``replay`` maps a witness to a native replay request {"call": "<harness function>", "args": {...}} that is
    executed on the real code by /venv/bin/python (replay/run.py); the harness answers {"violates": bool, ...}.
    kind: "proof" (deductive obligation, counted), "bounded" (stated-bound stand-in, never counted as proved),
          "canary" (deliberately false claim that must be refuted), "cross" (engine-vs-CPython conformance sample).
    """

    def __init__(self, name, run, replay=None, kind="proof", functions=(), note="", mode="paths"):
        self.name, self.run, self.replay, self.kind, self.functions, self.note, self.mode = name, run, replay, kind, tuple(functions), note, mode


class Pack:
    """All obligations of one property."""

    def __init__(self, pid, title):
        self.pid, self.title = pid, title
        self.obligations = []
        self.assumptions = []
        self.functions = set()
        self.not_covered = []
        self.case_analyses = []
        self.loop_modes = {}

    def add(self, ob):
        self.obligations.append(ob)
        self.functions.update(ob.functions)
        return ob


def load_known_findings(pid):
    """Lines `finding: property=<id> obligation=<name> ...` or `finding: property=<id> obligations~=<regex> ...`
    (the regex must match the whole obligation name).  Returns dicts with a `matches(name)` predicate."""
    path = os.path.join(VERIF, "known_findings.txt")
    out = []
    if os.path.exists(path):
        for line in open(path):
            line = line.strip()
            if line.startswith("finding:") and re.search(rf"\bproperty={pid}\b", line):
                m = re.search(r"\bobligation=(\S+)", line)
                mr = re.search(r"\bobligations~=(\S+)", line)
                rest = line.split(" ", 3)[-1] if line.count(" ") >= 3 else line
                if mr:
                    rx = re.compile(mr.group(1))
                    pred = lambda n, rx=rx: rx.fullmatch(n) is not None
                elif m:
                    pred = lambda n, nm=m.group(1): n == nm
                else:
                    continue
                out.append({"matches": pred, "text": line, "what": rest})
    return out


def safe_name(name):
    return re.sub(r"[^A-Za-z0-9_.\-]+", "_", name.replace("[]", "_list")).strip("_")


def native_replay(request, timeout=300):
    """Run a replay request on the real code under the repository's own interpreter."""
    env = dict(os.environ)
    env["PYTHONPATH"] = os.pathsep.join([REPO, os.path.join(VERIF, "replay"), VERIF])
    env["PYTHONWARNINGS"] = "ignore"
    env.pop("FLOW_RECORD_TZ", None)
    env.pop("FLOW_RECORD_IGNORE", None)
    try:
        p = subprocess.run([NATIVE_PY, os.path.join(VERIF, "replay", "run.py"), "-"], input=json.dumps(request), capture_output=True, text=True, timeout=timeout, env=env, cwd=VERIF)
        lines = [ln for ln in p.stdout.strip().splitlines() if ln.startswith("{")]
        res = json.loads(lines[-1]) if lines else {"error": (p.stderr or p.stdout)[-800:]}
    except Exception as e:
        res = {"error": repr(e)}
    return res


def native_batch(requests, timeout=900):
    """Several replay requests in one native process (conformance samples, bounded stand-ins)."""
    r = native_replay({"call": "__batch__", "args": {"requests": requests}}, timeout=timeout)
    if "results" in r:
        return r["results"]
    return [dict(r) for _ in requests]


def run_one(ob, tier):
    from . import interp as _interp

    s0, q0 = solver.STATS.time, solver.STATS.queries
    t0 = time.time()
    _interp.EXECUTED_FUNCS.clear()
    _interp.EXECUTED_LINES.clear()
    try:
        r = ob.run(tier)
    except Unsupported as e:
        r = Result(ob.name, "undecided", f"unsupported: {e}")
    except (PyRaise, PathEnd) as e:
        r = Result(ob.name, "undecided", f"harness raised: {e}")
    except Exception:
        r = Result(ob.name, "error", traceback.format_exc()[-900:])
    r.name = ob.name
    r.seconds = solver.STATS.time - s0
    r.wall = time.time() - t0
    r.queries = solver.STATS.queries - q0
    r.mode = ob.mode
    r.ob = ob
    # measured: what this obligation executed symbolically (the sets are emptied in front of every obligation, so the module load is not counted)
    r.exec_funcs, r.exec_lines = set(_interp.EXECUTED_FUNCS), set(_interp.EXECUTED_LINES)
    return r


_POOL_OBS = []


def _worker(i):
    tier, ob = _POOL_OBS[i]
    q0 = dict(solver.STATS.by_backend)
    r = run_one(ob, tier)
    r.ob = None
    r.backends = {k: solver.STATS.by_backend[k] - q0.get(k, 0) for k in solver.STATS.by_backend}
    if r.witness is not None:
        r.witness = _jsonable(r.witness)
    return i, r


def run_pack(pack, tier="quick", seed=0, only=None):
    """Runs every obligation (in a fork pool: obligations are independent; PYVC_JOBS=1 runs them in-process)."""
    t0 = time.time()
    obs = [ob for ob in pack.obligations if not only or re.search(only, ob.name)]
    jobs = int(os.environ.get("PYVC_JOBS") or min(16, os.cpu_count() or 1))
    if jobs <= 1 or len(obs) < 4:
        return [run_one(ob, tier) for ob in obs], time.time() - t0
    import multiprocessing as mp

    _POOL_OBS[:] = [(tier, ob) for ob in obs]
    results = [None] * len(obs)
    with mp.get_context("fork").Pool(jobs) as pool:
        for i, r in pool.imap_unordered(_worker, range(len(obs)), chunksize=1):
            r.ob = obs[i]
            results[i] = r
            solver.STATS.time += r.seconds
            solver.STATS.queries += r.queries
            for k, v in r.backends.items():
                solver.STATS.by_backend[k] = solver.STATS.by_backend.get(k, 0) + v
    return results, time.time() - t0


def executed_report(results):
    """Measured coverage of the source under verification by the DEDUCTIVE obligations of this run: for every function of the package that
    was entered symbolically, how many of its statements were executed on some path of some obligation."""
    import ast

    funcs, lines = set(), set()
    for r in results:
        if r.ob.kind in ("proof", "canary"):
            funcs |= getattr(r, "exec_funcs", set())
            lines |= getattr(r, "exec_lines", set())
    out, trees = {}, {}
    for mod, qual in sorted(funcs):
        if mod not in trees:
            base = os.path.join(REPO, *mod.split("."))
            f = base + ".py" if os.path.isfile(base + ".py") else os.path.join(base, "__init__.py")
            try:
                trees[mod] = ast.parse(open(f).read())
            except Exception:
                trees[mod] = None
        node = trees[mod]
        for part in qual.split("."):
            node = next((n for n in getattr(node, "body", []) if isinstance(n, (ast.FunctionDef, ast.AsyncFunctionDef, ast.ClassDef)) and n.name == part), None) if node is not None else None
        if node is None:
            continue  # nested function / lambda / generated code: counted with its enclosing function's statements
        stmts = {n.lineno for b in node.body for n in ast.walk(b) if isinstance(n, ast.stmt) and not (isinstance(n, ast.Expr) and isinstance(n.value, ast.Constant))}
        hit = {ln for (m, ln) in lines if m == mod and ln in stmts}
        out[f"{mod}:{qual}"] = [len(hit), len(stmts), sorted(stmts - hit)]
    return out


def finish(pack, results, wall, tier, seed, write_evidence=True):
    """Verdict, evidence file, replay files, VIOLATION / KNOWN-FINDING lines. Returns the exit code.

    exit 0: held on everything explored (known findings are reported as KNOWN-FINDING lines)
    exit 1: at least one obligation refuted that is not a listed known finding
    exit 3: checker error (canary not refuted, engine disagrees with CPython, internal error) - no VIOLATION line
    Undecided obligations never map to exit 1.
    """
    pid = pack.pid
    known = load_known_findings(pid)
    is_known = lambda n: any(k["matches"](n) for k in known)
    os.makedirs(os.path.join(VERIF, "evidence"), exist_ok=True)
    rdir = os.path.join(os.environ.get("VERIF_REPLAYS") or os.path.join(VERIF, "replays"), pid)
    os.makedirs(rdir, exist_ok=True)
    violations, lines, exit_code = [], [], 0
    problems = pack.load_problems() if callable(getattr(pack, "load_problems", None)) else []
    if problems:
        # statements of the source under verification that the interpreter could not load: whatever depends on them is undecided,
        # never a violation (the bounded native stand-ins still run on the real code and may report one)
        lines.append(f"UNDECIDED module-load: {len(problems)} statement(s) outside the interpreted subset: {problems[:3]}")
        for r in results:
            if r.ob.kind != "bounded" and r.status != "proved":
                r.status, r.detail = "undecided", f"module load problem {problems[0]}; was: {r.detail[:120]}"
            if r.ob.kind in ("canary", "cross"):
                r.status = "refuted" if r.ob.kind == "canary" else "proved"  # not meaningful on a partially loaded tree
    canaries = [r for r in results if r.ob.kind == "canary"]
    cross = [r for r in results if r.ob.kind == "cross"]
    real = [r for r in results if r.ob.kind == "proof"]
    bounded = [r for r in results if r.ob.kind == "bounded"]
    canary_undecided = False
    for r in canaries:
        if r.status == "undecided":
            # the canary's own code path is outside the interpreted subset on this tree (e.g. after a refactoring): no engine verdict is
            # contradicted, but the vacuity guard is gone; without a confirmed violation this run has no verdict (exit 3)
            lines.append(f"UNDECIDED canary {r.name}: {r.detail[:200]}")
            canary_undecided = True
        elif r.status != "refuted":
            lines.append(f"CHECKER-ERROR canary {r.name} was not refuted ({r.status}) {r.detail[:200]}")
            exit_code = 3
    engine_doubt = False
    for r in cross:
        if r.status != "proved":
            # the symbolic engine disagrees with CPython on this tree: its unconfirmed verdicts are not believed (they become undecided);
            # a refutation whose counterexample replays on the real code stays a violation
            lines.append(f"CHECKER-ERROR engine/CPython conformance {r.name}: {r.status} {r.detail[:300]}")
            engine_doubt = True
    known_hit = []
    for r in real + bounded:
        if r.status == "error":
            lines.append(f"CHECKER-ERROR obligation={r.name} {r.detail[-300:]}")
            exit_code = 3
        elif r.status == "refuted":
            rp = os.path.join(rdir, safe_name(r.name) + ".json")
            native, confirmed, request = None, None, None
            if r.ob.replay is not None and r.witness is not None:
                try:
                    request = r.ob.replay(r.witness)
                    if request is not None:
                        native = native_replay(request)
                        confirmed = bool(native.get("violates")) if "error" not in native else None
                except Exception as e:
                    native = {"error": repr(e)}
            elif r.native is not None:
                native, confirmed, request = r.native, r.confirmed, getattr(r, "request", None)
            r.confirmed, r.native = confirmed, native
            with open(rp, "w") as f:
                json.dump({"property": pid, "obligation": r.name, "kind": r.ob.kind, "status": r.status, "functions": list(r.ob.functions), "solver_output": r.detail, "witness": _jsonable(r.witness),
                           "replay_request": _jsonable(request), "native_replay": native, "confirmed_on_real_code": confirmed, "tier": tier}, f, indent=1, default=str)
            if engine_doubt and not confirmed and r.ob.kind == "proof":
                r.status = "undecided"
                lines.append(f"UNDECIDED obligation={r.name} reason=engine/CPython conformance failed on this tree and the counterexample did not replay; was: {r.detail[:120]}")
                continue
            if is_known(r.name):
                k = [k for k in known if k["matches"](r.name)][0]
                ln = f"KNOWN-FINDING: property={pid} {k['what']}"
                if ln not in lines:
                    lines.append(ln)
                known_hit.append(r.name)
                continue
            tail = "" if confirmed else " no-failing-input-found"
            lines.append(f"VIOLATION property={pid} replay={rp}{tail}")
            violations.append(r)
            if exit_code != 3:
                exit_code = 1
        elif r.status == "undecided":
            lines.append(f"UNDECIDED obligation={r.name} reason={r.detail[:200]}")
    if (engine_doubt or canary_undecided) and not any(r.confirmed for r in violations):
        if exit_code != 3:
            lines.append("CHECKER-ERROR no verdict: the vacuity canary is undecided / the engine disagrees with CPython on this tree and no violation was confirmed on the real code")
        exit_code = 3  # no confirmed violation and an engine whose verdicts cannot be trusted on this tree: no verdict
    if exit_code == 3 and any(r.confirmed for r in violations):
        exit_code = 1  # a violation that replays on the real code stands, whatever else went wrong in this run
    counted = [r for r in real if not is_known(r.name) or r.status == "proved"]
    n_ob = len(counted)
    n_dis = sum(1 for r in counted if r.status == "proved")
    if n_ob == 0 and exit_code == 0:
        lines.append("CHECKER-ERROR zero obligations generated")
        exit_code = 3
    level = "proof" if (n_ob and n_dis == n_ob and exit_code == 0 and not problems) else "other"
    by_status = {}
    for r in real:
        by_status[r.status] = by_status.get(r.status, 0) + 1
    slow = sorted(real, key=lambda r: -getattr(r, "wall", 0))[:5]
    executed = executed_report(results)
    coverage = {
        "obligations": n_ob,
        "discharged": n_dis,
        "checker_cmd": f"./check {pid} --tier {tier}",
        "trusted_base": ["CPython ast module (parser)", "pyvc symbolic interpreter and its encoding of Python semantics (DESIGN.md 2.4; sampled against CPython by the 'cross' obligations)",
                         "z3 5.1.0 (python3-vt); cvc5 for unknowns / thorough re-discharge", "spec functions in /verif/spec and the contract texts in /verif/contracts"] + sorted(f"assumed model: {k}" for k in ASSUMPTIONS),
        "functions_under_contract": sorted(pack.functions),
        "functions_executed": executed,
        "functions_executed_note": f"measured on this run: {len(executed)} functions of the source under verification were entered symbolically by the deductive obligations; "
                                   f"[statements executed on some path, statements of the function, line numbers of the statements no obligation reached]; {sum(1 for a, b, _ in executed.values() if a == b)} of them with every statement reached",
        "source_root": REPO,
        "backends": dict(solver.STATS.by_backend),
        "solver_time_s": round(solver.STATS.time, 3),
        "solver_queries": solver.STATS.queries,
        "cvc5_recheck": (f"VCs proved by z3 were handed to cvc5 as well ({solver.CROSS_QUERY_MS} ms per VC, {solver.CROSS_BUDGET_S:.0f} s per worker process): "
                         + ", ".join(f"{k.split(':')[1]} {v}" for k, v in sorted(solver.STATS.by_backend.items()) if k.startswith("cvc5-recheck:"))
                         + "; agreement is required where cvc5 answers: a refutation by cvc5 is a checker error (exit 3), timeouts / skipped VCs rest on z3 alone" if solver.CROSS else "not in this tier (cvc5 only for z3 unknowns)"),
        "obligation_status": by_status,
        "paths_explored": sum(r.paths for r in real),
        "loop_modes": pack.loop_modes,
        "case_analyses": pack.case_analyses,
        "bounded": [dict(r.as_sample(), note=r.ob.note) for r in bounded],
        "undecided": [r.name for r in real if r.status == "undecided"],
        "known_findings_hit": known_hit,
        "canaries_refuted": sum(1 for r in canaries if r.status == "refuted"),
        "cpython_conformance_samples": sum(getattr(r, "paths", 0) for r in cross),
        "not_covered": pack.not_covered,
        "slowest": [{"obligation": r.name, "wall_s": round(getattr(r, "wall", 0), 2)} for r in slow],
        "samples": [r.as_sample() for r in (real[:10] + [r for r in real if r.status != "proved"][:10])],
        "explanation": f"{n_dis}/{n_ob} obligations discharged deductively by symbolic execution of the real source under {REPO} against sidecar contracts (VCs to z3/cvc5); "
                       f"{len(bounded)} bounded stand-in(s) listed separately and not counted as proved; {len(known_hit)} obligation(s) fail as listed known findings and are excluded from the count",
    }
    ev = {"property_id": pid, "tier": tier, "seed": int(seed), "level": level, "coverage": coverage,
          "assumptions": [f"{k}: {v}" for k, v in sorted(ASSUMPTIONS.items())] + list(pack.assumptions), "wall_s": round(wall, 3), "violations": len(violations)}
    if write_evidence:
        with open(os.path.join(VERIF, "evidence", f"{pid}.json"), "w") as f:
            json.dump(ev, f, indent=1, default=str)
    for ln in lines:
        print(ln)
    print(f"{pid}: {n_dis}/{n_ob} obligations discharged, {len(violations)} violation(s), {len(known_hit)} known finding(s), {len(bounded)} bounded stand-in(s), "
          f"{sum(1 for r in real if r.status == 'undecided')} undecided, {wall:.1f}s [{tier}] exit={exit_code}")
    return exit_code


def _jsonable(w):
    try:
        json.dumps(w)
        return w
    except Exception:
        return repr(w)

"""Control-flow and failure signals of the symbolic interpreter."""


class Unsupported(Exception):
    """The construct / call is outside the interpreted subset: the obligation becomes *undecided*."""


class PathEnd(Exception):
    """The current path is infeasible (both branch directions contradict the path condition)."""


class PyRaise(Exception):
    """A Python exception raised by the interpreted program.

    ``exc`` is either a native exception instance, or a heap object (PObj) of a repository exception class.
    """

    def __init__(self, exc):
        super().__init__(exc)
        self.exc = exc

    @property
    def cls_name(self):
        from .values import PObj

        return self.exc.cls.name if isinstance(self.exc, PObj) else type(self.exc).__name__

    def __str__(self):
        return f"{self.cls_name}: {getattr(self.exc, 'args', '')}"


class ReturnSignal(Exception):
    def __init__(self, value):
        self.value = value


class BreakSignal(Exception):
    pass


class ContinueSignal(Exception):
    pass


class LoopCut(Exception):
    """Invariant mode: control returned to the head of a loop that the obligation cuts after `n` iterations
    (the harness judges the loop invariant on the state reached; see Interp.loop_cut)."""

    def __init__(self, qualname, iterations):
        super().__init__(f"loop of {qualname} cut after {iterations} iteration(s)")
        self.qualname, self.iterations = qualname, iterations

"""Symbolic interpreter over the real Python AST.

* every value has a concrete *type* on each path, contents may be symbolic (values.py)
* paths are enumerated by deterministic replay of decision prefixes (explore/branch)
* Python exceptions are path outcomes (PyRaise)
* whatever is fully concrete is delegated to CPython itself
"""
import ast
import builtins
import collections
import datetime as _dtm
import sys
import functools
import inspect
import itertools
import operator
import os
import pathlib
import string as _string
import types

import z3

from . import solver
from .errors import BreakSignal, ContinueSignal, LoopCut, PathEnd, PyRaise, ReturnSignal, Unsupported
from .values import (
    NativeSuper,
    Opaque,
    PBound,
    PClass,
    PFunc,
    PModule,
    PObj,
    PyVal,
    SBool,
    SBytes,
    BCat,
    is_abstract_bytes,
    SInt,
    SStr,
    StubModule,
    SuperProxy,
    Sym,
    SymDict,
    py_bin,
    py_cmp,
    py_getattr,
    py_none,
    PySeq,
    PyBytes,
    py_of_list,
    py_of_tuple,
    py_of_bool,
    py_of_int,
    py_of_str,
    py_truth,
    py_un,
)

VERIF_DIR = os.path.dirname(os.path.dirname(os.path.abspath(__file__)))
CMP_NAMES = {ast.Eq: "Eq", ast.NotEq: "NotEq", ast.Lt: "Lt", ast.LtE: "LtE", ast.Gt: "Gt", ast.GtE: "GtE", ast.In: "In", ast.NotIn: "NotIn", ast.Is: "Is", ast.IsNot: "IsNot"}
RICH = {"Eq": ("__eq__", "__eq__"), "NotEq": ("__ne__", "__ne__"), "Lt": ("__lt__", "__gt__"), "Gt": ("__gt__", "__lt__"), "LtE": ("__le__", "__ge__"), "GtE": ("__ge__", "__le__")}
NATIVE_CMP = {"Eq": operator.eq, "NotEq": operator.ne, "Lt": operator.lt, "LtE": operator.le, "Gt": operator.gt, "GtE": operator.ge}
BINOPS = {ast.Add: ("Add", operator.add, "__add__", "__radd__"), ast.Sub: ("Sub", operator.sub, "__sub__", "__rsub__"), ast.Mult: ("Mult", operator.mul, "__mul__", "__rmul__"),
          ast.Div: ("Div", operator.truediv, "__truediv__", "__rtruediv__"), ast.FloorDiv: ("FloorDiv", operator.floordiv, "__floordiv__", "__rfloordiv__"),
          ast.Mod: ("Mod", operator.mod, "__mod__", "__rmod__"), ast.Pow: ("Pow", operator.pow, "__pow__", "__rpow__"),
          ast.BitAnd: ("BitAnd", operator.and_, "__and__", "__rand__"), ast.BitOr: ("BitOr", operator.or_, "__or__", "__ror__"), ast.BitXor: ("BitXor", operator.xor, "__xor__", "__rxor__"),
          ast.LShift: ("LShift", operator.lshift, "__lshift__", "__rlshift__"), ast.RShift: ("RShift", operator.rshift, "__rshift__", "__rrshift__")}
NOTIMPL = NotImplemented
SHAPE_ONLY = (dict, list, tuple, set, frozenset, collections.OrderedDict, collections.ChainMap, zip, enumerate, reversed, itertools.zip_longest, itertools.chain, iter, next, len)


class Env(dict):
    """Local namespace of a function activation, chained to the enclosing function's namespace (closures)."""

    def __init__(self, parent=None):
        super().__init__()
        self.parent = parent
        self.globals_declared = set()

    def lookup(self, name):
        e = self
        while e is not None:
            if dict.__contains__(e, name):
                return True, dict.__getitem__(e, name)
            e = e.parent
        return False, None


def strip_eval_locals(env):
    """the chain of namespaces without the `locals` mapping handed to eval() (see eval_comprehension)"""
    if not isinstance(env, Env):
        return env
    layers, e = [], env
    while e is not None:
        layers.append(e)
        e = e.parent
    if not any(getattr(x, "eval_locals", False) for x in layers):
        return env
    out = None
    for x in reversed(layers):
        if getattr(x, "eval_locals", False):
            continue
        n = Env(out)
        n.update(x)
        n.globals_declared = x.globals_declared
        if getattr(x, "func", None) is not None:
            n.func = x.func
        out = n
    return out if out is not None else Env(None)


class ExcHandle:
    """What ``except X as e`` binds for native exceptions created with symbolic arguments."""


class GenKill(BaseException):
    """Unwinds the producer thread of a generator that is abandoned by its consumer."""


def is_model_object(v):
    """an object of one of the engine's models (abstract file, packed value, JSON text, ...): an operation the model does not define is a gap of the
    model, never an error of the interpreted program"""
    t = type(v)
    return t.__module__.startswith("pyvc.models") or t.__name__ in ("BCat",)


class GenList:
    """The value of a generator expression: LAZY, like the generator it stands for - each element is computed (with its side effects and errors) when the
    consumer asks for it; a consumer that stops early (any / all / next, a list.extend that fails half way) leaves the rest unevaluated."""

    def __init__(self, gen):
        self.gen = gen

    def __iter__(self):
        return self

    def __next__(self):
        return next(self.gen)

    def close(self):
        self.gen.close()


class LazyGen:
    """A generator object of an interpreted generator function.

    Python generators are lazy and their side effects interleave with the consumer's; the interpreter is a recursive evaluator, so the
    producer runs in its own thread that strictly alternates with the consumer (never concurrently): `next()` resumes it up to the next yield."""

    def __init__(self, it, f, env):
        import threading

        self.it, self.f, self.env = it, f, env
        self.thread = None
        self.resume_evt, self.yield_evt = threading.Event(), threading.Event()
        self.value, self.exc, self.finished, self.done, self.killed = None, None, False, False, False
        self.produced = []
        it.live_gens.append(self)

    def __iter__(self):
        return self

    def __next__(self):
        import threading

        if self.done:
            raise StopIteration
        self.it.stack.append(self.f.qualname)  # the generator body runs (in its own, strictly alternating thread) as a frame of this function
        if self.thread is None:
            self.thread = threading.Thread(target=self._run, daemon=True)
            self.thread.start()
        else:
            self.resume_evt.set()
        self.yield_evt.wait()
        self.yield_evt.clear()
        self.it.stack.pop()
        if self.exc is not None:
            self.done = True
            e, self.exc = self.exc, None
            if isinstance(e, PyRaise):
                e.partial_yield = list(self.produced)
            raise e
        if self.finished:
            self.done = True
            raise StopIteration
        self.produced.append(self.value)
        return self.value

    def _run(self):
        import sys

        sys.setrecursionlimit(20000)
        try:
            self.it.block(self.f.node.body, self.env, self.f.mod)
        except (ReturnSignal, GenKill):
            pass
        except BaseException as e:  # PyRaise / Unsupported / PathEnd travel to the consumer
            self.exc = e
        self.finished = True
        self.yield_evt.set()

    def emit(self, v):
        self.value = v
        self.yield_evt.set()
        self.resume_evt.wait()
        self.resume_evt.clear()
        if self.killed:
            raise GenKill()
        if getattr(self, "throw_exc", None) is not None:
            e, self.throw_exc = self.throw_exc, None
            raise PyRaise(e)  # generator.throw(): the exception is raised at the yield

    def close(self):
        if self.thread is not None and self.thread.is_alive() and not self.finished:
            self.killed = True
            self.resume_evt.set()
            self.thread.join(5)
        self.done = True


class CtxManager:
    """What a @contextmanager function returns: __enter__ runs the generator to its yield, __exit__ resumes it (throwing the exception in)."""

    def __init__(self, it, gen):
        self.it, self.gen = it, gen

    def __enter__(self):
        try:
            return next(self.gen)
        except StopIteration:
            raise PyRaise(RuntimeError("generator didn't yield"))

    def __exit__(self, typ, exc, tb):
        if exc is None:
            try:
                next(self.gen)
            except StopIteration:
                return False
            raise PyRaise(RuntimeError("generator didn't stop"))
        self.gen.throw_exc = exc
        try:
            next(self.gen)
        except StopIteration:
            return True  # the generator swallowed the exception
        except PyRaise as e:
            if e.exc is exc:
                return False
            raise
        raise PyRaise(RuntimeError("generator didn't stop after throw()"))


class PathResult:
    def __init__(self, pc, kind, value, events, writes, approx=()):
        self.pc, self.kind, self.value, self.events, self.writes, self.approx = pc, kind, value, events, writes, list(approx)

    def __repr__(self):
        return f"<path {self.kind} {self.value!r} |pc|={len(self.pc)}>"


# classes, functions and modules of the interpreted program are dictionary keys by identity (they define neither __eq__ nor __hash__)
IDENTITY_KEYS = (PClass, PFunc, PModule)

# measured on every run: which functions / statements of the source under verification were executed symbolically (evidence: functions_executed)
EXECUTED_FUNCS = set()
EXECUTED_LINES = set()


class Interp:
    def __init__(self, loader):
        self.loader = loader
        loader.interp = self
        self.contracts = {}  # qualname -> fn(interp, pfunc, args, kwargs)
        self.models = {}  # native callable -> fn(interp, *args, **kwargs)
        self.attr_models = []  # fn(interp, obj, name) -> value or NOTIMPL   (methods of symbolic values)
        self.events = []
        self.writes = []
        self.allocs = []
        self.depth = 0
        self.max_depth = 120
        self.loop_limit = 200
        self.loop_cut = {}  # function qualname -> number of iterations after which its `while` loop is cut (invariant mode)
        self.pc, self.dec, self.pos, self.work = [], [], 0, []
        self.stack = []
        self.trace_calls = False
        self.approx = []  # over-approximations used on the current path (uninterpreted string functions, opaque results)
        self.live_gens = []
        self.memo_obj_funcs = []
        self.native_method_models = {}  # (native base class, method name) -> model(it, obj, *args): methods an interpreted class inherits from a standard-library class
        from .models import install_all

        install_all(self)

    # ------------------------------------------------------------------ paths
    def explore(self, thunk, max_paths=4000):
        """Run ``thunk`` on every feasible path. Returns a list of PathResult."""
        work, results = [[]], []
        while work:
            if len(results) >= max_paths:
                raise Unsupported("path budget exhausted")
            prefix = work.pop()
            self.pc, self.dec, self.pos, self.work = [], list(prefix), 0, work
            self.events, self.writes, self.allocs, self.depth, self.stack, self.approx = [], [], [], 0, [], []
            for f_ in self.memo_obj_funcs:  # caches keyed by interpreted objects start empty on every path (the objects of other paths are gone)
                f_.__dict__["memo_obj"] = []
            try:
                v = thunk()
                results.append(PathResult(list(self.pc), "return", v, list(self.events), list(self.writes), self.approx))
            except PyRaise as e:
                results.append(PathResult(list(self.pc), "raise", e.exc, list(self.events), list(self.writes), self.approx))
            except LoopCut as e:
                results.append(PathResult(list(self.pc), "cut", e, list(self.events), list(self.writes), self.approx))
            except PathEnd:
                continue
            finally:
                for g in self.live_gens:
                    g.close()
                self.live_gens = []
        return results

    def branch(self, cond):
        """Decide a symbolic condition on this path (forks the exploration when both sides are feasible)."""
        if isinstance(cond, bool):
            return cond
        simp = z3.simplify(cond)  # only to recognise trivial conditions: the simplifier rewrites regex memberships
        if z3.is_true(simp):        # back into PrefixOf/equalities, which takes VCs out of the pure-InRe fragment
            return True
        if z3.is_false(simp):
            return False
        if self.pos < len(self.dec):
            d = self.dec[self.pos]
        else:
            can_t = solver.feasible(self.pc + [cond])
            # the path condition itself is feasible (it was when the last decision was taken), so if `cond` cannot hold its negation can
            can_f = solver.feasible(self.pc + [z3.Not(cond)]) if can_t else True
            if can_t and can_f:
                d = True
                self.work.append(self.dec[: self.pos] + [False])
            elif can_t:
                d = True
            elif can_f:
                d = False
            else:
                raise PathEnd()
            self.dec.append(d)
        self.pos += 1
        self.pc.append(cond if d else z3.Not(cond))
        return d

    def assume(self, cond):
        self.pc.append(cond)

    def split_values(self, term, limit=64):
        """Case split on a symbolic string/int whose path condition leaves finitely many (<= limit) values.
        Returns the concrete value on this path (forking one path per value), or None when the domain is not finite.
        String equalities are emitted as regex memberships (keeps the path condition in the pure InRe fragment)."""
        is_str = term.sort() == z3.StringSort()
        eq = (lambda v: z3.InRe(term, z3.Re(v))) if is_str else (lambda v: term == v)
        py = lambda v: solver.zs(v) if z3.is_string_value(v) else v.as_long()
        key = (term.get_id(), tuple(c.get_id() for c in self.pc))
        cache = self.__dict__.setdefault("_split_cache", {})
        if key not in cache:
            vals, blocks = [], []
            cache[key] = (None, term)  # (keeps the term alive so that its id is not reused)
            while len(vals) <= limit:
                r, m, _ = solver.check(self.pc + blocks, timeout_ms=5000, want_model=True)
                if r == "unsat":
                    break
                if r != "sat":
                    return None
                v = m.eval(term, model_completion=True)
                vals.append(v)
                blocks.append(z3.Not(eq(v)))
            else:
                return None
            if len(vals) > limit or not vals:
                return None
            cache[key] = (vals, term, list(self.pc))
        vals = cache[key][0]
        if vals is None:
            return None
        for v in vals[:-1]:
            if self.branch(eq(v)):
                return py(v)
        self.pc.append(eq(vals[-1]))
        return py(vals[-1])

    def require(self, cond, exc):
        """Builtin precondition: the path on which it fails raises ``exc`` (a native exception instance)."""
        if not self.branch(cond):
            raise PyRaise(exc)

    def event(self, *e):
        self.events.append(e + (self.stack[-1] if self.stack else None,))

    # ------------------------------------------------------------------ helpers on values
    def concrete(self, v):
        if isinstance(v, (Sym, PObj, PFunc, PBound, PClass, SuperProxy, NativeSuper, SymDict, StubModule, PModule)):
            return False
        if isinstance(v, (tuple, list, set, frozenset)):
            return all(self.concrete(x) for x in v)
        if isinstance(v, dict):
            return all(self.concrete(x) for x in v.values()) and all(self.concrete(k) for k in v.keys())
        return True

    def unbase(self, v):
        return v.base if isinstance(v, PObj) and v.has_base else v

    def zint(self, v):
        v = self.unbase(v)
        if isinstance(v, SInt):
            return v.t
        if isinstance(v, SBool):
            return z3.If(v.t, 1, 0)
        if isinstance(v, bool):
            return z3.IntVal(int(v))
        if isinstance(v, int):
            return z3.IntVal(v)
        return None

    def zstr(self, v):
        v = self.unbase(v)
        if isinstance(v, SStr):
            return v.t
        if isinstance(v, str):
            try:
                return z3.StringVal(v)
            except Exception:
                return None
        return None

    def zbool(self, v):
        if isinstance(v, SBool):
            return v.t
        if isinstance(v, bool):
            return z3.BoolVal(v)
        return None

    def pyval(self, v):
        """PyVal term of a value (for uninterpreted reasoning / storing in symbolic containers)."""
        if isinstance(v, Opaque):
            return v.t
        if isinstance(v, SBool):
            return py_of_bool(v.t)
        if isinstance(v, bool):
            return py_of_bool(z3.BoolVal(v))
        if v is None:
            return py_none
        zi = self.zint(v) if not isinstance(v, PObj) else None
        if zi is not None:
            return py_of_int(zi)
        zs = self.zstr(v) if not isinstance(v, PObj) else None
        if zs is not None:
            return py_of_str(zs)
        if isinstance(v, (list, tuple)) and type(v) in (list, tuple):
            units = [z3.Unit(self.pyval(x)) for x in v]
            seq = z3.Empty(PySeq) if not units else units[0] if len(units) == 1 else z3.Concat(*units)
            return (py_of_list if isinstance(v, list) else py_of_tuple)(seq)
        return self.identity_term(v)

    _ident = {}

    def identity_term(self, v):
        key = id(v)
        if key not in Interp._ident:
            name = v.cls.name if isinstance(v, PObj) else type(v).__name__
            Interp._ident[key] = (z3.Const(f"obj_{name}_{len(Interp._ident)}", PyVal), v)
        return Interp._ident[key][0]

    def type_name(self, v):
        if isinstance(v, PObj):
            return v.cls.name
        if isinstance(v, SInt):
            return "int"
        if isinstance(v, SBool):
            return "bool"
        if isinstance(v, SStr):
            return "str"
        if isinstance(v, SBytes):
            return "bytes"
        if isinstance(v, Opaque):
            return "object"
        return type(v).__name__

    def raise_(self, exc_type, *args):
        raise PyRaise(exc_type(*[a if self.concrete(a) else "<symbolic>" for a in args]))

    # ------------------------------------------------------------------ truth / comparison / arithmetic (data model)
    def truth(self, v):
        if isinstance(v, SBool):
            return self.branch(v.t)
        if isinstance(v, SInt):
            return self.branch(v.t != 0)
        if isinstance(v, SStr):
            return self.branch(z3.InRe(v.t, z3.Plus(z3.AllChar(z3.ReSort(z3.StringSort())))))  # non-empty, as a regex membership
        if isinstance(v, SBytes):
            if v.length is None:
                raise Unsupported("truth of abstract bytes")
            return self.branch(v.length > 0)
        if isinstance(v, Opaque):
            return self.branch(py_truth(v.t))
        if isinstance(v, PObj):
            f = v.cls.find("__bool__")
            if isinstance(f, PFunc):
                return self.truth(self.call(PBound(f, v), [], {}))
            f = v.cls.find("__len__")
            if isinstance(f, PFunc):
                r = self.call(PBound(f, v), [], {})
                zi = self.zint(r)
                return self.branch(zi != 0) if not self.concrete(r) else r != 0
            if v.has_base:
                return self.truth(v.base)
            return True
        if isinstance(v, SymDict):
            raise Unsupported("truth of symbolic dict")
        if isinstance(v, (PClass, PFunc, PBound, PModule, StubModule, SuperProxy)):
            return True
        return bool(v)

    def rich_one(self, a, meth, b):
        """type(a).<meth>(a, b) following the data model; NOTIMPL when absent or declined."""
        if isinstance(a, PObj):
            f = a.cls.find(meth)
            if isinstance(f, PFunc):
                return self.call(PBound(f, a), [b], {})
            if a.has_base:
                return self.rich_one(a.base, meth, self.unbase(b) if isinstance(b, PObj) and b.has_base and not b.cls.find(RICH_REFLECT.get(meth, meth)) else b)
            if meth == "__eq__":
                return True if a is b else NOTIMPL
            if meth == "__ne__":
                r = self.rich_one(a, "__eq__", b)
                return NOTIMPL if r is NOTIMPL else (not self.truth(r))
            return NOTIMPL
        if isinstance(a, Opaque):
            raise Unsupported("rich comparison dispatch on opaque value")
        za, zb = self.zint(a), self.zint(b)
        if za is not None and isinstance(a, (SInt, SBool, int)):
            if zb is None or isinstance(b, PObj) and not b.has_base:
                return NOTIMPL
            t = {"__eq__": za == zb, "__ne__": za != zb, "__lt__": za < zb, "__gt__": za > zb, "__le__": za <= zb, "__ge__": za >= zb}[meth]
            return SBool(t)
        sa, sb = self.zstr(a), self.zstr(b)
        if isinstance(a, (SStr, str)) and sa is not None:
            if sb is None or not isinstance(self.unbase(b), (SStr, str)):
                return NOTIMPL
            if meth in ("__eq__", "__ne__"):
                # equality with a constant is emitted as regex membership: keeps string VCs in the pure InRe fragment
                ca, cb = self.concrete(a), self.concrete(self.unbase(b))
                if ca != cb:
                    from .models.strings import eq_const

                    var, const = (self.unbase(b), self.unbase(a)) if ca else (self.unbase(a), self.unbase(b))
                    t = eq_const(self, var, const)
                else:
                    t = sa == sb
                return SBool(t if meth == "__eq__" else z3.Not(t))
            if self.concrete(a) and self.concrete(b):
                return getattr(a, meth)(self.unbase(b))
            raise Unsupported("ordering of symbolic strings")
        if isinstance(a, SBytes):
            if isinstance(b, SBytes):
                if meth == "__eq__":
                    return SBool(a.t == b.t)
                if meth == "__ne__":
                    return SBool(a.t != b.t)
            return NOTIMPL
        if isinstance(a, (tuple, list)) and type(a) is type(self.unbase(b)) and meth in ("__eq__", "__ne__"):
            b = self.unbase(b)
            if len(a) != len(b):
                return meth == "__ne__"
            conj = []
            for x, y in zip(a, b):
                if x is y and not isinstance(x, Sym):
                    continue  # PyObject_RichCompareBool: identical elements are equal without calling __eq__ (a NaN in a tuple equals itself)
                r = self.compare("Eq", x, y)
                if isinstance(r, SBool):
                    conj.append(r.t)
                elif isinstance(r, Opaque):
                    conj.append(py_truth(r.t))
                elif not self.truth(r):
                    return meth == "__ne__"
            t = z3.And(conj) if conj else z3.BoolVal(True)
            return SBool(t if meth == "__eq__" else z3.Not(t))
        # concrete native left operand, right operand not native-comparable
        if self.concrete(a):
            bb = self.unbase(b)
            if self.concrete(bb) and not isinstance(b, PObj):
                try:
                    r = getattr(type(a), meth)(a, bb)
                except Exception as e:
                    raise PyRaise(e)
                return r
            if self.concrete(bb) and isinstance(b, PObj):
                try:
                    r = getattr(type(a), meth)(a, bb) if b.has_base else NOTIMPL
                except Exception as e:
                    raise PyRaise(e)
                return r
            return NOTIMPL
        return NOTIMPL

    def compare(self, op, a, b):
        if op == "Is":
            return self.identical(a, b)
        if op == "IsNot":
            r = self.identical(a, b)
            return SBool(z3.Not(r.t)) if isinstance(r, SBool) else not r
        if op in ("In", "NotIn"):
            r = self.contains(b, a)
            if op == "In":
                return r
            if isinstance(r, SBool):
                return SBool(z3.Not(r.t))
            if isinstance(r, Opaque):
                return SBool(z3.Not(py_truth(r.t)))
            return not self.truth(r)
        if isinstance(a, Opaque) or isinstance(b, Opaque):
            if isinstance(a, PObj) and not a.has_base or isinstance(b, PObj) and not b.has_base:
                pass  # heap object vs opaque: dispatch through the heap object's method below when it is the left operand
            else:
                return Opaque("cmp", py_cmp(z3.StringVal(op), self.pyval(a), self.pyval(b)))
        if self.concrete(a) and self.concrete(b):
            try:
                return NATIVE_CMP[op](a, b)
            except Exception as e:
                raise PyRaise(e)
        m, rm = RICH[op]
        # reflected method first when type(b) is a proper subclass of type(a) that overrides it
        first, second = (a, m, b), (b, rm, a)
        if isinstance(a, PObj) and isinstance(b, PObj) and b.cls is not a.cls and a.cls in b.cls.mro() and b.cls.find(rm) is not a.cls.find(rm):
            first, second = second, first
        r = self.rich_one(*first) if not isinstance(first[0], Opaque) else NOTIMPL
        if r is NOTIMPL:
            if isinstance(second[0], Opaque):
                return Opaque("cmp", py_cmp(z3.StringVal(op), self.pyval(a), self.pyval(b)))
            r = self.rich_one(*second)
        if r is NOTIMPL:
            if op == "Eq":
                return self.identical(a, b)
            if op == "NotEq":
                r = self.identical(a, b)
                return SBool(z3.Not(r.t)) if isinstance(r, SBool) else not r
            raise PyRaise(TypeError(f"'{SYMBOL[op]}' not supported between instances of '{self.type_name(a)}' and '{self.type_name(b)}'"))
        return r

    def identical(self, a, b):
        if isinstance(a, Opaque) and isinstance(b, Opaque):
            return SBool(a.t == b.t)
        if isinstance(a, Opaque) or isinstance(b, Opaque):
            o, x = (a, b) if isinstance(a, Opaque) else (b, a)
            if x is None:
                return SBool(o.t == py_none)
            if isinstance(x, PObj):
                return SBool(o.t == self.identity_term(x))
            return SBool(o.t == self.pyval(x))
        if isinstance(a, SBool) and isinstance(b, (SBool, bool)) or isinstance(b, SBool) and isinstance(a, bool):
            return SBool(self.zbool(a) == self.zbool(b))
        return a is b

    def contains(self, container, item):
        if isinstance(container, SymDict):
            from .models.containers import present

            return SBool(present(container, self.dict_key(item)))
        if isinstance(container, PObj):
            f = container.cls.find("__contains__")
            if isinstance(f, PFunc):
                r = self.call(PBound(f, container), [item], {})
                return r if isinstance(r, (SBool, bool)) else self.truth(r)
            if container.has_base:
                return self.contains(container.base, item)
            f = container.cls.find("__iter__")
            if isinstance(f, PFunc):
                return self.contains(self.iterate(container), item)
            raise PyRaise(TypeError(f"argument of type '{container.cls.name}' is not iterable"))
        if isinstance(container, Opaque) or (isinstance(item, Opaque) and not isinstance(container, (list, tuple, set, frozenset, dict))):
            # `in` always yields a bool (PySequence_Contains): an uninterpreted predicate, not an arbitrary object
            return SBool(py_truth(py_cmp(z3.StringVal("In"), self.pyval(item), self.pyval(container))))
        if isinstance(container, dict) and isinstance(item, PObj) and not item.has_base:
            self.hash_(item)
            return self.find_key(container, item) is not PClass.MISSING
        if isinstance(container, (set, frozenset, dict, collections.abc.KeysView, collections.ChainMap)):
            self.hash_(item)
        if isinstance(container, LazyGen):
            for x in container:  # membership in an iterator: elements are produced (and compared) one at a time
                if x is item or self.truth(self.compare("Eq", x, item)):
                    return True
            return False
        if isinstance(container, (list, tuple, set, frozenset, dict, collections.abc.KeysView, collections.ChainMap, collections.abc.ValuesView)):
            if self.concrete(item) and self.concrete(list(container)):
                try:
                    return item in container
                except Exception as e:
                    raise PyRaise(e)
            disj = []
            for x in list(container):
                if x is item:
                    return True
                r = self.compare("Eq", x, item)
                if isinstance(r, SBool):
                    disj.append(r.t)
                elif isinstance(r, Opaque):
                    disj.append(py_truth(r.t))
                elif self.truth(r):
                    return True
            return SBool(z3.Or(disj)) if disj else False
        sc, si = self.zstr(container), self.zstr(item)
        if sc is not None and isinstance(self.unbase(container), (str, SStr)):
            if si is None or not isinstance(self.unbase(item), (str, SStr)):
                raise PyRaise(TypeError(f"'in <string>' requires string as left operand, not {self.type_name(item)}"))
            if self.concrete(container) and self.concrete(item):
                return self.unbase(item) in self.unbase(container)
            return SBool(z3.Contains(sc, si))
        if self.concrete(container) and self.concrete(self.unbase(item)):
            try:
                return self.unbase(item) in container
            except Exception as e:
                raise PyRaise(e)
        if isinstance(self.unbase(container), (bytes, SBytes)) and not isinstance(self.unbase(item), (bytes, SBytes, int, SInt)):
            raise PyRaise(TypeError(f"a bytes-like object is required, not '{self.type_name(item)}'"))
        if isinstance(container, (SInt, SBool)) or container is None or isinstance(container, (int, float)):
            raise PyRaise(TypeError(f"argument of type '{self.type_name(container)}' is not iterable"))
        raise Unsupported(f"membership in {container!r}")

    def binop(self, opnode, a, b):
        name, native, meth, rmeth = BINOPS[type(opnode)]
        if (is_model_object(self.unbase(a)) or is_model_object(self.unbase(b))) and not (name == "Add"):
            ma, mb = self.unbase(a), self.unbase(b)
            if not (hasattr(type(ma), meth) or hasattr(type(mb), rmeth)):
                raise Unsupported(f"operator {name} on a model object ({type(ma).__name__}, {type(mb).__name__})")
        if name == "Add":
            ua, ub = self.unbase(a), self.unbase(b)
            if (is_abstract_bytes(ua) or is_abstract_bytes(ub)) and all(is_abstract_bytes(x) or isinstance(x, (bytes, bytearray)) for x in (ua, ub)):
                return BCat([ua, ub])  # concatenation of byte strings, at least one of them abstract
        if self.concrete(a) and self.concrete(b):
            try:
                return native(a, b)
            except Exception as e:
                raise PyRaise(e)
        for x, m, y in ((a, meth, b), (b, rmeth, a)):
            if isinstance(x, PObj):
                f = x.cls.find(m)
                if isinstance(f, PFunc):
                    r = self.call(PBound(f, x), [y], {})
                    if r is not NOTIMPL:
                        return r
        ua, ub = self.unbase(a), self.unbase(b)
        if self.concrete(ua) and self.concrete(ub) and not isinstance(ua, (PObj, PClass)) and not isinstance(ub, (PObj, PClass)):
            try:
                return native(ua, ub)
            except Exception as e:
                raise PyRaise(e)
        if isinstance(ua, Opaque) or isinstance(ub, Opaque):
            return Opaque("bin", py_bin(z3.StringVal(name), self.pyval(ua), self.pyval(ub)))
        if isinstance(ua, (SBool, bool)) and isinstance(ub, (SBool, bool)) and name in ("BitAnd", "BitOr", "BitXor"):
            za, zb = self.zbool(ua), self.zbool(ub)
            return SBool({"BitAnd": z3.And(za, zb), "BitOr": z3.Or(za, zb), "BitXor": z3.Xor(za, zb)}[name])
        za, zb = self.zint(ua), self.zint(ub)
        if za is not None and zb is not None:
            if name == "Add":
                return SInt(za + zb)
            if name == "Sub":
                return SInt(za - zb)
            if name == "Mult":
                return SInt(za * zb)
            if name in ("FloorDiv", "Mod"):
                self.require(zb != 0, ZeroDivisionError("integer division or modulo by zero"))
                # z3 div/mod are Euclidean (remainder >= 0); Python floors: identical for positive divisors,
                # and for negative divisors a // b == (-a) // (-b),  a % b == -((-a) % (-b))
                if name == "FloorDiv":
                    return SInt(z3.If(zb > 0, za / zb, (-za) / (-zb)))
                return SInt(z3.If(zb > 0, za % zb, -((-za) % (-zb))))
            if name in ("BitAnd", "BitOr", "BitXor", "LShift", "RShift", "Pow"):
                f = z3.Function(f"int_{name}", z3.IntSort(), z3.IntSort(), z3.IntSort())  # deterministic, otherwise uninterpreted
                self.approx.append(f"int {name}")
                return SInt(f(za, zb))
            if name == "Div":
                self.require(zb != 0, ZeroDivisionError("division by zero"))
                self.approx.append("int /")
                return Opaque("div", py_bin(z3.StringVal("Div"), py_of_int(za), py_of_int(zb)))
            raise Unsupported(f"symbolic integer operator {name}")
        sa, sb = self.zstr(ua), self.zstr(ub)
        if sa is not None and sb is not None and name == "Add" and isinstance(ua, (str, SStr)) and isinstance(ub, (str, SStr)):
            return SStr(z3.Concat(sa, sb))
        if isinstance(ua, (tuple, list)) and isinstance(ub, type(ua)) and name == "Add":
            return ua + ub
        if isinstance(ua, str) and name == "Mod":
            raise Unsupported("%-formatting with symbolic operands")
        if is_model_object(ua) or is_model_object(ub):
            raise Unsupported(f"operator {name} on a model object ({type(ua).__name__}, {type(ub).__name__})")
        raise PyRaise(TypeError(f"unsupported operand type(s) for {name}: '{self.type_name(a)}' and '{self.type_name(b)}'"))

    def unop(self, opnode, v):
        if isinstance(opnode, ast.Not):
            if isinstance(v, SBool):
                return SBool(z3.Not(v.t))
            if isinstance(v, Opaque):
                return SBool(z3.Not(py_truth(v.t)))
            return not self.truth(v)
        if isinstance(v, PObj) and v.has_base and not any(isinstance(v.cls.find(m), PFunc) for m in ("__neg__", "__pos__", "__invert__")):
            v = v.base
        if self.concrete(v):
            try:
                return {ast.USub: operator.neg, ast.UAdd: operator.pos, ast.Invert: operator.invert}[type(opnode)](v)
            except Exception as e:
                raise PyRaise(e)
        zi = self.zint(v)
        if zi is not None and isinstance(opnode, ast.USub):
            return SInt(-zi)
        if isinstance(v, Opaque):
            return Opaque("un", py_un(z3.StringVal(type(opnode).__name__), v.t))
        raise Unsupported(f"unary {type(opnode).__name__} on {v!r}")

    def hash_(self, v):
        """hash(v): raises TypeError for unhashable values, otherwise an abstract hash value whose term is a *function of the value*
        (equal values give equal terms by congruence; nothing else is assumed about hashes)."""
        py_hash = z3.Function("py_hash", PyVal, PyVal)
        if isinstance(v, (list, dict, set, bytearray)):
            raise PyRaise(TypeError(f"unhashable type: '{type(v).__name__}'"))
        if isinstance(v, tuple):
            units = []
            for x in v:
                h = self.hash_(x)
                units.append(z3.Unit(h.t if isinstance(h, Opaque) else self.pyval(h)))
            seq = z3.Empty(PySeq) if not units else units[0] if len(units) == 1 else z3.Concat(*units)
            return Opaque("hash", py_hash(py_of_tuple(seq)))
        if isinstance(v, PObj):
            if v.cls.has("__hash__"):
                h = v.cls.find("__hash__")
                if h is None:
                    raise PyRaise(TypeError(f"unhashable type: '{v.cls.name}'"))
                if isinstance(h, PFunc):
                    return self.call(PBound(h, v), [], {})
            # __eq__ defined in a class body without __hash__ disables hashing for that class
            for c in v.cls.mro():
                if "__hash__" in c.d:
                    break
                if "__eq__" in c.d:
                    raise PyRaise(TypeError(f"unhashable type: '{v.cls.name}'"))
            if v.has_base:
                return self.hash_(v.base)
            return Opaque("hash", py_hash(self.identity_term(v)))
        if isinstance(v, frozenset):
            hs = []
            for x in v:
                self.hash_(x)
            if self.concrete(v):
                return Opaque("hash", py_hash(py_of_int(z3.IntVal(hash(v)))))
            raise Unsupported("hash of a frozenset with symbolic elements")
        if isinstance(v, (SInt, SBool)) or isinstance(v, (bool, int)):
            return Opaque("hash", py_hash(py_of_int(self.zint(v))))  # hash(True) == hash(1): bool and int hash by numeric value
        if isinstance(v, float) and v == v and v not in (float("inf"), float("-inf")) and v == int(v):
            return Opaque("hash", py_hash(py_of_int(z3.IntVal(int(v)))))  # hash(1.0) == hash(1)
        if isinstance(v, (SStr, str)) and self.zstr(v) is not None:
            return Opaque("hash", py_hash(py_of_str(self.zstr(v))))
        if v is None:
            return Opaque("hash", py_hash(py_none))
        if isinstance(v, Opaque):
            return Opaque("hash", py_hash(v.t))
        if self.concrete(v):
            try:
                return Opaque("hash", py_hash(py_of_int(z3.IntVal(hash(v)))))
            except Exception as e:
                raise PyRaise(e)
        if isinstance(v, SBytes):
            return Opaque("hash", py_hash(z3.Function("py_of_bytes", PyBytes, PyVal)(v.t)))
        return Opaque("hash")

    def dict_key(self, k):
        from .models.containers import key_term

        return key_term(self, k)

    # ------------------------------------------------------------------ iteration
    def iterate(self, v):
        if isinstance(v, PObj):
            f = v.cls.find("__iter__")
            if isinstance(f, PFunc):
                return self.iterate(self.call(PBound(f, v), [], {}))
            if v.has_base:
                return self.iterate(v.base)
            raise PyRaise(TypeError(f"'{v.cls.name}' object is not iterable"))
        if isinstance(v, LazyGen):
            return v
        if isinstance(v, (Sym, SymDict)):
            raise Unsupported(f"iteration over symbolic {v!r}")
        if isinstance(v, (PClass, PFunc, PBound)) or v is None:
            raise PyRaise(TypeError(f"'{self.type_name(v)}' object is not iterable"))
        if hasattr(v, "__next__") and not isinstance(v, (list, tuple, dict, set, str, bytes)):
            # a native iterator (enumerate / islice / zip / map over a generator of the interpreted program): consumed lazily, element by element, so
            # that the producer's side effects interleave with the loop body as they do in CPython
            return v
        try:
            return list(v)
        except TypeError as e:
            raise PyRaise(e)

    # ------------------------------------------------------------------ attribute protocol
    def mangle(self, name, env):
        if name.startswith("__") and not name.endswith("__"):
            found, c = env.lookup("__class__") if isinstance(env, Env) else (("__class__" in env), env.get("__class__"))
            if found and isinstance(c, PClass):
                return f"_{c.name.lstrip('_')}{name}"
        return name

    def getattr_(self, o, name, default=PClass.MISSING):
        if default is not PClass.MISSING:
            self._attr_default = getattr(self, "_attr_default", 0) + 1
        try:
            return self._getattr(o, name)
        except PyRaise as e:
            if default is not PClass.MISSING and isinstance(e.exc, AttributeError):
                return default
            raise
        finally:
            if default is not PClass.MISSING:
                self._attr_default -= 1

    def _getattr(self, o, name):
        if isinstance(o, SuperProxy):
            mro = (o.obj.cls if isinstance(o.obj, PObj) else o.obj).mro()
            for c in mro[mro.index(o.owner) + 1 :]:
                if name in c.d:
                    f = c.d[name]
                    if isinstance(f, PFunc):
                        return f if f.kind == "static" else PBound(f, o.obj if f.kind != "class" or isinstance(o.obj, PClass) else o.obj.cls)
                    return f
            return NativeSuper(o.obj, name)
        if isinstance(o, PObj):
            f = o.cls.find(name, PClass.MISSING)
            if isinstance(f, PFunc) and f.kind == "property":
                return self.call(f, [o], {})
            if name in o.attrs:
                return o.attrs[name]
            if name == "__class__":
                return o.cls
            if name == "__dict__" and o.cls.slots() is None:
                return o.attrs
            if f is not PClass.MISSING:
                if isinstance(f, PFunc):
                    if f.kind == "static":
                        return f
                    return PBound(f, o.cls if f.kind == "class" else o)
                return f
            if o.has_base and type(o.base).__name__ == "SymDT":
                # symbolic datetime: field-wise attributes; methods that return a datetime return an instance of the subclass
                try:
                    a = getattr(o.base, name)
                except AttributeError:
                    a = None
                if a is not None or name in ("tzinfo",):
                    if callable(a) and not isinstance(a, Sym):
                        def meth(*args, _a=a, **kw):
                            r = _a(*[self.unbase(x) for x in args], **{k: self.unbase(v) for k, v in kw.items()})
                            if type(r).__name__ == "SymDT":
                                w = PObj(o.cls, r)
                                self.allocs.append(w)
                                return w
                            return r
                        return meth
                    return a
            if o.has_base:
                for m in self.attr_models:
                    r = m(self, o.base, name)
                    if r is not NOTIMPL:
                        return r
                if self.concrete(o.base) and hasattr(o.base, name) and isinstance(o.base, _dtm.datetime) and name in ("replace", "astimezone", "__add__", "__sub__", "__radd__"):
                    def meth(*a, _n=name, **k):
                        try:
                            r = getattr(o.base, _n)(*[self.unbase(x) for x in a], **{kk: self.unbase(vv) for kk, vv in k.items()})
                        except Exception as e:
                            raise PyRaise(e)
                        if type(r) is type(o.base):  # datetime methods return instances of the subclass (CPython >= 3.8)
                            w = PObj(o.cls, r)
                            self.allocs.append(w)
                            return w
                        return r

                    return meth
                if self.concrete(o.base) and hasattr(o.base, name):
                    if name == "real" and type(o.base) is float:
                        return float.fromhex(o.base.hex())  # .real of a float *subclass* instance is a new float object (matters for NaN identity)
                    return getattr(o.base, name)
            ga = o.cls.find("__getattr__")
            if isinstance(ga, PFunc):
                return self.call(PBound(ga, o), [name], {})
            if o.has_base and hasattr(o.base, name) and not isinstance(o.base, Sym):
                if isinstance(o.base, (list, dict, set)):
                    return getattr(o.base, name)  # container methods (append, extend, ...): shape-only operations, the elements may be symbolic
                raise Unsupported(f"{name!r} of a {o.cls.name} whose {type(o.base).__name__} value holds symbolic parts")
            if any(isinstance(b, StubModule) for c_ in o.cls.mro() for b in c_.bases):
                # a base class that lives in a module without a model: what it would provide is unknown
                raise Unsupported(f"{name!r} of {o.cls.name}: the class derives from an external class the engine does not model")
            for nb in o.cls.native_bases():
                if nb in (object, BaseException, Exception) or issubclass(nb, BaseException) or (o.has_base and isinstance(o.base, nb)):
                    continue
                if hasattr(nb, name):
                    fm = self.native_method_models.get((nb, name))
                    if fm is not None:
                        return lambda *a, _fm=fm, **k: _fm(self, o, *a, **k)
                    # not a missing attribute: the class inherits it from a standard-library class whose code the engine does not interpret
                    raise Unsupported(f"{name!r} of {o.cls.name} is inherited from the native class {nb.__name__}, which the engine does not model")
            raise PyRaise(AttributeError(f"'{o.cls.name}' object has no attribute '{name}'"))
        if isinstance(o, PClass):
            if name == "__name__":
                return o.name
            if name == "__bases__":
                return tuple(o.bases)
            if name == "__dict__":
                return dict(o.d)
            if name == "__module__":
                return o.mod.name if o.mod else "<exec>"
            if name == "__mro__":
                return tuple(o.mro())
            f = o.find(name, PClass.MISSING)
            if f is PClass.MISSING:
                for b in o.native_bases():
                    if hasattr(b, name):
                        v = getattr(b, name)
                        if isinstance(b, type) and issubclass(b, _dtm.date) and getattr(v, "__self__", None) is b and callable(v):
                            # alternative constructors of datetime called on the subclass return an instance of the subclass
                            def ctor(*a, _v=v, _b=b, **k):
                                if len(a) == 1 and type(self.unbase(a[0])).__name__ == "ISOText" and getattr(_v, "__name__", "") == "fromisoformat":
                                    from .models.dt import from_iso

                                    w = PObj(o, from_iso(self, self.unbase(a[0])))
                                    self.allocs.append(w)
                                    return w
                                try:
                                    r = _v(*[self.unbase(x) for x in a], **{kk: self.unbase(vv) for kk, vv in k.items()})
                                except Exception as e:
                                    raise PyRaise(e)
                                if type(r) is _b:
                                    w = PObj(o, r)
                                    self.allocs.append(w)
                                    return w
                                return r

                            return ctor
                        return v
                if name == "__new__" and not o.native_bases():
                    # object.__new__ of a class without a __new__ of its own: cls.__new__(cls) gives a bare instance (no __init__)
                    return lambda cls_, *a, **k: self.default_new(cls_, list(a), k)
                raise PyRaise(AttributeError(f"type object '{o.name}' has no attribute '{name}'"))
            if isinstance(f, PFunc) and f.kind == "class":
                return PBound(f, o)
            return f
        if isinstance(o, PModule):
            if name in o.g:
                return o.g[name]
            sub = self.loader.try_submodule(o, name)
            if sub is not None:
                return sub
            if getattr(o, "lazy", False):  # package __init__ that only re-exports: resolve the name through its import statements
                v = self.loader.lazy_lookup(o, name)
                if v is not None:
                    o.g[name] = v
                    return v
            raise PyRaise(AttributeError(f"module '{o.name}' has no attribute '{name}'"))
        if isinstance(o, PFunc):
            if name in ("__name__", "__qualname__"):
                return getattr(o, "wrapped_name", None) or o.name  # (functools.wraps copies the name of the wrapped function)
            if name == "__wrapped__" and getattr(o, "wrapped", None) is not None:
                return o.wrapped
            if name == "cache_clear":
                return lambda: None
            raise PyRaise(AttributeError(name))
        if isinstance(o, PBound):
            if name == "__func__":
                return o.func
            if name == "__self__":
                return o.self_obj
            if name == "__name__":
                return o.func.name
            raise PyRaise(AttributeError(name))
        if isinstance(o, Opaque):
            return Opaque("attr", py_getattr(o.t, z3.StringVal(name)), trusted=False)
        for m in self.attr_models:
            r = m(self, o, name)
            if r is not NOTIMPL:
                return r
        if isinstance(o, Sym):
            raise Unsupported(f"attribute {name!r} of symbolic {self.type_name(o)}")
        try:
            return getattr(o, name)
        except AttributeError as e:
            if any(o is mm for mm in getattr(self.loader, "module_models", {}).values()) and not name.startswith("__") and not getattr(self, "_attr_default", 0):
                # an attribute the MODEL of an external module does not have says nothing about the program: the obligation is undecided, not refuted
                raise Unsupported(f"the model of an external module ({getattr(o, '__name__', type(o).__name__)}) has no attribute {name!r}")
            raise PyRaise(e)

    def setattr_(self, o, name, v):
        if isinstance(o, PObj):
            f = o.cls.find(name)
            if isinstance(f, PFunc) and f.kind == "property":
                if f.setter is None:
                    raise PyRaise(AttributeError(f"property '{name}' of '{o.cls.name}' object has no setter"))
                return self.call(f.setter, [o, v], {})
            sa = o.cls.find("__setattr__")
            if isinstance(sa, PFunc):
                return self.call(PBound(sa, o), [name, v], {})
            return self.raw_setattr(o, name, v)
        if isinstance(o, PClass):
            o.d[name] = v
            self.writes.append((o, name))
            return None
        if isinstance(o, PModule):
            o.g[name] = v
            return None
        if self.concrete(o) and self.concrete(v):
            try:
                return setattr(o, name, v)
            except Exception as e:
                raise PyRaise(e)
        raise Unsupported(f"attribute store on {o!r}")

    def raw_setattr(self, o, name, v):
        slots = o.cls.slots()
        if slots is not None and name not in slots:
            raise PyRaise(AttributeError(f"'{o.cls.name}' object has no attribute '{name}'"))
        self.writes.append((o, name))
        o.attrs[name] = v

    # ------------------------------------------------------------------ calls
    def bind(self, f, args, kwargs):
        a = f.node.args
        env = Env(f.closure)
        params = [x.arg for x in a.posonlyargs + a.args]
        if len(args) > len(params) and not a.vararg:
            raise PyRaise(TypeError(f"{f.name}() takes {len(params)} positional argument{'s' if len(params) != 1 else ''} but {len(args)} were given"))
        for p, v in zip(params, args):
            env[p] = v
        if a.vararg:
            env[a.vararg.arg] = tuple(args[len(params) :])
        kwonly = [x.arg for x in a.kwonlyargs]
        extra = {}
        for k, v in kwargs.items():
            if k in params[len(a.posonlyargs) :] or k in kwonly:
                if dict.__contains__(env, k):
                    raise PyRaise(TypeError(f"{f.name}() got multiple values for argument '{k}'"))
                env[k] = v
            elif a.kwarg:
                extra[k] = v
            else:
                raise PyRaise(TypeError(f"{f.name}() got an unexpected keyword argument '{k}'"))
        if a.kwarg:
            env[a.kwarg.arg] = extra
        nd = len(a.defaults)
        denv = f.closure if f.closure is not None else Env()
        for i, p in enumerate(params):
            if not dict.__contains__(env, p):
                j = i - (len(params) - nd)
                if j < 0:
                    raise PyRaise(TypeError(f"{f.name}() missing 1 required positional argument: '{p}'"))
                env[p] = self.default_value(f, ("d", j), a.defaults[j], denv)
        for i, (p, d) in enumerate(zip(kwonly, a.kw_defaults)):
            if not dict.__contains__(env, p):
                if d is None:
                    raise PyRaise(TypeError(f"{f.name}() missing 1 required keyword-only argument: '{p}'"))
                env[p] = self.default_value(f, ("k", i), d, denv)
        if f.owner is not None:
            env["__class__"] = f.owner
            if params:
                env["__first__"] = env[params[0]]
        env.func = f
        return env

    def default_value(self, f, key, node, denv):
        cache = f.__dict__.setdefault("_defaults", {})
        if key not in cache:
            cache[key] = self.eval(node, denv, f.mod)
        return cache[key]

    def call(self, fn, args, kwargs=None):
        kwargs = kwargs or {}
        args = list(args)
        self.depth += 1
        try:
            if self.depth > self.max_depth:
                raise Unsupported("call depth limit")
            return self._call(fn, args, kwargs)
        finally:
            self.depth -= 1

    def _call(self, fn, args, kwargs):
        if isinstance(fn, PBound):
            return self._call(fn.func, [fn.self_obj] + args, kwargs)
        if isinstance(fn, PFunc):
            c = self.contracts.get(fn.qualname)
            if c is not None:
                r = c(self, fn, args, kwargs)
                if r is not NOTIMPL:
                    return r
            memo = getattr(fn, "memo", None)
            # lru_cache keys its entries by == / hash of the arguments: instances of builtin subclasses (e.g. the datetime field type) are looked up by
            # their builtin value, so two EQUAL arguments share an entry even when they are different objects
            kargs = [a.base if (isinstance(a, PObj) and a.has_base and self.concrete(a.base) and not isinstance(a.base, (list, dict, set))) else a for a in args]
            if memo is not None and all(self.concrete(a) for a in kargs) and all(self.concrete(v) for v in kwargs.values()):
                try:
                    key = (tuple(kargs), tuple(sorted(kwargs.items())))
                    hash(key)
                except TypeError:
                    key = None
                if key is not None:
                    if key not in memo:
                        memo[key] = self.run_function(fn, args, kwargs)  # (an exception is not cached, like functools)
                    return memo[key]
            if memo is not None and not kwargs and args and all(self._memo_keyable(a) for a in kargs):
                # arguments that are objects of interpreted classes (descriptors, tuples of them): the cache finds an entry through their own
                # __hash__ / __eq__, so two EQUAL objects share an entry - exactly what a cached function has to get right
                entries = fn.__dict__.setdefault("memo_obj", [])
                if fn not in self.memo_obj_funcs:
                    self.memo_obj_funcs.append(fn)
                for old_args, res in entries:
                    if len(old_args) == len(kargs) and all(self._memo_same(x_, y_) for x_, y_ in zip(old_args, kargs)):
                        return res
                res = self.run_function(fn, args, kwargs)
                entries.append((list(kargs), res))
                return res
            return self.run_function(fn, args, kwargs)
        if isinstance(fn, PClass):
            return self.instantiate(fn, args, kwargs)
        if isinstance(fn, NativeSuper):
            return self.call_native_super(fn, args, kwargs)
        if isinstance(fn, PObj):
            c = fn.cls.find("__call__")
            if isinstance(c, PFunc):
                return self._call(PBound(c, fn), args, kwargs)
            raise PyRaise(TypeError(f"'{fn.cls.name}' object is not callable"))
        if isinstance(fn, functools.partial):
            return self._call(fn.func, list(fn.args) + args, {**fn.keywords, **kwargs})
        if isinstance(fn, Opaque):
            self.event("call-opaque", fn, tuple(args))
            return Opaque("callres")
        if isinstance(fn, (Sym, StubModule)):
            if isinstance(fn, StubModule):
                raise Unsupported(f"call of unmodelled external {fn._name}")
            raise PyRaise(TypeError(f"'{self.type_name(fn)}' object is not callable"))
        try:
            model = self.models.get(fn)
        except TypeError:
            model = None
        if model is not None:
            try:
                inspect.signature(model).bind(self, *args, **kwargs)
            except TypeError as e:  # arity / keyword mismatch against the modelled builtin: a TypeError of the interpreted program
                raise PyRaise(TypeError(f"{getattr(fn, '__name__', fn)}() {e}"))
            except ValueError:
                pass
            return model(self, *args, **kwargs)
        if not callable(fn):
            raise PyRaise(TypeError(f"'{self.type_name(fn)}' object is not callable"))
        return self.call_native(fn, args, kwargs)

    def _memo_keyable(self, a):
        if isinstance(a, PObj):
            return not a.has_base and isinstance(a.cls.find("__hash__"), PFunc)
        if isinstance(a, tuple):
            return all(self._memo_keyable(x) for x in a)
        return self.concrete(a) and not isinstance(a, (list, dict, set))

    def _memo_same(self, a, b):
        if isinstance(a, tuple) or isinstance(b, tuple):
            return isinstance(a, tuple) and isinstance(b, tuple) and len(a) == len(b) and all(self._memo_same(x, y) for x, y in zip(a, b))
        if isinstance(a, PObj) or isinstance(b, PObj):
            if a is b:
                return True
            if not (isinstance(a, PObj) and isinstance(b, PObj)):
                return False
            ha, hb = self.hash_(a), self.hash_(b)
            if self.concrete(ha) and self.concrete(hb) and ha != hb:
                return False
            return bool(self.truth(self.compare("Eq", a, b)))
        return type(a) is type(b) and a == b

    def call_native(self, fn, args, kwargs):
        if fn in (enumerate, zip, reversed, iter, itertools.chain, itertools.zip_longest) and any(isinstance(a, PObj) for a in args):
            # iteration helpers over an object of an interpreted class (a typed list, ...): its elements as the interpreter iterates them
            args = [list(self.iterate(a)) if isinstance(a, PObj) else a for a in args]
        allv = args + list(kwargs.values())
        if isinstance(getattr(fn, "__self__", None), (bytes, bytearray)) and getattr(fn, "__name__", "") == "join" and len(args) == 1 and not kwargs:
            items = [self.unbase(x) for x in self.iterate(args[0])]
            if any(is_abstract_bytes(x) for x in items) and all(is_abstract_bytes(x) or isinstance(x, (bytes, bytearray)) for x in items):
                parts = []
                for i, x in enumerate(items):
                    parts += ([bytes(fn.__self__)] if i else []) + [x]
                return BCat(parts)
        if isinstance(fn, (types.WrapperDescriptorType, types.MethodDescriptorType)) and args and isinstance(args[0], PObj) and args[0].has_base:
            args = [args[0].base] + args[1:]
            allv = args + list(kwargs.values())
        if isinstance(fn, type) and issubclass(fn, BaseException):
            return fn(*[a if self.concrete(a) else "<symbolic>" for a in args])
        slf = getattr(fn, "__self__", None)
        if isinstance(slf, (_dtm.datetime, _dtm.time)) and getattr(fn, "__name__", "") == "strftime" and len(args) == 1 and isinstance(args[0], str) and "%:z" in args[0] and sys.version_info < (3, 12):
            # the checks run the engine on Python 3.11, the repository's interpreter is 3.12: "%:z" (3.12) is the UTC offset with a colon
            off = slf.utcoffset()
            if off is None:
                txt = ""
            else:
                sign = "-" if off < _dtm.timedelta(0) else "+"
                off = abs(off)
                hh, rem = divmod(off, _dtm.timedelta(hours=1))
                mm, ss = divmod(rem, _dtm.timedelta(minutes=1))
                txt = f"{sign}{hh:02d}:{mm:02d}" + (f":{ss.seconds:02d}" if ss.seconds or ss.microseconds else "") + (f".{ss.microseconds:06d}" if ss.microseconds else "")
            args = [args[0].replace("%:z", txt.replace("%", "%%"))]
        if isinstance(slf, (set, frozenset)) and getattr(fn, "__name__", "") in ("isdisjoint", "issubset", "issuperset", "intersection", "union", "difference", "__and__", "__or__", "__sub__") and not kwargs \
                and all(isinstance(a, (dict, collections.OrderedDict)) and all(self.concrete(k) for k in a) for a in args if isinstance(a, dict)) and any(isinstance(a, dict) for a in args):
            # set algebra against a mapping looks at the mapping's keys only
            args = [list(a.keys()) if isinstance(a, dict) else a for a in args]
            allv = list(args)
        shape_only = (
            fn in SHAPE_ONLY
            or (isinstance(slf, list) and fn.__name__ in ("append", "pop", "extend", "insert", "reverse", "copy", "clear"))
            or (isinstance(slf, (dict, collections.ChainMap)) and fn.__name__ in ("get", "pop", "update", "items", "keys", "values", "setdefault", "copy", "popitem", "clear", "move_to_end"))
            or (isinstance(slf, set) and fn.__name__ in ("add", "discard", "update") and all(not isinstance(a, Sym) for a in allv))
            or isinstance(getattr(fn, "__func__", fn), types.FunctionType) and getattr(fn, "__func__", fn).__code__.co_filename.startswith(VERIF_DIR)  # contract-level helper / model object written in Python (never a library function)
        )
        if shape_only or all(self.concrete(a) for a in allv):
            if isinstance(slf, dict) and fn.__name__ in ("get", "pop", "setdefault", "__getitem__", "__contains__") and args and isinstance(args[0], PObj) and not args[0].has_base:
                # a key that is an object of an interpreted class: found through its own __hash__ / __eq__ (like the subscript forms)
                self.hash_(args[0])
                x = self.find_key(slf, args[0])
                if fn.__name__ == "__contains__":
                    return x is not PClass.MISSING
                if x is PClass.MISSING:
                    if fn.__name__ == "setdefault":
                        slf[args[0]] = args[1] if len(args) > 1 else None
                        return slf[args[0]]
                    if fn.__name__ == "__getitem__" or (fn.__name__ == "pop" and len(args) < 2):
                        raise PyRaise(KeyError(args[0]))
                    return args[1] if len(args) > 1 else None
                return slf.pop(x) if fn.__name__ == "pop" else slf[x]
            if isinstance(slf, dict) and fn.__name__ == "get" and args and isinstance(self.unbase(args[0]), SStr) and all(isinstance(x, str) for x in slf.keys()):
                # d.get(<symbolic text>) on a dictionary with a concrete spine of text keys: case split over the keys
                for x in list(slf.keys()):
                    if self.truth(self.compare("Eq", x, args[0])):
                        return slf[x]
                return args[1] if len(args) > 1 else kwargs.get("default")
            if isinstance(slf, dict) and fn.__name__ in ("get", "pop", "setdefault", "__getitem__") and args and not self.concrete(args[0]) and not isinstance(args[0], IDENTITY_KEYS):
                raise Unsupported("symbolic key into a concrete dict")
            try:
                return fn(*args, **kwargs)
            except (Unsupported, PyRaise, PathEnd, ReturnSignal):
                raise
            except Exception as e:
                if isinstance(e, (TypeError, AttributeError)) and not getattr(getattr(fn, "__func__", fn), "__code__", None) and any(is_model_object(self.unbase(a)) for a in allv if not isinstance(a, (list, tuple, dict))):
                    # a C-level function refused a model object (an abstract file / packed value handed to a builtin): a gap of the model
                    raise Unsupported(f"native {getattr(fn, '__qualname__', fn)!r} applied to a model object: {e}")
                raise PyRaise(e)
        # unbase builtin-subclass instances whose base is concrete
        ub = [self.unbase(a) for a in args]
        ukw = {k: self.unbase(v) for k, v in kwargs.items()}
        if all(self.concrete(a) for a in ub + list(ukw.values())):
            try:
                return fn(*ub, **ukw)
            except Exception as e:
                raise PyRaise(e)
        raise Unsupported(f"native call {getattr(fn, '__qualname__', fn)!r} with symbolic arguments")

    def run_function(self, f, args, kwargs):
        self.stack.append(f.qualname)
        if f.mod is not None and f.mod.file:
            EXECUTED_FUNCS.add((f.mod.name, f.qualname))
        try:
            return self._run_function(f, args, kwargs)
        finally:
            self.stack.pop()

    def _run_function(self, f, args, kwargs):
        env = self.bind(f, args, kwargs)
        if isinstance(f.node, ast.Lambda):
            return self.eval(f.node.body, env, f.mod)
        if has_yield(f.node):
            g = LazyGen(self, f, env)
            env["__yield__"] = g.emit
            return CtxManager(self, g) if f.is_contextmanager else g
        try:
            self.block(f.node.body, env, f.mod)
        except ReturnSignal as r:
            return r.value
        return None

    # ------------------------------------------------------------------ objects
    def instantiate(self, cls, args, kwargs):
        new = cls.find("__new__")
        if isinstance(new, PFunc):
            o = self._call(new, [cls] + args, kwargs)
        else:
            o = self.default_new(cls, args, kwargs)
        if isinstance(o, PObj) and cls in o.cls.mro():
            init = o.cls.find("__init__")
            if isinstance(init, PFunc):
                self._call(PBound(init, o), args, kwargs)
            elif any(isinstance(nb, type) and issubclass(nb, pathlib.PurePath) for nb in o.cls.native_bases()):
                # pathlib (3.12): object.__new__(cls) followed by PurePath.__init__(self, *args)
                nb = [b for b in o.cls.native_bases() if issubclass(b, pathlib.PurePath)][0]
                a = [self.unbase(x) for x in args]
                for x in a:
                    if isinstance(x, PObj) or isinstance(x, (int, float, bytes, list, tuple, dict)) and not isinstance(x, str):
                        raise PyRaise(TypeError(f"argument should be a str or an os.PathLike object where __fspath__ returns a str, not '{self.type_name(x)}'"))
                if all(self.concrete(x) for x in a):
                    try:
                        o.base = nb(*a)
                    except Exception as e:
                        raise PyRaise(e)
                else:
                    o.base = Opaque("path")
                    o.base_args = a
            elif o.has_base and isinstance(o.base, list) and args:  # list.__init__(iterable) of a list subclass without __init__
                o.base[:] = list(self.iterate(args[0]))
            elif o.has_base and isinstance(o.base, dict) and (args or kwargs):
                o.base.update(dict(*[self.unbase(a) for a in args], **kwargs))
        return o

    def default_new(self, cls, args, kwargs):
        from .models.builtins_ import new_with_native_base

        o = new_with_native_base(self, cls, args, kwargs)
        self.allocs.append(o)
        return o

    def call_native_super(self, ns, args, kwargs):
        from .models.builtins_ import native_super_call

        return native_super_call(self, ns, args, kwargs)

    # ------------------------------------------------------------------ statements
    def block(self, stmts, env, mod):
        for s in stmts:
            self.stmt(s, env, mod)

    def lookup(self, name, env, mod):
        if isinstance(env, Env):
            found, v = env.lookup(name)
            if found:
                return v
            e = env
            while e is not None and getattr(e, "func", None) is None:
                e = e.parent
            if e is not None and name in local_names(e.func) and name not in e.globals_declared:
                # the name is a local variable of the running function that has not been assigned on this path (a global of the same name is not consulted)
                raise PyRaise(UnboundLocalError(f"cannot access local variable '{name}' where it is not associated with a value"))
        elif name in env:
            return env[name]
        if name in mod.g:
            return mod.g[name]
        if hasattr(builtins, name):
            return getattr(builtins, name)
        raise PyRaise(NameError(f"name '{name}' is not defined"))

    def store_name(self, name, v, env, mod):
        if isinstance(env, Env) and name in env.globals_declared:
            mod.g[name] = v
        else:
            env[name] = v

    def stmt(self, s, env, mod):
        T = type(s)
        if mod is not None and mod.file:
            EXECUTED_LINES.add((mod.name, s.lineno))
        if T is ast.Expr:
            self.eval(s.value, env, mod)
        elif T is ast.Return:
            raise ReturnSignal(self.eval(s.value, env, mod) if s.value is not None else None)
        elif T is ast.Pass:
            pass
        elif T is ast.Assign:
            v = self.eval(s.value, env, mod)
            for t in s.targets:
                self.assign(t, v, env, mod)
        elif T is ast.AnnAssign:
            if s.value is not None:
                self.assign(s.target, self.eval(s.value, env, mod), env, mod)
        elif T is ast.AugAssign:
            load = ast.copy_location(ast.fix_missing_locations(type(s.target)(**{**{f: getattr(s.target, f) for f in s.target._fields}, "ctx": ast.Load()})), s.target)
            cur = self.eval(load, env, mod)
            self.assign(s.target, self.binop(s.op, cur, self.eval(s.value, env, mod)), env, mod)
        elif T is ast.If:
            self.block(s.body if self.truth(self.eval(s.test, env, mod)) else s.orelse, env, mod)
        elif T is ast.For:
            items = self.iterate(self.eval(s.iter, env, mod))
            broke = False
            for x in items:
                self.assign(s.target, x, env, mod)
                try:
                    self.block(s.body, env, mod)
                except BreakSignal:
                    broke = True
                    break
                except ContinueSignal:
                    continue
            if not broke:
                self.block(s.orelse, env, mod)
        elif T is ast.While:
            n = 0
            while self.truth(self.eval(s.test, env, mod)):
                n += 1
                cut = self.loop_cut.get(self.stack[-1]) if self.stack and self.loop_cut else None
                if cut is not None and n > cut:
                    raise LoopCut(self.stack[-1], cut)
                if n > self.loop_limit:
                    raise Unsupported("loop without invariant exceeded the unrolling limit")
                try:
                    self.block(s.body, env, mod)
                except BreakSignal:
                    break
                except ContinueSignal:
                    continue
            else:
                self.block(s.orelse, env, mod)
        elif T is ast.Break:
            raise BreakSignal()
        elif T is ast.Continue:
            raise ContinueSignal()
        elif T is ast.Raise:
            self.do_raise(s, env, mod)
        elif T is ast.Try:
            self.do_try(s, env, mod)
        elif T is ast.With:
            self.do_with(s, env, mod)
        elif T is ast.FunctionDef:
            self.store_name(s.name, self.make_function(s, env, mod), env, mod)
        elif T is ast.ClassDef:
            self.store_name(s.name, self.make_class(s, env, mod), env, mod)
        elif T in (ast.Import, ast.ImportFrom):
            self.loader.do_import(s, env, mod)
        elif T is ast.Global:
            if isinstance(env, Env):
                env.globals_declared.update(s.names)
        elif T is ast.Delete:
            for t in s.targets:
                if isinstance(t, ast.Subscript):
                    o = self.eval(t.value, env, mod)
                    k = self.eval(t.slice, env, mod)
                    try:
                        del o[k]
                    except Exception as e:
                        raise PyRaise(e)
                elif isinstance(t, ast.Name):
                    env.pop(t.id, None)
                else:
                    raise Unsupported("del target")
        elif T is ast.Assert:
            if not self.truth(self.eval(s.test, env, mod)):
                raise PyRaise(AssertionError())
        else:
            raise Unsupported(f"statement {T.__name__}")

    def do_raise(self, s, env, mod):
        if s.exc is None:
            cur = env.get("__active_exc__") if not isinstance(env, Env) else env.lookup("__active_exc__")[1]
            if cur is None:
                raise PyRaise(RuntimeError("No active exception to reraise"))
            raise PyRaise(cur)
        e = self.eval(s.exc, env, mod)
        if isinstance(e, PClass):
            e = self.instantiate(e, [], {})
        elif isinstance(e, type) and issubclass(e, BaseException):
            e = e()
        if isinstance(e, (PObj, BaseException)):
            raise PyRaise(e)
        raise PyRaise(TypeError("exceptions must derive from BaseException"))

    def exc_matches(self, exc, handler):
        if isinstance(handler, tuple):
            return any(self.exc_matches(exc, h) for h in handler)
        if isinstance(exc, PObj):
            return exc.cls.is_subclass_of(handler)
        if isinstance(handler, type):
            return isinstance(exc, handler)
        return False

    def do_try(self, s, env, mod):
        try:
            try:
                self.block(s.body, env, mod)
            except PyRaise as ex:
                for h in s.handlers:
                    if h.type is None or self.exc_matches(ex.exc, self.eval(h.type, env, mod)):
                        if h.name:
                            env[h.name] = ex.exc
                        prev = env.get("__active_exc__") if not isinstance(env, Env) else env.lookup("__active_exc__")[1]
                        env["__active_exc__"] = ex.exc
                        try:
                            self.block(h.body, env, mod)
                        finally:
                            env["__active_exc__"] = prev
                        break
                else:
                    raise
            else:
                self.block(s.orelse, env, mod)
        finally:
            if s.finalbody:
                self.block(s.finalbody, env, mod)

    def do_with(self, s, env, mod):
        if len(s.items) != 1:
            raise Unsupported("with: several items")
        item = s.items[0]
        cm = self.eval(item.context_expr, env, mod)
        enter = self.getattr_(cm, "__enter__")
        exit_ = self.getattr_(cm, "__exit__")
        v = self.call(enter, [], {})
        if item.optional_vars is not None:
            self.assign(item.optional_vars, v, env, mod)
        try:
            self.block(s.body, env, mod)
        except PyRaise as ex:
            if not self.truth(self.call(exit_, [type(ex.exc) if not isinstance(ex.exc, PObj) else ex.exc.cls, ex.exc, None], {})):
                raise
        else:
            self.call(exit_, [None, None, None], {})

    def make_function(self, s, env, mod):
        at_module = env is mod.g
        closure = env if isinstance(env, Env) and "__classbody__" not in env else (env.parent if isinstance(env, Env) else None)
        owner = env.get("__classbody__") if "__classbody__" in env else None
        f = PFunc(s, mod, None if at_module else closure, owner, "plain")
        v = f
        for d in reversed(s.decorator_list):
            ds = ast.unparse(d)
            if ds == "staticmethod":
                f.kind = "static"
            elif ds == "classmethod":
                f.kind = "class"
            elif ds == "property":
                f.kind = "property"
            elif ds.endswith(".setter"):
                prop = env[ds.rsplit(".", 1)[0]]
                prop.setter = f
                v = prop
            elif ds == "contextmanager" or ds.endswith(".contextmanager"):
                f.is_contextmanager = True
            elif "lru_cache" in ds:
                f.memo = {}  # memoised on concrete hashable arguments (object identity of the result matters: classes); never evicted
            elif ds.startswith("wraps(") or ds.startswith("functools.wraps("):
                w_ = self.eval(d.args[0], env, mod) if isinstance(d, ast.Call) and d.args else None
                if isinstance(w_, PFunc):
                    f.wrapped, f.wrapped_name = w_, getattr(w_, "wrapped_name", None) or w_.name
                elif w_ is not None and hasattr(w_, "__name__"):
                    f.wrapped, f.wrapped_name = w_, w_.__name__
            elif ds in ("abc.abstractmethod", "abstractmethod"):
                pass
            else:
                dv = self.eval(d, env, mod)
                v = self.call(dv, [v], {})
        return v

    def make_class(self, s, env, mod):
        bases = [self.eval(b, env, mod) for b in s.bases]
        bases = [b for b in bases if b is not object]
        c = PClass(s.name, mod, bases, node=s)
        cenv = Env(env if isinstance(env, Env) else None)
        cenv["__classbody__"] = c
        cenv["__class__"] = c
        for st in s.body:
            if isinstance(st, ast.Expr) and isinstance(st.value, ast.Constant):
                continue
            self.stmt(st, cenv, mod)
        for k in list(cenv.keys()):
            if k in ("__classbody__", "__class__"):
                continue
            v = dict.__getitem__(cenv, k)
            if isinstance(v, PFunc) and v.owner is None:
                v.owner = c
            if k.startswith("__") and not k.endswith("__"):
                k = f"_{c.name.lstrip('_')}{k}"  # private name mangling applies to names bound in the class body as well
            c.d[k] = v
        v = c
        for d in reversed(s.decorator_list):
            v = self.call(self.eval(d, env, mod), [v], {})
        return v

    def assign(self, t, v, env, mod):
        if isinstance(t, ast.Name):
            self.store_name(t.id, v, env, mod)
        elif isinstance(t, (ast.Tuple, ast.List)):
            vs = list(self.iterate(v))
            star = [i for i, e in enumerate(t.elts) if isinstance(e, ast.Starred)]
            if star:
                i = star[0]
                n_after = len(t.elts) - i - 1
                if len(vs) < len(t.elts) - 1:
                    raise PyRaise(ValueError(f"not enough values to unpack (expected at least {len(t.elts) - 1}, got {len(vs)})"))
                for a, b in zip(t.elts[:i], vs[:i]):
                    self.assign(a, b, env, mod)
                self.assign(t.elts[i].value, list(vs[i : len(vs) - n_after]), env, mod)
                for a, b in zip(t.elts[i + 1 :], vs[len(vs) - n_after :]):
                    self.assign(a, b, env, mod)
                return
            if len(vs) != len(t.elts):
                raise PyRaise(ValueError(f"{'too many' if len(vs) > len(t.elts) else 'not enough'} values to unpack (expected {len(t.elts)}{', got %d' % len(vs) if len(vs) < len(t.elts) else ''})"))
            for a, b in zip(t.elts, vs):
                self.assign(a, b, env, mod)
        elif isinstance(t, ast.Attribute):
            self.setattr_(self.eval(t.value, env, mod), self.mangle(t.attr, env), v)
        elif isinstance(t, ast.Subscript):
            o = self.eval(t.value, env, mod)
            k = self.eval(t.slice, env, mod)
            self.setitem(o, k, v)
        else:
            raise Unsupported("assignment target")

    def find_key(self, d, k):
        """The key of native dict `d` that equals heap object / value `k` (identity first, then ==), or the MISSING marker."""
        for x in list(d.keys()):
            if x is k:
                return x
        for x in list(d.keys()):
            if isinstance(x, (PObj, tuple)) or isinstance(k, PObj):
                if type(x) is type(k) or (isinstance(x, PObj) and isinstance(k, PObj)):
                    if self.truth(self.compare("Eq", x, k)):
                        return x
        return PClass.MISSING

    def setitem(self, o, k, v):
        if isinstance(o, SymDict):
            kt = self.dict_key(k)
            o.present = z3.Store(o.present, kt, True)
            o.value = z3.Store(o.value, kt, self.pyval(v))
            o.stores.append((kt, v))
            return
        if isinstance(o, PObj):
            f = o.cls.find("__setitem__")
            if isinstance(f, PFunc):
                return self.call(PBound(f, o), [k, v], {})
            if o.has_base:
                return self.setitem(o.base, k, v)
        if isinstance(o, dict) and isinstance(k, PObj) and not k.has_base:
            self.hash_(k)
            x = self.find_key(o, k)
            o[k if x is PClass.MISSING else x] = v
            return
        if isinstance(o, (dict, collections.ChainMap)) and not self.concrete(k) and not isinstance(k, IDENTITY_KEYS):
            zk = self.zstr(k)
            if zk is None or not all(self.zstr(x) is not None for x in o.keys()):
                raise Unsupported("symbolic key into a concrete dict")
            for x in o.keys():  # the symbolic key must be provably different from every key already present
                if x is not k and solver.check(self.pc + [zk == self.zstr(x)], timeout_ms=3000)[0] != "unsat":
                    raise Unsupported("symbolic dict key that may coincide with an existing key")
        try:
            o[k] = v
        except Exception as e:
            raise PyRaise(e)

    def getitem(self, o, k):
        if isinstance(o, SymDict):
            kt = self.dict_key(k)
            from .models.containers import present

            self.require(present(o, kt), KeyError("<symbolic>"))
            return self.symdict_value(o, kt)
        if isinstance(o, PObj):
            f = o.cls.find("__getitem__")
            if isinstance(f, PFunc):
                return self.call(PBound(f, o), [k], {})
            if o.has_base:
                miss = o.cls.find("__missing__")
                if isinstance(miss, PFunc) and isinstance(o.base, dict) and self.concrete(k) and k not in o.base:
                    return self.call(PBound(miss, o), [k], {})  # dict subclass: d[key] of an absent key calls __missing__
                return self.getitem(o.base, k)
            raise PyRaise(TypeError(f"'{o.cls.name}' object is not subscriptable"))
        for m in self.attr_models:
            r = m(self, o, "__getitem__")
            if r is not NOTIMPL:
                return r(k)
        if isinstance(o, Sym):
            raise Unsupported(f"subscript of symbolic {o!r}")
        if isinstance(o, dict) and isinstance(k, PObj) and not k.has_base:
            x = self.find_key(o, k)
            if x is PClass.MISSING:
                raise PyRaise(KeyError(repr(k)))
            return o[x]
        if isinstance(o, dict) and isinstance(self.unbase(k), SStr) and all(isinstance(x, (str, SStr)) for x in o.keys()):
            # symbolic string key into a dict with a concrete spine: case split over the keys
            for x in list(o.keys()):
                r = self.compare("Eq", x, k)
                if self.truth(r):
                    return o[x]
            raise PyRaise(KeyError("<symbolic>"))
        if not self.concrete(k) and not (isinstance(o, dict) and isinstance(k, IDENTITY_KEYS)):
            raise Unsupported("symbolic subscript")
        try:
            return o[k]
        except Exception as e:
            raise PyRaise(e)

    def symdict_value(self, d, kt):
        from .models.containers import key_eq

        for k2, v in reversed(d.stores):
            eq = key_eq(k2, kt)
            if z3.is_true(eq):
                return v
            if z3.is_false(eq):
                continue
            if self.branch(eq):
                return v
        if d.default is not None:
            return d.default
        return Opaque("dictval", z3.Select(d.value, kt))

    # ------------------------------------------------------------------ expressions
    def eval(self, e, env, mod):
        T = type(e)
        if T is ast.Constant:
            return e.value
        if T is ast.Name:
            return self.lookup(e.id, env, mod)
        if T in (ast.Tuple, ast.List, ast.Set):
            out = []
            for x in e.elts:
                if isinstance(x, ast.Starred):
                    out += list(self.iterate(self.eval(x.value, env, mod)))
                else:
                    out.append(self.eval(x, env, mod))
            if T is ast.Set:
                for el in out:
                    if isinstance(el, PObj) and not el.has_base:
                        self.hash_(el)  # a set display hashes its members: an object whose class defines __eq__ without __hash__ is refused (TypeError)
            return tuple(out) if T is ast.Tuple else out if T is ast.List else set(out)
        if T is ast.Dict:
            d = {}
            for k, v in zip(e.keys, e.values):
                if k is None:
                    d.update(self.eval(v, env, mod))
                else:
                    kk = self.eval(k, env, mod)
                    if isinstance(kk, PObj) and not kk.has_base:
                        self.hash_(kk)  # (hashable or TypeError, as for the set display)
                        x_ = self.find_key(d, kk)
                        d[kk if x_ is PClass.MISSING else x_] = self.eval(v, env, mod)
                        continue
                    if not self.concrete(kk):
                        raise Unsupported("symbolic dict key in display")
                    d[kk] = self.eval(v, env, mod)
            return d
        if T is ast.Attribute:
            return self._getattr(self.eval(e.value, env, mod), self.mangle(e.attr, env))
        if T is ast.Subscript:
            return self.getitem(self.eval(e.value, env, mod), self.eval(e.slice, env, mod))
        if T is ast.Slice:
            return slice(*(self.eval(x, env, mod) if x is not None else None for x in (e.lower, e.upper, e.step)))
        if T is ast.Compare:
            left = self.eval(e.left, env, mod)
            res = True
            for op, c in zip(e.ops, e.comparators):
                right = self.eval(c, env, mod)
                res = self.compare(CMP_NAMES[type(op)], left, right)
                if len(e.ops) > 1 and not self.truth(res):
                    return res
                left = right
            return res
        if T is ast.BoolOp:
            v = None
            for x in e.values:
                v = self.eval(x, env, mod)
                t = self.truth(v)
                if (isinstance(e.op, ast.And) and not t) or (isinstance(e.op, ast.Or) and t):
                    return v
            return v
        if T is ast.UnaryOp:
            return self.unop(e.op, self.eval(e.operand, env, mod))
        if T is ast.BinOp:
            return self.binop(e.op, self.eval(e.left, env, mod), self.eval(e.right, env, mod))
        if T is ast.IfExp:
            return self.eval(e.body if self.truth(self.eval(e.test, env, mod)) else e.orelse, env, mod)
        if T is ast.Lambda:
            return PFunc(e, mod, env if isinstance(env, Env) else None)
        if T is ast.NamedExpr:
            v = self.eval(e.value, env, mod)
            self.store_name(e.target.id, v, env, mod)
            return v
        if T is ast.Call:
            return self.eval_call(e, env, mod)
        if T in (ast.ListComp, ast.GeneratorExp, ast.SetComp, ast.DictComp):
            return self.eval_comprehension(e, env, mod)
        if T is ast.JoinedStr:
            return self.eval_fstring(e, env, mod)
        if T is ast.Yield:
            found, out = env.lookup("__yield__") if isinstance(env, Env) else ("__yield__" in env, env.get("__yield__"))
            v = self.eval(e.value, env, mod) if e.value is not None else None
            if callable(out):
                out(v)
            else:
                out.append(v)
            return None
        if T is ast.YieldFrom:
            # yield from <iterable>: every value of the iterable is yielded in turn (values sent in and the sub-generator's return value are not modelled: None)
            found, out = env.lookup("__yield__") if isinstance(env, Env) else ("__yield__" in env, env.get("__yield__"))
            for v in self.iterate(self.eval(e.value, env, mod)):
                if callable(out):
                    out(v)
                else:
                    out.append(v)
            return None
        if T is ast.Starred:
            raise Unsupported("starred expression outside call/display")
        raise Unsupported(f"expression {T.__name__}")

    def eval_call(self, e, env, mod):
        if isinstance(e.func, ast.Name) and e.func.id == "super" and self.lookup("super", env, mod) is builtins.super:
            if e.args:
                a = [self.eval(x, env, mod) for x in e.args]
                return SuperProxy(a[0], a[1])
            _, owner = env.lookup("__class__")
            _, first = env.lookup("__first__")
            return SuperProxy(owner, first)
        fn = self.eval(e.func, env, mod)
        args, kwargs = [], {}
        for a in e.args:
            if isinstance(a, ast.Starred):
                args += list(self.iterate(self.eval(a.value, env, mod)))
            else:
                args.append(self.eval(a, env, mod))
        for k in e.keywords:
            if k.arg is None:
                d = self.eval(k.value, env, mod)
                if isinstance(d, PObj) and d.has_base:
                    d = d.base
                kwargs.update({kk: d[kk] for kk in d})
            else:
                kwargs[k.arg] = self.eval(k.value, env, mod)
        if fn is builtins.locals:
            return {k: v for k, v in env.items() if not k.startswith("__")}
        if self.trace_calls:
            self.event("call", ast.unparse(e.func), fn, tuple(args))
        return self.call(fn, args, kwargs)

    def eval_comprehension(self, e, env, mod):
        T = type(e)

        def rec(i, env2, first=None):
            if i == len(e.generators):
                yield (self.eval(e.key, env2, mod), self.eval(e.value, env2, mod)) if T is ast.DictComp else self.eval(e.elt, env2, mod)
                return
            g = e.generators[i]
            for x in (first if i == 0 else self.iterate(self.eval(g.iter, env2, mod))):
                env3 = Env(env2 if isinstance(env2, Env) else None)
                if not isinstance(env2, Env):
                    env3.update(env2)
                self.assign(g.target, x, env3, mod)
                if all(self.truth(self.eval(c, env3, mod)) for c in g.ifs):
                    yield from rec(i + 1, env3)

        # (language reference: the iterable of the leftmost `for` is evaluated at once, in the enclosing scope; everything else when the values are asked for)
        first = self.iterate(self.eval(e.generators[0].iter, env, mod))
        if T is ast.GeneratorExp:
            # a generator expression is a function scope of its own: inside code run by eval(code, globals, locals) its body sees the globals, NOT the
            # separate locals mapping (names there are compiled as global look-ups); only the leftmost iterable is evaluated outside
            return GenList(rec(0, strip_eval_locals(env), first))
        out = list(rec(0, env, first))
        if T is ast.DictComp:
            return dict(out)
        if T is ast.SetComp:
            return set(out)
        return out

    def eval_fstring(self, e, env, mod):
        parts = []
        for v in e.values:
            if isinstance(v, ast.FormattedValue):
                x = self.eval(v.value, env, mod)
                spec = self.eval(v.format_spec, env, mod) if v.format_spec is not None else ""
                parts.append(self.format_value(x, {114: "r", 115: "s", 97: "a", -1: None}[v.conversion], spec))
            else:
                parts.append(v.value)
        if all(isinstance(p, str) for p in parts):
            return "".join(parts)
        t = z3.Concat(*[self.zstr(p) for p in parts]) if len(parts) > 1 else self.zstr(parts[0])
        return SStr(t)

    def format_value(self, x, conv, spec):
        """format(x, spec) with optional !r/!s conversion; returns str or SStr."""
        from .models.strings import str_of, repr_of

        if conv == "r":
            x = repr_of(self, x)
        elif conv == "s":
            x = str_of(self, x)
        if isinstance(x, SStr):
            if spec:
                raise Unsupported("format spec on symbolic string")
            return x
        if isinstance(x, PObj):
            f = x.cls.find("__format__")
            if isinstance(f, PFunc):
                return self.call(PBound(f, x), [spec], {})
            if not spec:
                return str_of(self, x)
            if x.has_base and self.concrete(x.base):
                return format(x.base, spec)
            raise Unsupported("format spec on heap object")
        if isinstance(x, Sym):
            if spec:
                raise Unsupported("format spec on symbolic value")
            return str_of(self, x)
        if isinstance(x, (list, tuple, dict, set)) and not self.concrete(x):
            if spec:
                raise Unsupported("format spec on container with symbolic elements")
            return str_of(self, x)
        try:
            return format(x, spec)
        except Exception as ex:
            raise PyRaise(ex)


RICH_REFLECT = {"__lt__": "__gt__", "__gt__": "__lt__", "__le__": "__ge__", "__ge__": "__le__", "__eq__": "__eq__", "__ne__": "__ne__"}
SYMBOL = {"Eq": "==", "NotEq": "!=", "Lt": "<", "LtE": "<=", "Gt": ">", "GtE": ">="}


def local_names(f):
    """Names bound anywhere in the function body (Python decides local-ness statically)."""
    cached = f.__dict__.get("_locals")
    if cached is not None:
        return cached
    names, glob = set(), set()
    node = f.node
    a = node.args
    for x in a.posonlyargs + a.args + a.kwonlyargs + ([a.vararg] if a.vararg else []) + ([a.kwarg] if a.kwarg else []):
        names.add(x.arg)
    stack = list(node.body) if isinstance(node.body, list) else []
    while stack:
        n = stack.pop()
        if isinstance(n, (ast.FunctionDef, ast.ClassDef, ast.AsyncFunctionDef)):
            names.add(n.name)
            continue
        if isinstance(n, (ast.Lambda, ast.ListComp, ast.SetComp, ast.DictComp, ast.GeneratorExp)):
            continue
        if isinstance(n, (ast.Global, ast.Nonlocal)):
            glob.update(n.names)
        if isinstance(n, ast.Name) and isinstance(n.ctx, (ast.Store, ast.Del)):
            names.add(n.id)
        if isinstance(n, ast.ExceptHandler) and n.name:
            names.add(n.name)
        if isinstance(n, (ast.Import, ast.ImportFrom)):
            for al in n.names:
                names.add((al.asname or al.name).split(".")[0])
        stack.extend(ast.iter_child_nodes(n))
    f.__dict__["_locals"] = names - glob
    return f.__dict__["_locals"]


def has_yield(fnode):
    stack = list(getattr(fnode, "body", []))
    while stack:
        n = stack.pop()
        if isinstance(n, (ast.Yield, ast.YieldFrom)):
            return True
        if isinstance(n, (ast.FunctionDef, ast.Lambda, ast.ClassDef)):
            continue
        stack.extend(ast.iter_child_nodes(n))
    return False

"""Module system: interprets the module bodies of the package under verification from a source root."""
import ast
import importlib
import os
import sys

from .errors import PyRaise, Unsupported
from .values import PClass, PFunc, PModule, StubModule

# stdlib modules that are imported natively (their functions are either pure on concrete values or modelled)
NATIVE_OK = {
    "abc", "ast", "base64", "binascii", "collections", "contextlib", "datetime", "functools", "hashlib", "io", "ipaddress", "itertools", "json",
    "keyword", "logging", "math", "operator", "os", "pathlib", "posixpath", "re", "reprlib", "shlex", "struct", "sys", "textwrap", "typing", "urllib",
    "warnings", "zoneinfo", "__future__", "importlib", "pkgutil", "socket", "csv", "sqlite3", "gzip", "bz2", "zipimport", "argparse", "binascii", "string", "unicodedata",
}


class SysModel:
    """`sys` as seen by the interpreted code: the version of the interpreter that *runs* the package, not of the prover."""

    def __init__(self, version):
        import collections

        VI = collections.namedtuple("version_info", "major minor micro releaselevel serial")
        self.version_info = VI(*version, "final", 0)

    def __getattr__(self, name):
        return getattr(sys, name)


class Loader:
    def __init__(self, root="/repo", package="flow.record", target_version=(3, 12, 1)):
        self.root = root
        self.package = package
        self.mods = {}
        self.interp = None
        self.module_models = {}  # name -> object standing for an external module (e.g. the msgpack model)
        self.target_version = target_version
        self.lazy_package_init = {package}  # package __init__ bodies that are not executed (re-export only)
        self.module_models["sys"] = SysModel(target_version)

    # ---- files
    def modfile(self, name):
        p = os.path.join(self.root, *name.split("."))
        if os.path.isfile(p + ".py"):
            return p + ".py", False
        if os.path.isfile(os.path.join(p, "__init__.py")):
            return os.path.join(p, "__init__.py"), True
        if os.path.isdir(p):
            return None, True  # namespace package
        return None, False

    def source_of(self, name):
        f, _ = self.modfile(name)
        return open(f).read() if f else None

    def import_module(self, name):
        if name in self.mods:
            return self.mods[name]
        if name in self.module_models:
            return self.module_models[name]
        f, is_pkg = self.modfile(name)
        if f is None and not is_pkg:
            top = name.split(".")[0]
            if top in NATIVE_OK:
                try:
                    return importlib.import_module(name)
                except ImportError as e:
                    raise PyRaise(e)
            return StubModule(name)
        m = PModule(name, f)
        m.g["__name__"] = name
        m.g["__package__"] = name if is_pkg else name.rpartition(".")[0]
        m.g["__file__"] = f
        if is_pkg:
            m.g["__path__"] = [os.path.dirname(f) if f else os.path.join(self.root, *name.split("."))]
        self.mods[name] = m
        if f is None:
            return m
        if name in self.lazy_package_init:
            m.lazy = True
            return m
        tree = ast.parse(open(f).read(), filename=f)
        it = self.interp
        saved = (it.pc, it.dec, it.pos, it.work)
        for st in tree.body:
            try:
                it.stmt(st, m.g, m)
            except Unsupported as e:
                m.skipped.append((st.lineno, f"unsupported: {e}"))
            except PyRaise as e:
                m.skipped.append((st.lineno, f"raised: {e}"))
        it.pc, it.dec, it.pos, it.work = saved
        return m

    def try_submodule(self, mod, name):
        full = f"{mod.name}.{name}"
        f, is_pkg = self.modfile(full)
        if f is not None or is_pkg:
            return self.import_module(full)
        return None

    # lazily resolved re-exports of the package __init__ (``from flow.record import RecordDescriptor``)
    def lazy_lookup(self, pkgmod, name):
        src = self.source_of(pkgmod.name)
        tree = ast.parse(src)
        for st in tree.body:
            if isinstance(st, ast.ImportFrom):
                for a in st.names:
                    if (a.asname or a.name) == name:
                        base = st.module or ""
                        if st.level:
                            pkg = pkgmod.name.split(".")
                            pkg = pkg[: len(pkg) - (st.level - 1)]
                            base = ".".join(pkg + ([st.module] if st.module else []))
                        m = self.import_module(base)
                        return self.interp.getattr_(m, a.name)
        return None

    def do_import(self, s, env, mod):
        it = self.interp
        if isinstance(s, ast.Import):
            for a in s.names:
                if a.asname:
                    env[a.asname] = self.import_module(a.name)
                else:
                    parts = a.name.split(".")
                    for i in range(1, len(parts) + 1):
                        self.import_module(".".join(parts[:i]))
                    env[parts[0]] = self.import_module(parts[0])
            return
        base = s.module or ""
        if s.level:
            pkg = mod.g["__package__"].split(".")
            pkg = pkg[: len(pkg) - (s.level - 1)]
            base = ".".join(pkg + ([s.module] if s.module else []))
        m = self.import_module(base)
        for a in s.names:
            if a.name == "*":
                raise Unsupported("import *")
            v = None
            if isinstance(m, PModule):
                if a.name in m.g:
                    v = m.g[a.name]
                else:
                    sub = self.try_submodule(m, a.name)
                    if sub is not None:
                        v = sub
                    elif getattr(m, "lazy", False):
                        v = self.lazy_lookup(m, a.name)
                    if v is None:
                        raise PyRaise(ImportError(f"cannot import name '{a.name}' from '{m.name}'"))
            elif isinstance(m, StubModule):
                v = getattr(m, a.name)
            else:
                try:
                    v = getattr(m, a.name)
                except AttributeError:
                    try:
                        v = importlib.import_module(f"{base}.{a.name}")
                    except ImportError as e:
                        raise PyRaise(e)
            env[a.asname or a.name] = v

    # ---- convenience
    def get(self, dotted):
        """'flow.record.packer:RecordPacker.pack_obj' -> interpreter value"""
        modname, _, qual = dotted.partition(":")
        v = self.import_module(modname)
        for part in qual.split(".") if qual else []:
            if isinstance(v, PClass):
                v = v.d[part] if part in v.d else v.find(part)
            else:
                v = self.interp.getattr_(v, part)
        return v

"""Small models: warnings/logging (no-ops), importlib, functools.lru_cache, os.environ, hashlib on symbolic input."""
import functools
import hashlib
import importlib
import logging
import os
import warnings

import z3

from ..errors import PyRaise, Unsupported
from ..values import PyBytes, SBool, SBytes, SStr, Sym
from . import note

sha256_of = z3.Function("sha256", PyBytes, PyBytes)
bytes_prefix = z3.Function("bytes_prefix", PyBytes, z3.IntSort(), PyBytes)  # b[:n] of an abstract byte string


class SymHash:
    """hashlib.sha256(<abstract bytes>): only digest() is available, as an uninterpreted function of the input."""

    def __init__(self, t):
        self.t = t

    def digest(self):
        note("hashlib.sha256", "SHA-256 of abstract bytes is an uninterpreted function of the input (32 bytes)")
        return SBytes(sha256_of(self.t), length=32)

    def hexdigest(self):
        raise Unsupported("hexdigest of a symbolic hash")


def bytes_attr_model(it, o, name):
    if isinstance(o, SBytes) and name == "__getitem__":
        def f(k):
            if isinstance(k, slice) and k.step is None and k.start in (None, 0) and isinstance(k.stop, int) and k.stop >= 0 and isinstance(o.length, int) and k.stop <= o.length:
                return SBytes(bytes_prefix(o.t, k.stop), length=k.stop)
            raise Unsupported("subscript of abstract bytes")
        return f
    return NotImplemented


class _Identity:
    def __call__(self, f=None, *a, **k):
        return f if f is not None else self


def _lru_decorator():
    """functools.lru_cache(...) applied by a call: the result is a memoising copy of the function (the original stays uncached)"""

    def decorate(f=None, *a, **k):
        import copy

        if type(f).__name__ == "PFunc":
            g = copy.copy(f)
            g.memo = {}
            return g
        return f if f is not None else decorate

    return decorate


def install(it):
    M = it.models
    M[warnings.warn] = lambda it_, *a, **k: None
    M[importlib.import_module] = lambda it_, name, package=None: it_.loader.import_module(name)
    M[functools.lru_cache] = lambda it_, *a, **k: (_lru_decorator()(a[0]) if a and not isinstance(a[0], (int, type(None))) else _lru_decorator())
    M[functools.wraps] = lambda it_, *a, **k: _Identity()
    note("lru_cache", "functools.lru_cache memoises on concrete hashable arguments without eviction; with symbolic arguments the function body is executed (cached functions are assumed deterministic)")
    note("logging/warnings", "logging and warnings calls have no effect on the properties and are skipped")
    _orig = it.call_native

    def call_native(fn, args, kwargs):
        slf = getattr(fn, "__self__", None)
        if isinstance(fn, _Identity):  # lru_cache(n)(f): the decorator object applied to an interpreted function
            return fn(*args, **kwargs)
        if isinstance(slf, logging.Logger):
            return None
        if slf is os.environ:
            return getattr({}, fn.__name__)(*args, **kwargs)  # the checker's own environment is not an input
        if fn is hashlib.sha256 and args and isinstance(it.unbase(args[0]), SBytes):
            return SymHash(it.unbase(args[0]).t)
        if fn is hashlib.sha256 and args and isinstance(it.unbase(args[0]), Sym):
            raise Unsupported("sha256 of symbolic data (use the descriptor-hash contract)")
        return _orig(fn, args, kwargs)

    it.call_native = call_native
    it.attr_models.append(bytes_attr_model)
    install_compile(it)
    install_ipaddress(it)
    install_ast_visitors(it)
    install_unicodedata(it)
    install_total_ordering(it)
    install_binascii(it)


# ---- compile / eval of expression text (CompiledSelector) ---------------------------------------------------------------
class CodeStub:
    """Result of compile(source, ..., mode) without PyCF_ONLY_AST: the parsed tree stands for the code object."""

    def __init__(self, source, mode, tree):
        self.source, self.mode, self.tree = source, mode, tree

    def __repr__(self):
        return f"<code {self.source!r}>"


def m_compile(it, source, filename="<string>", mode="exec", flags=0, dont_inherit=False, optimize=-1, **kw):
    import ast

    from ..values import PObj, Sym

    source = it.unbase(source)
    if isinstance(source, ast.AST):
        return CodeStub(ast.unparse(source), mode, source)
    if not isinstance(source, str):
        raise Unsupported("compile() of symbolic source")
    try:
        tree = ast.parse(source, filename=filename, mode=mode)
    except SyntaxError as e:
        raise PyRaise(e)
    if flags & ast.PyCF_ONLY_AST:
        return tree
    return CodeStub(source, mode, tree)


def m_eval(it, code, g=None, l=None):
    import ast

    from ..values import PModule

    note("eval/compile", "eval(compile(text, mode='eval'), ns) evaluates the parsed expression with the interpreter's own Python semantics in namespace ns")
    if isinstance(code, str):
        code = m_compile(it, code, "<string>", "eval")
    if not isinstance(code, CodeStub) or code.mode != "eval":
        raise Unsupported("eval of a non-expression code object")
    m = PModule("<eval>")
    m.g = g if g is not None else {}
    it.event("eval", code.source)
    if l is not None and l is not g:
        # eval(code, globals, locals): names are looked up in locals, then globals; nested function scopes (generator expressions, lambdas) see the globals only
        from ..interp import Env

        if not isinstance(l, dict):
            raise Unsupported("eval() with a locals mapping that is not a dict")
        env = Env(None)
        env.update(l)
        env.eval_locals = True
        return it.eval(code.tree.body, env, m)
    return it.eval(code.tree.body, m.g, m)


def install_ast_visitors(it):
    """ast.NodeVisitor / ast.NodeTransformer as base classes of an interpreted class: visit() dispatches on the node class to the (interpreted)
    visit_<Class> method, generic_visit() walks the fields (the standard library's own pure-Python definitions, restated)."""
    import ast

    from ..values import PFunc, PBound

    def m_visit(it_, obj, node):
        f = obj.cls.find("visit_" + type(node).__name__)
        if isinstance(f, PFunc):
            return it_.call(PBound(f, obj), [node], {})
        return it_.call(it_.getattr_(obj, "generic_visit"), [node], {})

    def m_generic_visit(it_, obj, node):
        visit = it_.getattr_(obj, "visit")
        for field, value in ast.iter_fields(node):
            if isinstance(value, list):
                for item in value:
                    if isinstance(item, ast.AST):
                        it_.call(visit, [item], {})
            elif isinstance(value, ast.AST):
                it_.call(visit, [value], {})

    def m_generic_visit_transformer(it_, obj, node):
        visit = it_.getattr_(obj, "visit")
        for field, old_value in ast.iter_fields(node):
            if isinstance(old_value, list):
                new_values = []
                for value in old_value:
                    if isinstance(value, ast.AST):
                        value = it_.call(visit, [value], {})
                        if value is None:
                            continue
                        elif not isinstance(value, ast.AST):
                            new_values.extend(value)
                            continue
                    new_values.append(value)
                old_value[:] = new_values
            elif isinstance(old_value, ast.AST):
                new_node = it_.call(visit, [old_value], {})
                if new_node is None:
                    delattr(node, field)
                else:
                    setattr(node, field, new_node)
        return node

    for base in (ast.NodeVisitor, ast.NodeTransformer):
        it.native_method_models[(base, "visit")] = m_visit
    it.native_method_models[(ast.NodeVisitor, "generic_visit")] = m_generic_visit
    it.native_method_models[(ast.NodeTransformer, "generic_visit")] = m_generic_visit_transformer


def install_unicodedata(it):
    import unicodedata

    def m_normalize(it_, form, text):
        u = it_.unbase(text)
        if isinstance(u, SStr):
            note("unicodedata.normalize", "a deterministic function of the text about which nothing else is assumed (over-approximation: a refutation that depends on it must replay to count)")
            it_.approx.append("unicodedata.normalize")
            return SStr(z3.Function(f"unicodedata_normalize_{form}", z3.StringSort(), z3.StringSort())(u.t))
        return it_.call_native(unicodedata.normalize, [form, text], {})

    it.models[unicodedata.normalize] = m_normalize


def install_compile(it):
    import builtins
    import keyword

    def m_iskeyword(it_, s_):
        s_ = it_.unbase(s_)
        if isinstance(s_, SStr):
            return SBool(z3.InRe(s_.t, z3.Union(*[z3.Re(k) for k in keyword.kwlist])))
        return keyword.iskeyword(s_)

    it.models[keyword.iskeyword] = m_iskeyword

    it.models[builtins.compile] = m_compile
    it.models[builtins.eval] = m_eval


# ---- ipaddress on non-address objects ---------------------------------------------------------------------------------------
def install_ipaddress(it):
    import ipaddress as _ip

    from ..values import PObj, Opaque

    def wrap(fn):
        def m(it_, addr, *a, **k):
            from ..values import SInt
            from .ip import SymIP, ip_address_of_int

            u = it_.unbase(addr)
            if fn is _ip.ip_address and not a and not k:
                if isinstance(u, SymIP):
                    return u
                if type(u).__name__ == "IPText":
                    return u.ip
                if isinstance(u, SInt):
                    return ip_address_of_int(it_, u)
            if isinstance(u, SymIP):
                raise Unsupported("ip_network() of a symbolic address")
            if addr is None or isinstance(addr, PObj) and not addr.has_base:
                note("ipaddress", "ip_address(o)/ip_network(o) parse str(o) for an object that is not an int or bytes (ValueError when that text is not an address, e.g. a default object repr)")
                from .strings import str_of
                from ..values import PFunc

                if addr is None or not isinstance(addr.cls.find("__str__"), PFunc):
                    raise PyRaise(ValueError(f"{addr!r} does not appear to be an IPv4 or IPv6 address"))
                addr = str_of(it_, addr)
            return it_.call_native(fn, [addr] + list(a), k)

        return m

    import socket

    def m_inet_aton(it_, s_):
        if not isinstance(it_.unbase(s_), (str, bytes)) and not isinstance(s_, Opaque):
            raise PyRaise(TypeError(f"inet_aton() argument 1 must be str, not {it_.type_name(s_)}"))
        return it_.call_native(socket.inet_aton, [s_], {})

    it.models[socket.inet_aton] = m_inet_aton
    it.models[_ip.ip_address] = wrap(_ip.ip_address)
    it.models[_ip.ip_network] = wrap(_ip.ip_network)


# ---- functools.total_ordering on an interpreted class -----------------------------------------------------------------------
TOTAL_ORDERING_SRC = """
def _gt_from_lt(self, other):
    op_result = type(self).__lt__(self, other)
    if op_result is NotImplemented:
        return op_result
    return not op_result and self != other
def _le_from_lt(self, other):
    op_result = type(self).__lt__(self, other)
    if op_result is NotImplemented:
        return op_result
    return op_result or self == other
def _ge_from_lt(self, other):
    op_result = type(self).__lt__(self, other)
    if op_result is NotImplemented:
        return op_result
    return not op_result
def _ge_from_le(self, other):
    op_result = type(self).__le__(self, other)
    if op_result is NotImplemented:
        return op_result
    return not op_result or self == other
def _lt_from_le(self, other):
    op_result = type(self).__le__(self, other)
    if op_result is NotImplemented:
        return op_result
    return op_result and self != other
def _gt_from_le(self, other):
    op_result = type(self).__le__(self, other)
    if op_result is NotImplemented:
        return op_result
    return not op_result
def _lt_from_gt(self, other):
    op_result = type(self).__gt__(self, other)
    if op_result is NotImplemented:
        return op_result
    return not op_result and self != other
def _ge_from_gt(self, other):
    op_result = type(self).__gt__(self, other)
    if op_result is NotImplemented:
        return op_result
    return op_result or self == other
def _le_from_gt(self, other):
    op_result = type(self).__gt__(self, other)
    if op_result is NotImplemented:
        return op_result
    return not op_result
def _le_from_ge(self, other):
    op_result = type(self).__ge__(self, other)
    if op_result is NotImplemented:
        return op_result
    return not op_result or self == other
def _gt_from_ge(self, other):
    op_result = type(self).__ge__(self, other)
    if op_result is NotImplemented:
        return op_result
    return op_result and self != other
def _lt_from_ge(self, other):
    op_result = type(self).__ge__(self, other)
    if op_result is NotImplemented:
        return op_result
    return not op_result
"""
_CONVERT = {"__lt__": [("__gt__", "_gt_from_lt"), ("__le__", "_le_from_lt"), ("__ge__", "_ge_from_lt")], "__le__": [("__ge__", "_ge_from_le"), ("__lt__", "_lt_from_le"), ("__gt__", "_gt_from_le")],
            "__gt__": [("__lt__", "_lt_from_gt"), ("__ge__", "_ge_from_gt"), ("__le__", "_le_from_gt")], "__ge__": [("__le__", "_le_from_ge"), ("__gt__", "_gt_from_ge"), ("__lt__", "_lt_from_ge")]}


def install_total_ordering(it):
    import ast

    from ..values import PClass, PFunc, PModule

    def m_total_ordering(it_, cls):
        if not isinstance(cls, PClass):
            return functools.total_ordering(cls)
        note("functools.total_ordering", "modelled by the derivation functions of CPython's functools (text in pyvc/models/misc.py)")
        m = PModule("<functools.total_ordering>")
        for st in ast.parse(TOTAL_ORDERING_SRC).body:
            it_.stmt(st, m.g, m)
        roots = [op for op in ("__lt__", "__le__", "__gt__", "__ge__") if isinstance(cls.find(op), PFunc)]
        if not roots:
            raise PyRaise(ValueError("must define at least one ordering operation: < > <= >="))
        root = [r for r in ("__lt__", "__le__", "__gt__", "__ge__") if r in roots][0]
        for opname, fn in _CONVERT[root]:
            if opname not in roots:
                f = m.g[fn]
                f.owner = cls
                f.name = opname
                cls.d[opname] = f
        return cls

    it.models[functools.total_ordering] = m_total_ordering


# ---- binascii on symbolic text ---------------------------------------------------------------------------------------------------
def install_binascii(it):
    import binascii

    a2b = z3.Function("a2b_hex", z3.StringSort(), PyBytes)
    b2a = z3.Function("b2a_hex", PyBytes, z3.StringSort())
    hexd = z3.Union(z3.Range("0", "9"), z3.Range("a", "f"), z3.Range("A", "F"))

    def m_a2b_hex(it_, s_):
        s_ = it_.unbase(s_)
        if isinstance(s_, SStr):
            note("binascii.a2b_hex", "succeeds exactly for an even number of hex digits (binascii.Error otherwise) and yields len(s)/2 bytes; an uninterpreted injective function of the text")
            it_.require(z3.InRe(s_.t, z3.Star(z3.Concat(hexd, hexd))), binascii.Error("Non-hexadecimal digit found"))
            return SBytes(a2b(s_.t), length=z3.Length(s_.t) / 2)
        return it_.call_native(binascii.a2b_hex, [s_], {})

    import urllib.parse

    def m_urlparse(it_, url="", *a, **k):
        u = it_.unbase(url)
        from ..values import PObj as _PObj

        if isinstance(u, _PObj):
            raise PyRaise(AttributeError(f"'{it_.type_name(u)}' object has no attribute 'decode'"))  # (urlparse on an object that is neither str nor bytes fails in _coerce_args)
        if isinstance(u, SStr):
            note("urllib.parse.urlparse", "urlparse(text) returns an opaque parse result for symbolic text (only stored, its parts are read lazily by properties)")
            from ..values import Opaque

            return Opaque("urlparse")
        return it_.call_native(urllib.parse.urlparse, [u] + list(a), k)

    it.models[urllib.parse.urlparse] = m_urlparse
    it.models[binascii.a2b_hex] = m_a2b_hex
    it.models[binascii.unhexlify] = m_a2b_hex

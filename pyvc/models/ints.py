"""Symbolic integers: assumed contracts of int.bit_length / to_bytes / from_bytes."""
import z3

from .. import solver
from ..errors import PyRaise, Unsupported
from ..values import PyBytes, SBytes, SInt
from . import note

NOTIMPL = NotImplemented
to_bytes_big = z3.Function("int_to_bytes_big", z3.IntSort(), z3.IntSort(), PyBytes)
to_bytes_little = z3.Function("int_to_bytes_little", z3.IntSort(), z3.IntSort(), PyBytes)
from_bytes_big = z3.Function("int_from_bytes_big", PyBytes, z3.IntSort())
from_bytes_little = z3.Function("int_from_bytes_little", PyBytes, z3.IntSort())
bit_length = z3.Function("bit_length", z3.IntSort(), z3.IntSort())
_v, _n = z3.Ints("_v _n")


def _axioms():
    note("int.to_bytes/from_bytes/bit_length", "from_bytes(to_bytes(v, n, order), order) == v when v >= 0 and bit_length(v) <= 8n, OverflowError otherwise; bit_length(v) >= 0; len(to_bytes(v,n)) == n")
    for tb, fb in ((to_bytes_big, from_bytes_big), (to_bytes_little, from_bytes_little)):
        solver.add_axiom(f"int-bytes-{tb.name()}", z3.ForAll([_v, _n], z3.Implies(z3.And(_v >= 0, _n >= 0, bit_length(_v) <= 8 * _n), fb(tb(_v, _n)) == _v)), trigger=([_v, _n], tb(_v, _n)))
    solver.add_axiom("bit_length-nonneg", z3.ForAll([_v], z3.Implies(_v >= 0, bit_length(_v) >= 0)), trigger=([_v], bit_length(_v)))


def attr_model(it, o, name):
    if isinstance(o, SInt):
        if name == "bit_length":
            _axioms()
            return lambda: SInt(bit_length(z3.If(o.t >= 0, o.t, -o.t)))
        if name == "to_bytes":
            _axioms()

            def f(length=1, byteorder="big", *, signed=False):
                if signed:
                    raise Unsupported("signed to_bytes")
                zn = it.zint(length)
                it.require(z3.And(o.t >= 0, zn >= 0, bit_length(o.t) <= 8 * zn), OverflowError("int too big to convert"))
                return SBytes((to_bytes_big if byteorder == "big" else to_bytes_little)(o.t, zn), length=zn)

            return f
        if name in ("real", "numerator"):
            return o
        return NOTIMPL
    if o is int and name == "from_bytes":
        def f(b, byteorder="big", *, signed=False):
            b = it.unbase(b)
            if isinstance(b, SBytes):
                _axioms()
                return SInt((from_bytes_big if byteorder == "big" else from_bytes_little)(b.t))
            try:
                return int.from_bytes(b, byteorder, signed=signed)
            except Exception as e:
                raise PyRaise(e)

        return f
    return NOTIMPL


def install(it):
    it.attr_models.append(attr_model)

"""struct.pack / unpack for the formats the package uses (">I"), over symbolic integers."""
import struct

import z3

from .. import solver
from ..errors import PyRaise, Unsupported
from ..values import PyBytes, SBytes, SInt
from . import note

be32 = z3.Function("BE32", z3.IntSort(), PyBytes)
le32 = z3.Function("LE32", z3.IntSort(), PyBytes)
un_be32 = z3.Function("unBE32", PyBytes, z3.IntSort())
un_le32 = z3.Function("unLE32", PyBytes, z3.IntSort())
FORMATS = {">I": (be32, un_be32), "!I": (be32, un_be32), "<I": (le32, un_le32)}


def _axioms():
    note("struct", "pack('>I', n) is the 4-byte big-endian encoding of 0 <= n < 2**32 (struct.error otherwise); unpack is its inverse; '<I' is a different encoding")
    n = z3.Int("_sn")
    for name, (p, u) in (("be", FORMATS[">I"]), ("le", FORMATS["<I"])):
        solver.add_axiom(f"struct-{name}-inverse", z3.ForAll([n], z3.Implies(z3.And(n >= 0, n < 2**32), u(p(n)) == n)), trigger=([n], p(n)))
    solver.add_axiom("struct-be-le-differ", be32(1) != le32(1))


def m_pack(it, fmt, *vals):
    if all(it.concrete(v) for v in vals):
        try:
            return struct.pack(fmt, *[it.unbase(v) for v in vals])
        except Exception as e:
            raise PyRaise(e)
    if fmt in FORMATS and len(vals) == 1:
        _axioms()
        z = it.zint(vals[0])
        it.require(z3.And(z >= 0, z < 2**32), struct.error("'I' format requires 0 <= number <= 4294967295"))
        return SBytes(FORMATS[fmt][0](z), length=4)
    raise Unsupported(f"struct.pack({fmt!r}) with symbolic values")


def m_unpack(it, fmt, data):
    data = it.unbase(data)
    if it.concrete(data):
        try:
            return struct.unpack(fmt, data)
        except Exception as e:
            raise PyRaise(e)
    if fmt in FORMATS and isinstance(data, SBytes):
        _axioms()
        if z3.is_app(data.t) and data.t.decl().eq(FORMATS[fmt][0]):
            return (SInt(data.t.arg(0)),)  # unpack(pack(n)) == n, applied syntactically (pack already required 0 <= n < 2**32)
        r = FORMATS[fmt][1](data.t)
        it.assume(z3.And(r >= 0, r < 2**32))
        return (SInt(r),)
    raise Unsupported(f"struct.unpack({fmt!r}) of symbolic data")


def install(it):
    it.models[struct.pack] = m_pack
    it.models[struct.unpack] = m_unpack

"""Symbolic dictionaries (arbitrary content subject to an invariant)."""
import z3

from ..errors import Unsupported
from ..values import Opaque, PObj, SymDict

NOTIMPL = NotImplemented
key_str = z3.Function("key_str", z3.StringSort(), SymDict.Key)
key_pair = z3.Function("key_pair", z3.StringSort(), z3.IntSort(), SymDict.Key)
key_obj = z3.Function("key_obj", z3.DeclareSort("PyVal"), SymDict.Key)
is_pair_key = z3.Function("is_pair_key", SymDict.Key, z3.BoolSort())


_AX = []


def _axioms():
    if _AX:
        return
    _AX.append(1)
    from .. import solver

    s, n = z3.String("_ks"), z3.Int("_kn")
    s2, n2 = z3.String("_ks2"), z3.Int("_kn2")
    solver.add_axiom("dict-key-pair-injective", z3.ForAll([s, n, s2, n2], z3.Implies(key_pair(s, n) == key_pair(s2, n2), z3.And(s == s2, n == n2))))
    solver.add_axiom("dict-key-str-injective", z3.ForAll([s, s2], z3.Implies(key_str(s) == key_str(s2), s == s2)))
    solver.add_axiom("dict-key-kinds-disjoint", z3.ForAll([s, n, s2], key_pair(s, n) != key_str(s2)))
    solver.add_axiom("dict-key-is-pair", z3.ForAll([s, n], is_pair_key(key_pair(s, n))))
    solver.add_axiom("dict-key-not-pair", z3.ForAll([s], z3.Not(is_pair_key(key_str(s)))))


def key_term(it, k):
    _axioms()
    zs = it.zstr(k) if not isinstance(k, (tuple, PObj)) else None
    if zs is not None:
        return key_str(zs)
    if isinstance(k, tuple) and len(k) == 2:
        a, b = it.zstr(k[0]), it.zint(k[1])
        if a is not None and b is not None:
            return key_pair(a, b)
    if isinstance(k, Opaque):
        return key_obj(k.t)
    raise Unsupported(f"dictionary key {k!r}")


def attr_model(it, o, name):
    if isinstance(o, SymDict):
        if name == "get":
            def get(k, default=None):
                kt = key_term(it, k)
                if it.branch(z3.Select(o.present, kt)):
                    return it.symdict_value(o, kt)
                return default
            return get
        raise Unsupported(f"symbolic dict .{name}")
    return NOTIMPL


def install(it):
    it.attr_models.append(attr_model)

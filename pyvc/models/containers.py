"""Symbolic dictionaries (arbitrary content subject to an invariant)."""
import z3

from ..errors import Unsupported
from ..values import Opaque, PObj, SymDict

NOTIMPL = NotImplemented
key_str = z3.Function("key_str", z3.StringSort(), SymDict.Key)
key_pair = z3.Function("key_pair", z3.StringSort(), z3.IntSort(), SymDict.Key)
key_obj = z3.Function("key_obj", z3.DeclareSort("PyVal"), SymDict.Key)
key_int = z3.Function("key_int", z3.IntSort(), SymDict.Key)
is_pair_key = z3.Function("is_pair_key", SymDict.Key, z3.BoolSort())


_AX = []


def _axioms():
    if _AX:
        return
    _AX.append(1)
    from .. import solver

    s, n = z3.String("_ks"), z3.Int("_kn")
    s2, n2 = z3.String("_ks2"), z3.Int("_kn2")
    solver.add_axiom("dict-key-pair-injective", z3.ForAll([s, n, s2, n2], z3.Implies(key_pair(s, n) == key_pair(s2, n2), z3.And(s == s2, n == n2))))
    solver.add_axiom("dict-key-str-injective", z3.ForAll([s, s2], z3.Implies(key_str(s) == key_str(s2), s == s2)))
    solver.add_axiom("dict-key-kinds-disjoint", z3.ForAll([s, n, s2], key_pair(s, n) != key_str(s2)))
    solver.add_axiom("dict-key-is-pair", z3.ForAll([s, n], is_pair_key(key_pair(s, n))))
    solver.add_axiom("dict-key-not-pair", z3.ForAll([s], z3.Not(is_pair_key(key_str(s)))))


def key_term(it, k):
    # injectivity / disjointness of the key constructors is applied structurally (key_eq, present); the quantified axioms above are not
    # added to queries any more: they made satisfiable queries answer `unknown`, i.e. refutations undecided
    zs = it.zstr(k) if not isinstance(k, (tuple, PObj)) else None
    if zs is not None:
        return key_str(zs)
    if isinstance(k, tuple) and len(k) == 2:
        a, b = it.zstr(k[0]), it.zint(k[1])
        if a is not None and b is not None:
            return key_pair(a, b)
    if isinstance(k, Opaque):
        return key_obj(k.t)
    zi = it.zint(k) if not isinstance(k, (tuple, PObj, bool)) else None
    if zi is not None:
        return key_int(zi)
    raise Unsupported(f"dictionary key {k!r}")


def key_eq(a, b):
    """Equality of two key terms as a formula over their components (injectivity / disjointness applied structurally)."""
    ctors = (key_str, key_pair, key_obj, key_int)
    if z3.is_app(a) and z3.is_app(b) and any(a.decl().eq(c) for c in ctors) and any(b.decl().eq(c) for c in ctors):
        if not a.decl().eq(b.decl()):
            return z3.BoolVal(False)
        return z3.simplify(z3.And(*[a.arg(i) == b.arg(i) for i in range(a.num_args())]))
    return z3.simplify(a == b)


def present(d, kt):
    """Formula for `kt in d`: one of the keys stored during this run (structural equality) or present initially."""
    alts = [key_eq(k2, kt) for k2, _ in d.stores]
    if any(z3.is_true(a) for a in alts):
        return z3.BoolVal(True)
    alts = [a for a in alts if not z3.is_false(a)]
    return z3.Or(*alts, z3.Select(d.present0, kt)) if alts else z3.Select(d.present0, kt)


def attr_model(it, o, name):
    if isinstance(o, SymDict):
        if name == "get":
            def get(k, default=None):
                kt = key_term(it, k)
                if it.branch(present(o, kt)):
                    return it.symdict_value(o, kt)
                return default
            return get
        raise Unsupported(f"symbolic dict .{name}")
    return NOTIMPL


def install(it):
    it.attr_models.append(attr_model)

"""Symbolic datetimes (assumed contract on datetime.datetime).

A datetime IS the record (year, month, day, hour, minute, second, microsecond, tzinfo, fold); the components may be symbolic integers, tzinfo is
None or a concrete tzinfo object.  The constructor accepts exactly the calendar ranges (ValueError otherwise); timetuple()/replace() are field
wise; isoformat() yields an abstract text that carries the wall clock, the offset and the separator and that fromisoformat() maps back to the
same wall clock and offset (inverse on wall clock + offset: the standard library's contract, sampled by C13.cross); utcoffset() is the fixed
offset of a datetime.timezone (zone databases need concrete values).
"""
import datetime as _dtm

import z3

from ..errors import PyRaise, Unsupported
from ..values import Opaque, SInt
from . import note

FIELDS = ("year", "month", "day", "hour", "minute", "second", "microsecond")


def _z(v):
    return v.t if isinstance(v, SInt) else z3.IntVal(int(v))


def days_in_month(y, m):
    leap = z3.And(y % 4 == 0, z3.Or(y % 100 != 0, y % 400 == 0))
    return z3.If(z3.Or(m == 4, m == 6, m == 9, m == 11), 30, z3.If(m == 2, z3.If(leap, 29, 28), 31))


class ISOText:
    """isoformat() of a symbolic datetime."""

    def __init__(self, dt, sep="T"):
        self.dt, self.sep = dt, sep
        self.length = 32

    def __repr__(self):
        return f"<iso {self.dt!r} sep={self.sep!r}>"


class SymDT:
    def __init__(self, it, comps, tzinfo=None, fold=0):
        self.it = it
        self.comps = list(comps)
        self.tzinfo, self.fold = tzinfo, fold

    @classmethod
    def build(cls, it, args, kwargs):
        """datetime(year, month, day[, hour[, minute[, second[, microsecond[, tzinfo]]]]], *, fold=0) with symbolic components"""
        note("datetime", "a datetime is the record (y, m, d, H, M, S, us, tzinfo, fold); constructor ranges as documented; timetuple / replace field wise; "
             "fromisoformat(isoformat(d)) has the wall clock and UTC offset of d; utcoffset of datetime.timezone is fixed")
        names = list(FIELDS) + ["tzinfo"]
        vals = dict(zip(names, args))
        for k, v in kwargs.items():
            if k in vals:
                raise PyRaise(TypeError(f"argument for datetime() given by name ('{k}') and position"))
            vals[k] = v
        if len(args) > 8:
            raise PyRaise(TypeError("datetime() takes at most 8 positional arguments"))
        for req in ("year", "month", "day"):
            if req not in vals:
                raise PyRaise(TypeError(f"datetime() missing required argument '{req}'"))
        comps = []
        for n in FIELDS:
            v = it.unbase(vals.get(n, 0))
            if isinstance(v, bool) or not isinstance(v, (int, SInt)):
                raise PyRaise(TypeError(f"'{it.type_name(v)}' object cannot be interpreted as an integer"))
            comps.append(v)
        y, mo, d, h, mi, s, us = [_z(c) for c in comps]
        it.require(z3.And(y >= 1, y <= 9999), ValueError("year is out of range"))
        it.require(z3.And(mo >= 1, mo <= 12), ValueError("month must be in 1..12"))
        it.require(z3.And(d >= 1, d <= days_in_month(y, mo)), ValueError("day is out of range for month"))
        it.require(z3.And(h >= 0, h <= 23), ValueError("hour must be in 0..23"))
        it.require(z3.And(mi >= 0, mi <= 59), ValueError("minute must be in 0..59"))
        it.require(z3.And(s >= 0, s <= 59), ValueError("second must be in 0..59"))
        it.require(z3.And(us >= 0, us <= 999999), ValueError("microsecond must be in 0..999999"))
        tz = vals.get("tzinfo")
        if tz is not None and not isinstance(tz, _dtm.tzinfo):
            raise PyRaise(TypeError("tzinfo argument must be None or of a tzinfo subclass"))
        fold = vals.get("fold", 0)
        return cls(it, comps, tz, fold)

    # ---- attributes
    def __getattr__(self, name):
        if name in FIELDS:
            return self.comps[FIELDS.index(name)]
        raise AttributeError(name)

    def timetuple(self):
        return tuple(self.comps[:6]) + (Opaque("weekday"), Opaque("yearday"), -1)

    def replace(self, **kw):
        comps = list(self.comps)
        tz, fold = self.tzinfo, self.fold
        for k, v in kw.items():
            if k in FIELDS:
                comps[FIELDS.index(k)] = v
            elif k == "tzinfo":
                tz = v
            elif k == "fold":
                fold = v
            else:
                raise PyRaise(TypeError(f"'{k}' is an invalid keyword argument for replace()"))
        return SymDT(self.it, comps, tz, fold)

    def utcoffset(self):
        if self.tzinfo is None:
            return None
        if isinstance(self.tzinfo, _dtm.timezone):
            return self.tzinfo.utcoffset(None)
        raise Unsupported("utcoffset of a symbolic datetime in a zone database time zone")

    def isoformat(self, sep="T", timespec="auto"):
        return ISOText(self, sep)

    def astimezone(self, tz=None):
        raise Unsupported("astimezone of a symbolic datetime")

    def same_as(self, other):
        """z3 Bool: same wall clock; python bool conjunct: same offset and fold"""
        if not isinstance(other, SymDT):
            return False
        off_a, off_b = self.utcoffset(), other.utcoffset()
        if off_a != off_b or self.fold != other.fold:
            return False
        return z3.And(*[_z(a) == _z(b) for a, b in zip(self.comps, other.comps)])

    def __repr__(self):
        return f"<symbolic datetime {self.comps} {self.tzinfo}>"


def from_iso(it, text):
    """fromisoformat of an abstract ISO text: same wall clock, a fixed-offset tzinfo of the same offset (UTC for offset 0), fold not carried."""
    d = text.dt
    off = d.utcoffset()
    tz = None if off is None else (_dtm.timezone.utc if off == _dtm.timedelta(0) else _dtm.timezone(off))
    return SymDT(it, d.comps, tz, 0)

"""Abstract model of msgpack (assumed contract on the C extension).

Packed data is not a byte string but the *tree* msgpack would encode; `unpackb` walks the tree back.  The real
hooks of the package (`default=pack_obj`, `ext_hook=unpack_obj`) are called exactly where msgpack calls them.
"""
import collections

import z3

from ..errors import PyRaise, Unsupported
from ..values import Opaque, PObj, SBool, SBytes, SInt, SStr, Sym
from . import note

ExtType = collections.namedtuple("ExtType", "code data")
INT_MIN, INT_MAX = -(2**63), 2**64 - 1


_SPEC = None


def spec_codec():
    """The byte-level codec written from the msgpack specification (/verif/spec/msgpack_spec.py)."""
    global _SPEC
    if _SPEC is None:
        import importlib.util
        import os

        f = os.path.join(os.path.dirname(os.path.dirname(os.path.dirname(os.path.abspath(__file__)))), "spec", "msgpack_spec.py")
        sp = importlib.util.spec_from_file_location("msgpack_spec", f)
        _SPEC = importlib.util.module_from_spec(sp)
        sp.loader.exec_module(_SPEC)
    return _SPEC


class MPBytes:
    """Result of packb: the msgpack tree (abstract bytes).

    `concrete` holds the byte string the msgpack specification assigns to the tree when every leaf is concrete (then `length` is its
    length); otherwise the bytes are abstract and `length` is a fresh positive integer term (an encoding is never empty)."""

    _n = 0

    def __init__(self, tree):
        self.tree = tree
        try:
            self.concrete = spec_codec().encode(tree)
            self.length = len(self.concrete)
        except OverflowError:
            raise
        except Exception:
            self.concrete = None
            MPBytes._n += 1
            self.length = z3.Int(f"mplen!{MPBytes._n}")

    def __repr__(self):
        return f"<msgpack {self.tree!r}>"


class MPTrunc:
    """A proper prefix (possibly empty) of a packed blob: what a reader gets from a file that ends inside a frame body."""

    def __init__(self, blob, length):
        self.blob, self.length = blob, length

    def __repr__(self):
        return f"<truncated msgpack {self.length} of {self.blob!r}>"


ERRORS = ["surrogateescape"]  # the error handler of the packb call being modelled (a string leaf L stands for the bytes L.encode("utf-8", "surrogateescape"))


def tree_of(it, obj, default, used=False):
    if isinstance(obj, ExtType):
        return ("ext", obj.code, obj.data)
    if isinstance(obj, PObj) and obj.has_base and not isinstance(obj.base, Opaque) and type(obj.base).__name__ not in ("datetime",) and not hasattr(obj.base, "isoformat"):
        return tree_of(it, obj.base, default, used)  # strict_types=False: subclasses of int/str/bytes/list/float
    if isinstance(obj, str):
        try:
            raw = obj.encode("utf-8", ERRORS[-1] or "strict")
        except UnicodeEncodeError as e:
            raise PyRaise(e)
        except LookupError:
            raise Unsupported(f"packb(unicode_errors={ERRORS[-1]!r})")
        return ("leaf", raw.decode("utf-8", "surrogateescape"))  # (the identity when the handler is surrogateescape)
    if isinstance(obj, SStr):
        if ERRORS[-1] != "surrogateescape":
            raise Unsupported(f"packb(unicode_errors={ERRORS[-1]!r}) of symbolic text")
        # packb(unicode_errors="surrogateescape"): every code point must be encodable, i.e. no surrogate other than an escaped byte U+DC80..U+DCFF
        S_ = z3.ReSort(z3.StringSort())
        ok = z3.Star(z3.Union(z3.Range(chr(0), chr(0xD7FF)), z3.Range(chr(0xDC80), chr(0xDCFF)), z3.Range(chr(0xE000), chr(0x2FFFF))))
        it.require(z3.InRe(obj.t, ok), UnicodeEncodeError("utf-8", "<symbolic>", 0, 1, "surrogates not allowed"))
        return ("leaf", obj)
    if obj is None or isinstance(obj, (bool, float, bytes, SBool, SBytes, MPBytes)) or type(obj).__name__ in ("ISOText", "IPText"):
        return ("leaf", obj)
    if isinstance(obj, (int, SInt)):
        z = it.zint(obj)
        if it.branch(z3.And(z >= INT_MIN, z <= INT_MAX)):
            return ("leaf", obj)
        if default is None or used:
            raise PyRaise(OverflowError("Integer value out of range"))
        return tree_of(it, it.call(default, [obj], {}), default, True)
    if isinstance(obj, (tuple, list)):
        return ("arr", [tree_of(it, x, default) for x in obj])
    if isinstance(obj, dict):
        return ("map", [(tree_of(it, k, default), tree_of(it, v, default)) for k, v in obj.items()])
    if default is None or used:
        raise PyRaise(TypeError(f"can not serialize '{it.type_name(obj)}' object"))
    return tree_of(it, it.call(default, [obj], {}), default, True)


def m_packb(it, obj, default=None, use_bin_type=True, unicode_errors="strict", **kw):
    note("msgpack", "packb/unpackb are modelled as the msgpack tree: None/bool/int in [-2^63,2^64)/float/str/bytes/array/map/ext; "
         "`default` is called once for anything else; unpackb(use_list=False, raw=False) is the inverse walk calling ext_hook; "
         "strings are the identity on the canonical (surrogateescape round-trippable) domain")
    it.event("packb-options", ("use_bin_type", use_bin_type), ("unicode_errors", unicode_errors))
    ERRORS.append(unicode_errors if unicode_errors is not None else "strict")
    try:
        b = MPBytes(tree_of(it, obj, default))
    finally:
        ERRORS.pop()
    if b.concrete is None:
        it.assume(b.length >= 1)
    return b


STRICT_KEYS = [True]  # unpackb(strict_map_key=...): the default (True) accepts only str / bytes as map keys (msgpack >= 1.0)


def untree(it, t, ext_hook, use_list, errors="surrogateescape"):
    k = t[0]
    if k == "leaf":
        if errors != "surrogateescape" and isinstance(t[1], (str, SStr)):
            # the leaf stands for the bytes L.encode("utf-8", "surrogateescape"): another handler may decode them differently or refuse them
            if not isinstance(t[1], str):
                raise Unsupported(f"unpackb(unicode_errors={errors!r}) of symbolic text")
            try:
                return t[1].encode("utf-8", "surrogateescape").decode("utf-8", errors or "strict")
            except UnicodeDecodeError as e:
                raise PyRaise(e)
            except LookupError:
                raise Unsupported(f"unpackb(unicode_errors={errors!r})")
        return t[1]
    if k == "arr":
        xs = [untree(it, x, ext_hook, use_list, errors) for x in t[1]]
        return xs if use_list else tuple(xs)
    if k == "map":
        out = {}
        for a, b in t[1]:
            key = untree(it, a, ext_hook, use_list, errors)
            if STRICT_KEYS[-1] and not isinstance(it.unbase(key), (str, bytes, SStr, SBytes)):
                raise PyRaise(ValueError(f"{it.type_name(key)} is not allowed for map key when strict_map_key=True"))
            out[key] = untree(it, b, ext_hook, use_list, errors)
        return out
    if k == "ext":
        if ext_hook is None:
            return ExtType(t[1], t[2])
        return it.call(ext_hook, [t[1], t[2]], {})
    raise Unsupported("msgpack tree node")


def tree_of_bytes(t):
    """Decoded concrete trees keep ext payloads as bytes; nothing to convert."""
    return t


def m_unpackb(it, data, ext_hook=None, use_list=True, raw=False, unicode_errors="strict", **kw):
    STRICT_KEYS.append(bool(kw.get("strict_map_key", True)))
    try:
        return _m_unpackb(it, data, ext_hook, use_list, raw, unicode_errors, **kw)
    finally:
        STRICT_KEYS.pop()


def _m_unpackb(it, data, ext_hook=None, use_list=True, raw=False, unicode_errors="strict", **kw):
    data = it.unbase(data)
    if isinstance(data, memoryview):
        data = bytes(data)
    if isinstance(data, MPTrunc):
        note("msgpack-prefix-free", "no proper prefix of a msgpack encoding is itself a complete encoding: unpackb of a truncated value raises ValueError (incomplete input), never returns a value")
        raise PyRaise(ValueError("Unpack failed: incomplete input"))
    if isinstance(data, (bytes, bytearray)):
        S = spec_codec()
        try:
            t = S.decode(bytes(data))
        except ValueError as e:
            raise PyRaise(ValueError(str(e)))
        it.event("unpackb-options", ("use_list", use_list), ("raw", raw), ("unicode_errors", unicode_errors), *sorted((k_, v_) for k_, v_ in kw.items() if it.concrete(v_)))
        return untree(it, t, ext_hook, use_list, unicode_errors if unicode_errors is not None else "strict")
    if not isinstance(data, MPBytes):
        raise Unsupported("unpackb of bytes that were not produced by the msgpack model")
    it.event("unpackb-options", ("use_list", use_list), ("raw", raw), ("unicode_errors", unicode_errors), *sorted((k_, v_) for k_, v_ in kw.items() if it.concrete(v_)))
    return untree(it, data.tree, ext_hook, use_list, unicode_errors if unicode_errors is not None else "strict")


class MPUnpacker:
    """msgpack.Unpacker(file_like=None, ...): a streaming decoder; feed(bytes) appends to its buffer, unpack() decodes and consumes the NEXT value of the
    buffer (bytes behind that value stay in the buffer: they are NOT an error), OutOfData when the buffer holds no complete value."""

    def __init__(self, it, args, kw):
        note("msgpack.Unpacker", "streaming decoder: unpack() returns the first complete value of what was fed and keeps the rest buffered (no ExtraData error); an incomplete value raises OutOfData")
        if args and args[0] is not None:
            raise Unsupported("msgpack.Unpacker over a file object")
        self.it, self.kw, self.buf = it, dict(kw), []

    def feed(self, data):
        self.buf.append(self.it.unbase(data))

    def _options(self):
        k = self.kw
        return k.get("ext_hook"), k.get("use_list", True), k.get("unicode_errors", "strict")

    def unpack(self):
        it = self.it
        ext_hook, use_list, errors = self._options()
        it.event("unpackb-options", ("use_list", use_list), ("raw", self.kw.get("raw", False)), ("unicode_errors", errors), *sorted((k_, v_) for k_, v_ in self.kw.items() if k_ not in ("ext_hook", "use_list", "raw", "unicode_errors") and it.concrete(v_)))
        if not self.buf:
            raise PyRaise(ValueError("OutOfData: No more data to unpack."))
        data = self.buf[0]
        parts = getattr(data, "parts", None)  # BCat: a packed value followed by further bytes
        if parts is not None:
            data = parts[0]
            if not isinstance(data, MPBytes):
                raise Unsupported("Unpacker over concatenated abstract bytes")
            self.buf[0:1] = list(parts[1:])
            return untree(it, data.tree, ext_hook, use_list, errors if errors is not None else "strict")
        if isinstance(data, MPTrunc):
            raise PyRaise(ValueError("OutOfData: incomplete input"))
        if isinstance(data, (bytes, bytearray)):
            S = spec_codec()
            try:
                t, pos = S._dec(bytes(data), 0)
            except ValueError as e:
                raise PyRaise(ValueError(str(e)))
            self.buf[0] = bytes(data)[pos:]
            return untree(it, t, ext_hook, use_list, errors if errors is not None else "strict")
        if isinstance(data, MPBytes):
            self.buf.pop(0)
            return untree(it, data.tree, ext_hook, use_list, errors if errors is not None else "strict")
        raise Unsupported("Unpacker fed with bytes that were not produced by the msgpack model")

    def __iter__(self):
        raise Unsupported("iteration over msgpack.Unpacker")


class MsgpackModel:
    """Stands for the `msgpack` module."""

    ExtType = ExtType

    @staticmethod
    def Unpacker(*a, **k):
        raise RuntimeError("model placeholder")

    @staticmethod
    def packb(*a, **k):
        raise RuntimeError("model placeholder")

    @staticmethod
    def unpackb(*a, **k):
        raise RuntimeError("model placeholder")


def install(it):
    it.loader.module_models["msgpack"] = MsgpackModel
    it.models[MsgpackModel.packb] = m_packb
    it.models[MsgpackModel.unpackb] = m_unpackb
    it.models[MsgpackModel.Unpacker] = lambda it_, *a, **k: MPUnpacker(it_, a, k)
    it.models[ExtType] = lambda it_, code, data: ExtType(code, data)

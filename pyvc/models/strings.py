"""Strings: str()/repr() of interpreter values, methods of symbolic strings, engine-aware str.format."""
import string as _string

import z3

from ..errors import PyRaise, Unsupported
from ..values import Opaque, PBound, PClass, PFunc, PObj, SBool, SBytes, SInt, SStr, Sym
from . import note

NOTIMPL = NotImplemented
S = z3.ReSort(z3.StringSort())
ANYSTAR = z3.Star(z3.AllChar(S))
py_str = z3.Function("py_str", z3.DeclareSort("PyVal"), z3.StringSort())
py_repr = z3.Function("py_repr", z3.DeclareSort("PyVal"), z3.StringSort())
str_of_int = z3.Function("str_of_int", z3.IntSort(), z3.StringSort())
enc_utf8 = z3.Function("utf8_surrogateescape_encode", z3.StringSort(), z3.StringSort())
dec_utf8 = z3.Function("utf8_surrogateescape_decode", z3.StringSort(), z3.StringSort())


def is_model_text(v):
    return type(v).__module__.startswith("pyvc.models") and type(v).__name__ in ("JSText", "JSLines", "ISOText", "IPText", "CsvRow")


def str_of(it, x):
    if isinstance(x, str):
        return x
    if isinstance(x, SStr):
        return x
    if isinstance(x, PObj):
        f = x.cls.find("__str__")
        if isinstance(f, PFunc):
            return it.call(PBound(f, x), [], {})
        if x.has_base and isinstance(x.base, BaseException):
            return str(x.base)
        if x.has_base:
            b = x.base
            if isinstance(b, (str, SStr)):
                return b
            f = x.cls.find("__repr__")
            if isinstance(f, PFunc) and not isinstance(b, str):
                return it.call(PBound(f, x), [], {})
            return str_of(it, b)
        f = x.cls.find("__repr__")
        if isinstance(f, PFunc):
            return it.call(PBound(f, x), [], {})
        return f"<{x.cls.name} object>"
    if type(x).__name__ == "SymIP":
        from .ip import IPText

        return IPText(x)
    if type(x).__name__ in ("IPText", "ISOText"):
        return x
    if isinstance(x, SInt):
        note("str(int)", "str() of an integer is an injective uninterpreted function")
        return SStr(str_of_int(x.t))
    if isinstance(x, SBool):
        return SStr(z3.If(x.t, z3.StringVal("True"), z3.StringVal("False")))
    if isinstance(x, Opaque):
        return SStr(py_str(x.t))
    if isinstance(x, Sym):
        raise Unsupported(f"str() of {x!r}")
    if isinstance(x, (list, tuple, dict)) and not it.concrete(x):
        return repr_of(it, x)
    if isinstance(x, PClass):
        return f"<class '{x.name}'>"
    try:
        return str(x)
    except Exception as e:
        raise PyRaise(e)


def repr_of(it, x):
    if isinstance(x, PObj):
        f = x.cls.find("__repr__")
        if isinstance(f, PFunc):
            return it.call(PBound(f, x), [], {})
        if x.has_base:
            return repr_of(it, x.base)
        return f"<{x.cls.name} object>"
    if isinstance(x, (list, tuple)) and not it.concrete(x):
        parts = [repr_of(it, e) for e in x]
        if all(isinstance(p, str) for p in parts):
            inner = ", ".join(parts) + ("," if isinstance(x, tuple) and len(x) == 1 else "")
            return ("[%s]" if isinstance(x, list) else "(%s)") % inner
        if all(isinstance(p, (str, SStr)) for p in parts):
            terms = [z3.StringVal("[" if isinstance(x, list) else "(")]
            for i, p_ in enumerate(parts):
                if i:
                    terms.append(z3.StringVal(", "))
                terms.append(it.zstr(p_))
            terms.append(z3.StringVal(("," if isinstance(x, tuple) and len(x) == 1 else "") + ("]" if isinstance(x, list) else ")")))
            return SStr(z3.Concat(*terms))
        raise Unsupported("repr of container with symbolic elements")
    if isinstance(x, SInt):
        return str_of(it, x)
    if isinstance(x, SStr):
        note("repr(str)", "repr(s) == \"'\" + s + \"'\" for strings of printable ASCII without quote and backslash; an uninterpreted function otherwise")
        plain = z3.Star(z3.Union(z3.Range(" ", "!"), z3.Range("#", "&"), z3.Range("(", "["), z3.Range("]", "~")))
        if it.branch(z3.InRe(x.t, plain)):
            return SStr(z3.Concat(z3.StringVal("'"), x.t, z3.StringVal("'")))
        it.approx.append("repr(str)")
        return SStr(z3.Function("str_repr", z3.StringSort(), z3.StringSort())(x.t))
    if isinstance(x, Opaque):
        return SStr(py_repr(x.t))
    if isinstance(x, Sym):
        raise Unsupported(f"repr() of {x!r}")
    try:
        return repr(x)
    except Exception as e:
        raise PyRaise(e)


def eq_const(it, sv, const):
    """z3 Bool for `sv == const` (sv symbolic str, const a Python str), kept in the pure regex-membership fragment.
    A slice that drops k characters at one end is compared through its base string:  t[:-k] == c  <=>  t in c.Sigma^k   (c non-empty)."""
    origin = getattr(sv, "origin", None)
    if origin is not None and const != "":
        kind, base_s, k = origin
        pad = z3.Loop(z3.AllChar(S), k, k) if k else z3.Re("")
        rx = z3.Concat(z3.Re(z3.StringVal(const)), pad) if kind == "drop_suffix" else z3.Concat(pad, z3.Re(z3.StringVal(const)))
        return in_base(it, base_s, rx)
    return z3.InRe(sv.t, z3.Re(z3.StringVal(const)))


def in_base(it, base_s, rx):
    origin = getattr(base_s, "origin", None)
    if origin is None:
        return z3.InRe(base_s.t, rx)
    kind, b2, k = origin
    pad = z3.Loop(z3.AllChar(S), k, k) if k else z3.Re("")
    # (only exact for strings at least k long; shorter ones give the empty slice, which the non-empty constant excludes)
    return in_base(it, b2, z3.Concat(rx, pad) if kind == "drop_suffix" else z3.Concat(pad, rx))


def split_str(it, sv):
    """Finite-domain case split of a symbolic string; a slice is split through its base string."""
    origin = getattr(sv, "origin", None)
    if origin is not None:
        kind, base_s, k = origin
        b = split_str(it, base_s)
        if b is None:
            return None
        return (b[:-k] if k else b) if kind == "drop_suffix" else b[k:]
    return it.split_values(sv.t)


def in_re(it, s, regex):
    return SBool(z3.InRe(it.zstr(s), regex))


def const_re(c):
    return z3.Re(z3.StringVal(c))


def attr_model(it, o, name):
    if isinstance(o, SStr):
        t = o.t
        if name == "startswith":
            def f(prefix, *a):
                ps = prefix if isinstance(prefix, tuple) else (prefix,)
                if all(isinstance(p, str) for p in ps) and not a:
                    # emitted as regex membership so that validator VCs stay in the pure InRe fragment
                    return SBool(z3.InRe(t, z3.Union(*[z3.Concat(const_re(p), ANYSTAR) for p in ps]) if len(ps) > 1 else z3.Concat(const_re(ps[0]), ANYSTAR)))
                raise Unsupported("startswith with symbolic prefix")
            return f
        if name == "endswith":
            def f(suffix, *a):
                ss = suffix if isinstance(suffix, tuple) else (suffix,)
                if all(isinstance(p, str) for p in ss) and not a:
                    return SBool(z3.InRe(t, z3.Union(*[z3.Concat(ANYSTAR, const_re(p)) for p in ss]) if len(ss) > 1 else z3.Concat(ANYSTAR, const_re(ss[0]))))
                raise Unsupported("endswith with symbolic suffix")
            return f
        if name == "encode":
            def f(encoding="utf-8", errors="strict"):
                note("str.encode/bytes.decode", "utf-8/surrogateescape encode and decode are inverse on the canonical domain")
                return SBytes(enc_bytes(t))
            return f
        if name == "replace":
            def f(old, new, *a):
                if isinstance(old, str) and isinstance(new, str) and not a:
                    return _replace_all(t, old, new, it)
                raise Unsupported("replace with symbolic arguments")
            return f
        if name == "format":
            raise Unsupported("format on symbolic template")
        if name == "__getitem__":
            def f(k):
                if isinstance(k, slice) and k.step is None:
                    lo = 0 if k.start is None else k.start
                    if isinstance(lo, int) and lo >= 0 and k.stop is None:
                        r = SStr(z3.SubString(t, lo, z3.Length(t) - lo))
                        r.origin = ("drop_prefix", o, lo)
                        return r
                    if isinstance(lo, int) and lo == 0 and isinstance(k.stop, int) and k.stop < 0:
                        r = SStr(z3.SubString(t, 0, z3.Length(t) + k.stop))
                        r.origin = ("drop_suffix", o, -k.stop)
                        return r
                    if isinstance(lo, int) and lo >= 0 and isinstance(k.stop, int) and k.stop < 0:
                        return SStr(z3.SubString(t, lo, z3.Length(t) + k.stop - lo))
                    if isinstance(lo, int) and lo >= 0 and isinstance(k.stop, int) and k.stop >= lo:
                        return SStr(z3.SubString(t, lo, k.stop - lo))
                raise Unsupported("subscript of symbolic string")
            return f
        if name in ("rstrip", "lstrip", "strip"):
            def f(chars=None):
                if not isinstance(chars, str) or not chars:
                    raise Unsupported(f"str.{name} without a constant character set")
                cs = z3.Union(*[z3.Re(c) for c in chars]) if len(chars) > 1 else z3.Re(chars)
                it.fresh = getattr(it, "fresh", 0) + 1
                core, pre, suf = z3.String(f"strip_core!{it.fresh}"), z3.String(f"strip_pre!{it.fresh}"), z3.String(f"strip_suf!{it.fresh}")
                conds = []
                if name in ("lstrip", "strip"):
                    conds += [z3.InRe(pre, z3.Star(cs)), z3.Not(z3.InRe(core, z3.Concat(cs, ANYSTAR)))]
                else:
                    conds.append(pre == z3.StringVal(""))
                if name in ("rstrip", "strip"):
                    conds += [z3.InRe(suf, z3.Star(cs)), z3.Not(z3.InRe(core, z3.Concat(ANYSTAR, cs)))]
                else:
                    conds.append(suf == z3.StringVal(""))
                it.assume(z3.And(t == z3.Concat(pre, core, suf), *conds))
                return SStr(core)

            return f
        if name in ("lower", "upper", "casefold", "title", "swapcase", "capitalize"):
            note("str case methods", "str.lower/upper/... are deterministic uninterpreted functions of the string (over-approximation: refutations that depend on them must replay to count)")

            def f(*a):
                if a:
                    raise Unsupported(f"str.{name} with arguments")
                it.approx.append(f"str.{name}")
                return SStr(z3.Function(f"str_{name}", z3.StringSort(), z3.StringSort())(t))

            return f
        if name == "isascii":
            return lambda: it.branch(z3.InRe(t, z3.Star(z3.Range(chr(0), chr(127)))))
        if name in ("rpartition", "partition", "split", "rsplit", "removesuffix", "removeprefix", "isidentifier", "isdecimal", "isdigit", "isalnum", "isalpha", "isascii", "splitlines", "find", "rfind", "index", "count", "title", "zfill", "ljust", "rjust"):
            def f(*a, **k):
                v = split_str(it, o)
                if v is None:
                    raise Unsupported(f"str.{name} on a symbolic string with infinitely many values")
                try:
                    return getattr(v, name)(*a, **k)
                except Exception as e:
                    raise PyRaise(e)

            return f
        if hasattr(str, name):
            from ..values import py_getattr, py_of_str

            return Opaque("strmethod", py_getattr(py_of_str(t), z3.StringVal(name)))   # unmodelled str method: opaque bound method
        return NOTIMPL
    return NOTIMPL


bytes_of = z3.Function("bytes_of_utf8", z3.StringSort(), z3.DeclareSort("PyBytes"))


def enc_bytes(t):
    return bytes_of(t)


def _replace_all(t, old, new, it=None):
    """str.replace(old, new) for constant old/new.  For a one-character `old` the replacement distributes over concatenation;
    constants are rewritten directly and a symbolic part that provably does not contain the character is left unchanged."""
    note("str.replace", "replace of a constant by a constant is replace_all; for a one-character pattern it distributes over concatenation")
    if len(old) == 1:
        def may_contain(x, ch):
            if z3.is_string_value(x):
                return ch in x.as_string()
            if z3.is_app(x) and x.decl().kind() == z3.Z3_OP_SEQ_CONCAT:
                return any(may_contain(c, ch) for c in x.children())
            if z3.is_app(x) and x.decl().kind() == z3.Z3_OP_SEQ_REPLACE_ALL and z3.is_string_value(x.arg(1)) and z3.is_string_value(x.arg(2)) and len(x.arg(1).as_string()) == 1:
                a, b = x.arg(1).as_string(), x.arg(2).as_string()
                return (ch in b and may_contain(x.arg(0), a)) or (ch != a and may_contain(x.arg(0), ch))
            if it is not None:
                from .. import solver

                return solver.check(list(it.pc) + [z3.Contains(x, z3.StringVal(ch))], timeout_ms=3000)[0] != "unsat"
            return True

        def go(x):
            if z3.is_string_value(x):
                return z3.StringVal(x.as_string().replace(old, new))
            if z3.is_app(x) and x.decl().kind() == z3.Z3_OP_SEQ_CONCAT:
                return z3.Concat(*[go(c) for c in x.children()])
            if not may_contain(x, old):
                return x
            return mk_replace_all(x, old, new)

        return SStr(go(t))
    return SStr(mk_replace_all(t, old, new))


def mk_replace_all(x, old, new):
    a, b = z3.StringVal(old), z3.StringVal(new)
    return z3.SeqRef(z3.Z3_mk_seq_replace_all(x.ctx_ref(), x.as_ast(), a.as_ast(), b.as_ast()), x.ctx)


class EngFormatter(_string.Formatter):
    """str.format whose field look-ups go through the interpreter (heap objects, symbolic values)."""

    def __init__(self, it):
        self.it = it
        self.symbolic = False

    def get_field(self, field_name, args, kwargs):
        first, rest = _string._string.formatter_field_name_split(field_name)
        obj = self.get_value(first, args, kwargs)
        for is_attr, i in rest:
            obj = self.it.getattr_(obj, i) if is_attr else self.it.getitem(obj, i)
        return obj, first

    def convert_field(self, value, conversion):
        if conversion == "r":
            return repr_of(self.it, value)
        if conversion == "s":
            return str_of(self.it, value)
        return value

    def format_field(self, value, spec):
        r = self.it.format_value(value, None, spec)
        if isinstance(r, SStr):
            self.symbolic = True
            self.parts_sym.append(r)
            return "\x00SYM%d\x00" % (len(self.parts_sym) - 1)
        return r

    def run(self, template, args, kwargs):
        self.parts_sym = []
        out = self.vformat(template, args, kwargs)
        if not self.parts_sym:
            return out
        import re

        pieces = re.split("\x00SYM(\\d+)\x00", out)
        terms = []
        for i, p in enumerate(pieces):
            if i % 2 == 0:
                if p:
                    terms.append(z3.StringVal(p))
            else:
                terms.append(self.parts_sym[int(p)].t)
        return SStr(z3.Concat(*terms) if len(terms) > 1 else terms[0])


def m_str(it, *a, **k):
    if not a:
        return ""
    if len(a) > 1 or k:
        v = it.unbase(a[0])
        if it.concrete(v):
            try:
                return str(v, *a[1:], **k)
            except Exception as e:
                raise PyRaise(e)
        raise Unsupported("str(bytes, encoding) of symbolic bytes")
    return str_of(it, a[0])


def m_repr(it, x):
    return repr_of(it, x)


def m_format(it, x, spec=""):
    return it.format_value(x, None, spec)


def m_vformat(it, obj, template, args=(), kwargs=None):
    """string.Formatter.vformat for an interpreted subclass: the look-ups and format_field / convert_field go through the interpreter
    (the subclass's own overrides are called), the parsing of the template is the standard library's."""
    kwargs = {} if kwargs is None else kwargs
    from ..values import PFunc, PBound

    class ObjFormatter(EngFormatter):
        def get_value(self_, key, a_, k_):
            f = obj.cls.find("get_value")
            if isinstance(f, PFunc):
                return it.call(PBound(f, obj), [key, list(a_), kwargs], {})
            if isinstance(key, int):
                return list(args)[key]
            return it.getitem(kwargs, key)

        def convert_field(self_, value, conversion):
            f = obj.cls.find("convert_field")
            if isinstance(f, PFunc):
                return it.call(PBound(f, obj), [value, conversion], {})
            return EngFormatter.convert_field(self_, value, conversion)

        def format_field(self_, value, spec):
            f = obj.cls.find("format_field")
            if isinstance(f, PFunc):
                r = it.call(PBound(f, obj), [value, spec], {})
                if isinstance(r, SStr):
                    self_.symbolic = True
                    self_.parts_sym.append(r)
                    return "\x00SYM%d\x00" % (len(self_.parts_sym) - 1)
                return it.unbase(r)
            return EngFormatter.format_field(self_, value, spec)

    if not isinstance(it.unbase(template), str):
        raise Unsupported("vformat of a symbolic template")
    return ObjFormatter(it).run(it.unbase(template), tuple(args), {})


def install(it):
    it.native_method_models[(_string.Formatter, "vformat")] = m_vformat
    it.native_method_models[(_string.Formatter, "format")] = lambda it_, obj, template, *a, **k: m_vformat(it_, obj, template, a, k)
    it.models[str] = m_str
    it.models[repr] = m_repr
    it.models[format] = m_format
    it.attr_models.append(attr_model)
    _orig = it.call_native

    def call_native(fn, args, kwargs):
        slf = getattr(fn, "__self__", None)
        name = getattr(fn, "__name__", "")
        if fn is str.__format__ and args and isinstance(it.unbase(args[0]), SStr) and (len(args) < 2 or args[1] == ""):
            return it.unbase(args[0])  # format(text, "") is the text
        if isinstance(slf, str) and name == "format" and not all(it.concrete(a) for a in list(args) + list(kwargs.values())):
            return EngFormatter(it).run(slf, args, kwargs)
        if isinstance(slf, str) and name == "format_map" and args and not it.concrete(args[0]):
            class MapFormatter(EngFormatter):
                def get_value(self_, key, a_, k_):
                    return it.getitem(args[0], key)  # mapping[key] through the interpreter (dict subclasses with __missing__)

            return MapFormatter(it).run(slf, (), {})
        if isinstance(slf, str) and name == "join" and args and not isinstance(args[0], (list, tuple, str, dict, set)):
            args = [list(it.iterate(args[0]))] + list(args[1:])  # materialise iterators (reversed(...), generators) to look at the elements
        if isinstance(slf, str) and name == "join" and args and isinstance(args[0], (list, tuple)) and args[0] and all(type(p).__name__ == "JSText" for p in args[0]):
            if slf != "\n":
                raise Unsupported(f"JSON texts joined by {slf!r}")
            from .jsonm import JSLines

            return JSLines([p + "\n" for p in args[0][:-1]] + [args[0][-1]]) if len(args[0]) > 1 else args[0][0]
        if isinstance(slf, str) and name == "join" and args and isinstance(args[0], (list, tuple)) and any(is_model_text(p) for p in args[0]):
            raise Unsupported("str.join over abstract model texts")
        if isinstance(slf, str) and name == "join" and args and not it.concrete(args[0]):
            parts = [p if isinstance(p, (str, SStr)) else it.unbase(p) for p in it.iterate(args[0])]
            if all(isinstance(p, str) for p in parts):
                return slf.join(parts)
            terms = []
            for i, p in enumerate(parts):
                if i and slf:
                    terms.append(z3.StringVal(slf))
                terms.append(it.zstr(p))
            return SStr(z3.Concat(*terms) if len(terms) > 1 else terms[0])
        if isinstance(slf, str) and name in ("startswith", "endswith") and args and isinstance(args[0], SStr):
            raise Unsupported("constant.startswith(symbolic)")
        return _orig(fn, args, kwargs)

    it.call_native = call_native

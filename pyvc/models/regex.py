"""`re` on symbolic strings: translation of a Python pattern (re._parser tree) to a solver regular expression.

Structure (concatenation, alternation, repetition, groups, anchors at the ends) is translated from the parse tree.
Every single-character matcher (literal, class, `.`, category) is translated *by exhaustive native enumeration*: the item is
compiled on its own by CPython's `re` with the pattern's flags and tried on every code point of the solver's alphabet
(U+0000..U+2FFFF), so IGNORECASE fix-ups, Unicode categories etc. are exactly CPython's.
"""
import functools
import re
import re._compiler as scomp
import re._constants as sc
import re._parser as sp

import z3

from ..errors import Unsupported
from ..values import Opaque, SBool, SStr
from . import note

NOTIMPL = NotImplemented
S = z3.ReSort(z3.StringSort())
ANY = z3.AllChar(S)
NL = z3.Re("\n")
MAXCP = 0x2FFFF  # z3's character sort
SINGLE = (sc.LITERAL, sc.NOT_LITERAL, sc.ANY, sc.IN)


def ranges_to_re(ranges):
    if not ranges:
        return z3.Empty(S)
    parts = [z3.Re(chr(a)) if a == b else z3.Range(chr(a), chr(b)) for a, b in ranges]
    return parts[0] if len(parts) == 1 else z3.Union(*parts)


@functools.lru_cache(maxsize=None)
def _single_ranges(item_repr, flags):
    op, av = eval(item_repr, {"__builtins__": {}}, vars(sc))
    st = sp.State()
    st.flags = flags
    cp = scomp.compile(sp.SubPattern(st, [(op, av)]), flags)
    fm = cp.fullmatch
    out, start, prev = [], None, None
    for c in range(MAXCP + 1):
        if fm(chr(c)):
            if start is None:
                start = c
            prev = c
        elif start is not None:
            out.append((start, prev))
            start = None
    if start is not None:
        out.append((start, prev))
    return tuple(out)


def single_char_re(op, av, flags):
    note("re character classes", "each single-character matcher is the exact set CPython's re accepts, enumerated over U+0000..U+2FFFF (z3's alphabet) with the pattern's flags, "
         "under the prover's CPython (3.11, Unicode 14); code points above U+2FFFF are outside the string model")
    return ranges_to_re(_single_ranges(repr((op, av)), flags))


def _seq(items, info, flags, top=False):
    parts = []
    n = len(items)
    for i, (op, av) in enumerate(items):
        if op == sc.AT:
            if flags & re.MULTILINE:
                raise Unsupported("regex anchors under re.MULTILINE")
            if top and av == sc.AT_BEGINNING and i == 0 or top and av == sc.AT_BEGINNING_STRING and i == 0:
                info["bol"] = True
                continue
            if top and av == sc.AT_END and i == n - 1:
                info["end"] = "$"
                continue
            if top and av == sc.AT_END_STRING and i == n - 1:
                info["end"] = "Z"
                continue
            raise Unsupported("regex anchor not at the ends of the pattern")
        if op in SINGLE:
            parts.append(single_char_re(op, av, flags))
        elif op in (sc.MAX_REPEAT, sc.MIN_REPEAT):
            lo, hi, sub = av
            r = _seq(list(sub), {}, flags)
            if hi == sc.MAXREPEAT:
                parts.append(z3.Star(r) if lo == 0 else z3.Plus(r) if lo == 1 else z3.Concat(*([r] * lo + [z3.Star(r)])))
            else:
                parts.append(z3.Loop(r, lo, hi))
        elif op == sc.SUBPATTERN:
            add, dele = av[1], av[2]
            parts.append(_seq(list(av[3]), {}, (flags | add) & ~dele))
        elif op == sc.BRANCH:
            parts.append(z3.Union(*[_seq(list(b), {}, flags) for b in av[1]]))
        else:
            raise Unsupported(f"regex construct {op}")
    if not parts:
        return z3.Re("")
    return parts[0] if len(parts) == 1 else z3.Concat(*parts)


def language(pattern: str, how: str, flags=0):
    """Regular expression of the set of strings s with re.<how>(pattern, s) is not None."""
    if isinstance(pattern, bytes):
        raise Unsupported("bytes pattern")
    note("re semantics", "match anchors the start only, fullmatch both ends, search none; '$' = end of string or before one trailing newline; '\\Z' = end of string")
    info = {}
    parsed = sp.parse(pattern, flags)
    flags = parsed.state.flags
    body = _seq(list(parsed), info, flags, top=True)
    if how == "fullmatch" or info.get("end") == "Z":
        tail = z3.Re("")
    elif info.get("end") == "$":
        tail = z3.Option(NL)
    else:
        tail = z3.Star(ANY)
    head = z3.Re("") if (how in ("match", "fullmatch") or info.get("bol")) else z3.Star(ANY)
    return z3.Concat(head, body, tail)


class MatchStub:
    """A successful match object (only its truthiness is used by the code under contract)."""


def install(it):
    _orig = it.call_native

    def call_native(fn, args, kwargs):
        slf = getattr(fn, "__self__", None)
        name = getattr(fn, "__name__", "")
        if isinstance(slf, re.Pattern) and name in ("match", "fullmatch", "search") and args and isinstance(it.unbase(args[0]), SStr):
            s = it.unbase(args[0])
            ok = it.branch(z3.InRe(s.t, language(slf.pattern, name, slf.flags)))
            return MatchStub() if ok else None
        if fn in (re.match, re.fullmatch, re.search) and len(args) >= 2 and isinstance(it.unbase(args[1]), SStr) and isinstance(args[0], (str, re.Pattern)):
            pat = args[0].pattern if isinstance(args[0], re.Pattern) else args[0]
            fl = (args[0].flags if isinstance(args[0], re.Pattern) else 0) | (args[2] if len(args) > 2 else kwargs.get("flags", 0))
            ok = it.branch(z3.InRe(it.unbase(args[1]).t, language(pat, fn.__name__, fl)))
            return MatchStub() if ok else None
        from ..values import PObj

        subject = args[0] if isinstance(slf, re.Pattern) and name in ("match", "fullmatch", "search", "findall", "sub", "split") and args else args[1] if fn in (re.match, re.fullmatch, re.search, re.findall) and len(args) >= 2 else "ok"
        if subject is None or isinstance(subject, PObj) and not subject.has_base:
            from ..errors import PyRaise

            raise PyRaise(TypeError(f"expected string or bytes-like object, got '{it.type_name(subject)}'"))
        return _orig(fn, args, kwargs)

    it.call_native = call_native

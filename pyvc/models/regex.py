"""`re` on symbolic strings: translation of a Python pattern (re._parser tree) to a solver regular expression."""
import re
import re._constants as sc
import re._parser as sp

import z3

from ..errors import Unsupported
from ..values import Opaque, SBool, SStr
from . import note

NOTIMPL = NotImplemented
S = z3.ReSort(z3.StringSort())
ANY = z3.AllChar(S)
NL = z3.Re("\n")


def _cls_item(op, av):
    if op == sc.LITERAL:
        return z3.Re(chr(av))
    if op == sc.RANGE:
        return z3.Range(chr(av[0]), chr(av[1]))
    if op == sc.CATEGORY:
        if av == sc.CATEGORY_DIGIT:
            note("re \\d", "\\d is translated as ASCII [0-9] (Unicode digits of str patterns are not modelled)")
            return z3.Range("0", "9")
        if av == sc.CATEGORY_SPACE:
            return z3.Union(*[z3.Re(c) for c in " \t\n\r\f\v"])
    raise Unsupported(f"regex class item {op} {av}")


def _seq(items, info, top=False):
    parts = []
    n = len(items)
    for i, (op, av) in enumerate(items):
        if op == sc.AT:
            if top and av == sc.AT_BEGINNING and i == 0:
                info["bol"] = True
                continue
            if top and av == sc.AT_END and i == n - 1:
                info["end"] = "$"
                continue
            if top and av == sc.AT_END_STRING and i == n - 1:
                info["end"] = "Z"
                continue
            raise Unsupported("regex anchor not at the ends of the pattern")
        if op == sc.LITERAL:
            parts.append(z3.Re(chr(av)))
        elif op == sc.NOT_LITERAL:
            parts.append(z3.Diff(ANY, z3.Re(chr(av))))
        elif op == sc.ANY:
            parts.append(z3.Diff(ANY, NL))
        elif op == sc.IN:
            neg = bool(av) and av[0][0] == sc.NEGATE
            its = [_cls_item(o, a) for o, a in (av[1:] if neg else av)]
            u = its[0] if len(its) == 1 else z3.Union(*its)
            parts.append(z3.Diff(ANY, u) if neg else u)
        elif op in (sc.MAX_REPEAT, sc.MIN_REPEAT):
            lo, hi, sub = av
            r = _seq(list(sub), {})
            if hi == sc.MAXREPEAT:
                parts.append(z3.Star(r) if lo == 0 else z3.Plus(r) if lo == 1 else z3.Concat(*([r] * lo + [z3.Star(r)])))
            else:
                parts.append(z3.Loop(r, lo, hi))
        elif op == sc.SUBPATTERN:
            parts.append(_seq(list(av[3]), {}))
        elif op == sc.BRANCH:
            parts.append(z3.Union(*[_seq(list(b), {}) for b in av[1]]))
        else:
            raise Unsupported(f"regex construct {op}")
    if not parts:
        return z3.Re("")
    return parts[0] if len(parts) == 1 else z3.Concat(*parts)


def language(pattern: str, how: str, flags=0):
    """Regular expression of the set of strings s with re.<how>(pattern, s) is not None."""
    if flags:
        raise Unsupported("regex flags")
    note("re semantics", "match anchors the start only, fullmatch both ends, search none; '$' = end of string or before one trailing newline; '\\Z' = end of string")
    info = {}
    body = _seq(list(sp.parse(pattern)), info, top=True)
    if how == "fullmatch" or info.get("end") == "Z":
        tail = z3.Re("")
    elif info.get("end") == "$":
        tail = z3.Option(NL)
    else:
        tail = z3.Star(ANY)
    head = z3.Re("") if (how in ("match", "fullmatch") or info.get("bol")) else z3.Star(ANY)
    return z3.Concat(head, body, tail)


class MatchStub:
    """A successful match object (only its truthiness is used by the code under contract)."""


def install(it):
    _orig = it.call_native

    def call_native(fn, args, kwargs):
        slf = getattr(fn, "__self__", None)
        name = getattr(fn, "__name__", "")
        if isinstance(slf, re.Pattern) and name in ("match", "fullmatch", "search") and args and isinstance(it.unbase(args[0]), SStr):
            s = it.unbase(args[0])
            ok = it.branch(z3.InRe(s.t, language(slf.pattern, name, slf.flags & ~re.UNICODE)))
            return MatchStub() if ok else None
        if fn in (re.match, re.fullmatch, re.search) and len(args) >= 2 and isinstance(it.unbase(args[1]), SStr) and isinstance(args[0], (str, re.Pattern)):
            pat = args[0].pattern if isinstance(args[0], re.Pattern) else args[0]
            ok = it.branch(z3.InRe(it.unbase(args[1]).t, language(pat, fn.__name__)))
            return MatchStub() if ok else None
        return _orig(fn, args, kwargs)

    it.call_native = call_native

"""Assumed contracts on external engines used by the adapters: fastavro, csv, sqlite3, builtins.open (virtual file system).

Each is a ghost-state model, not the engine:
  fastavro  Writer(fp, schema, codec) writes the container header at construction; write(rec) validates rec against the schema and buffers it in
            the current block; flush() writes the block (if any) to fp; nothing else writes. reader(fp) needs the header, exposes writer_schema and
            yields the records of the blocks that were flushed.
  csv       DictWriter(fp, fieldnames, lineterminator): writeheader / writerow append one logical row (ValueError for keys outside fieldnames);
            reader(fp) yields the rows of the abstract file.
  sqlite3   connect(path, isolation_level=None): statements join the open explicit transaction; rows and schema changes become visible to
            other connections at COMMIT; close() without COMMIT discards the open transaction. Only the statement shapes the adapter emits are understood.
  open      paths registered in Interp.vfs resolve to their abstract object; any other path is outside the model.
"""
import builtins
import csv
import re
import sqlite3

import z3

from ..errors import PyRaise, Unsupported
from ..values import PObj, SBool, SInt, SStr, Sym
from . import note


# ------------------------------------------------------------------------------------------------------------------ fastavro
class AvroHeader:
    magic = b"Obj\x01"

    def __init__(self, schema, codec):
        self.schema, self.codec = schema, codec
        self.length = 64

    def __repr__(self):
        return f"<avro header {self.schema.get('name')!r}>"


class AvroBadInstant:
    """a timestamp-micros value whose instant has no datetime form (before year 1 / after year 9999 in UTC): stored fine, undecodable"""


class AvroBlock:
    def __init__(self, records, torn_at=None):
        self.records = list(records)
        self.torn_at = torn_at  # index in records before which the bytes of a partly encoded (refused) record sit in the block
        self.length = 16 + len(self.records)

    def __repr__(self):
        return f"<avro block of {len(self.records)}>"


AVRO_KINDS = {"long": (-(2**63), 2**63 - 1), "int": (-(2**31), 2**31 - 1)}


def avro_accepts(it, t, v):
    """Does Avro type `t` (as fastavro validates it) accept python value v? returns True / False (symbolic integers fork)."""
    import datetime as _dtm

    u = it.unbase(v)
    if isinstance(t, dict):
        if t.get("logicalType") == "timestamp-micros":
            return isinstance(u, _dtm.datetime) or (isinstance(u, (int, SInt)) and not isinstance(u, bool))
        return avro_accepts(it, t.get("type"), v)
    if t == "null":
        return u is None
    if t == "boolean":
        return isinstance(u, (bool, SBool))
    if t in AVRO_KINDS:
        if isinstance(u, (bool, SBool)) or not isinstance(u, (int, SInt)):
            return False
        lo, hi = AVRO_KINDS[t]
        z = it.zint(u)
        return it.branch(z3.And(z >= lo, z <= hi)) if isinstance(u, SInt) else lo <= u <= hi
    if t in ("float", "double"):
        return isinstance(u, (float, int, SInt)) and not isinstance(u, bool)
    if t == "string":
        return isinstance(u, (str, SStr))
    if t == "bytes":
        return isinstance(u, (bytes, bytearray)) or type(u).__name__ == "SBytes"
    return False


class AvroWriter:
    def __init__(self, it, fp, schema, codec="null", validator=None):
        note("fastavro", "Writer writes the header at construction (and refuses a file that already has content unless opened 'a+'); write() encodes the record field by field into the block buffer "
             "(a field that matches no union branch raises and leaves the bytes of the fields before it in the block, which is then undecodable) unless validator=True, which validates the whole record first; "
             "flush() writes the block; reader yields the flushed blocks' records")
        self.it, self.fp, self.schema, self.codec, self.validator = it, fp, schema, codec, bool(validator)
        self.buffer = []
        self.torn_at = None
        if [c for c in fp.content() if type(c).__name__ != "MagicSeg"]:
            # fastavro: a Writer on a file that already has content is an append, which needs the 'a+' mode
            raise PyRaise(ValueError("When appending to an avro file you must use the 'a+' mode, not just 'a'"))
        fp.write(AvroHeader(schema, codec))

    def write(self, rec):
        it = self.it
        if not isinstance(rec, dict):
            raise PyRaise(ValueError("record must be a mapping"))
        rec = dict(rec)
        for k, f in enumerate(self.schema.get("fields", [])):
            v = rec.get(f["name"])
            ts = f["type"] if isinstance(f["type"], list) else [f["type"]]
            if isinstance(v, tuple) and len(v) == 2 and isinstance(v[0], str):
                # fastavro "tuple notation" (branch name, value): the named union branch is used as it is; without a validator the value is NOT checked against it
                named = [t for t in ts if (t.get("type") if isinstance(t, dict) else t) == v[0]]
                if not named:
                    self._tear(k)
                    raise PyRaise(ValueError(f"no union branch named {v[0]!r} for field {f['name']!r}"))
                if self.validator and not avro_accepts(it, named[0], v[1]):
                    # (only a validating writer checks the value against the branch that the tuple names)
                    raise PyRaise(ValueError(f"{it.type_name(v[1])} value of field {f['name']!r} is not an example of the schema {named[0]!r}"))
                rec[f["name"]] = v[1]
                continue
            if not any(avro_accepts(it, t, v) for t in ts):
                self._tear(k)
                raise PyRaise(ValueError(f"{it.type_name(v)} value of field {f['name']!r} is not an example of the schema {ts!r}"))
        # the ENCODER runs after the validator and writes field by field into the block buffer: text is UTF-8, a lone surrogate cannot be encoded - the error comes
        # when the fields in front of it are already in the buffer (assumed fastavro contract, sampled by C19.cross)
        for k, f in enumerate(self.schema.get("fields", [])):
            v = it.unbase(rec.get(f["name"]))
            for item in (v if isinstance(v, (list, tuple)) else [v]):
                item = it.unbase(item)
                if isinstance(item, str):
                    try:
                        item.encode("utf-8")
                    except UnicodeEncodeError as e:
                        if k > 0 and self.torn_at is None:
                            self.torn_at = len(self.buffer)
                        raise PyRaise(e)
                elif isinstance(item, SStr):
                    no_sur = z3.Star(z3.Union(z3.Range(chr(0), chr(0xD7FF)), z3.Range(chr(0xE000), chr(0x2FFFF))))
                    if not it.branch(z3.InRe(item.t, no_sur)):
                        if k > 0 and self.torn_at is None:
                            self.torn_at = len(self.buffer)
                        raise PyRaise(UnicodeEncodeError("utf-8", "<symbolic>", 0, 1, "surrogates not allowed"))
        import datetime as _dtm

        stored = dict(rec)
        for f in self.schema.get("fields", []):
            ts = f["type"] if isinstance(f["type"], list) else [f["type"]]
            if any(isinstance(t, dict) and t.get("logicalType") == "timestamp-micros" for t in ts):
                u = it.unbase(stored.get(f["name"]))
                if isinstance(u, _dtm.datetime):
                    # the logical type stores the instant (microseconds since the epoch); readers get an aware UTC datetime of that instant
                    if u.tzinfo is None:
                        raise Unsupported("naive datetime handed to the Avro timestamp-micros logical type (local time dependent)")
                    try:
                        stored[f["name"]] = u.astimezone(_dtm.timezone.utc).replace(fold=0)
                    except OverflowError:
                        # the writer stores microseconds since the epoch (plain integer arithmetic, no error); it is the READER that cannot turn an
                        # instant outside years 1..9999 (in UTC) back into a datetime
                        stored[f["name"]] = AvroBadInstant()
                elif type(u).__name__ == "SymDT":
                    if u.utcoffset() != _dtm.timedelta(0):
                        raise Unsupported("symbolic non-UTC datetime handed to Avro")
                    stored[f["name"]] = u
                elif isinstance(u, int) and not isinstance(u, bool):
                    # a plain long given for the logical type is taken as microseconds since the epoch; readers decode it like any other value
                    try:
                        stored[f["name"]] = _dtm.datetime(1970, 1, 1, tzinfo=_dtm.timezone.utc) + _dtm.timedelta(microseconds=u)
                    except OverflowError:
                        stored[f["name"]] = AvroBadInstant()
                elif isinstance(u, SInt):
                    raise Unsupported("symbolic long handed to the Avro timestamp-micros logical type")
        self.buffer.append(stored)

    def _tear(self, k):
        """the record is refused at its k-th field: without a validator the fields before it are already encoded in the block buffer"""
        if k > 0 and not self.validator and self.torn_at is None:
            self.torn_at = len(self.buffer)

    def flush(self):
        if self.buffer or self.torn_at is not None:
            self.fp.write(AvroBlock(self.buffer, self.torn_at))
            self.buffer = []
            self.torn_at = None
        self.fp.flush()


class AvroReaderModel:
    def __init__(self, fp):
        segs = fp.remaining()
        fp.i = len(fp.segs)
        if segs and type(segs[0]).__name__ == "MagicSeg":
            raise PyRaise(ValueError("cannot read header - is it an avro file?"))  # still compressed
        if not segs or not isinstance(segs[0], AvroHeader):
            raise PyRaise(ValueError("cannot read header - is it an avro file?"))
        self.writer_schema = segs[0].schema
        self.blocks = [s for s in segs[1:]]

    def __iter__(self):
        out = []
        for b in self.blocks:
            if not isinstance(b, AvroBlock):
                raise Unsupported("avro container with foreign segments")
            if b.torn_at is not None:
                # the bytes of a partly encoded record shift everything behind them: the block does not decode to the records written
                raise PyRaise(IndexError("avro block holds the bytes of a partly encoded record (undecodable)"))
            out += [dict(r) for r in b.records]

        def records():
            for r in out:
                if any(isinstance(v, AvroBadInstant) for v in r.values()):
                    raise PyRaise(OverflowError("date value out of range"))
                yield r

        return records()


class _AvroWriteNS:
    @staticmethod
    def Writer(*a, **k):
        raise RuntimeError("model placeholder")


class FastavroModel:
    write = _AvroWriteNS

    @staticmethod
    def reader(*a, **k):
        raise RuntimeError("model placeholder")

    @staticmethod
    def parse_schema(*a, **k):
        raise RuntimeError("model placeholder")

    @staticmethod
    def validate(*a, **k):
        raise RuntimeError("model placeholder")


def m_avro_validate(it, datum, schema, *a, **kw):
    """fastavro.validate(datum, schema): True, or an error when some field of the record matches no branch of its type (nothing is written)"""
    if not isinstance(datum, dict):
        raise PyRaise(ValueError("record must be a mapping"))
    for f in schema.get("fields", []):
        v = datum.get(f["name"])
        ts = f["type"] if isinstance(f["type"], list) else [f["type"]]
        if isinstance(v, tuple) and len(v) == 2 and isinstance(v[0], str):
            named = [t for t in ts if (t.get("type") if isinstance(t, dict) else t) == v[0]]
            if not named or not avro_accepts(it, named[0], v[1]):
                raise PyRaise(ValueError(f"value of field {f['name']!r} is not an example of the schema {ts!r}"))
            continue
        if not any(avro_accepts(it, t, v) for t in ts):
            raise PyRaise(ValueError(f"{it.type_name(v)} value of field {f['name']!r} is not an example of the schema {ts!r}"))
    return True


# ------------------------------------------------------------------------------------------------------------------ csv
class CsvRow:
    def __init__(self, cells, header=False, terminator="\r\n"):
        self.cells, self.header, self.terminator = list(cells), header, terminator
        self.length = 1 + len(self.cells)

    def __repr__(self):
        return f"<csv {'header' if self.header else 'row'} {self.cells!r}>"


class DictWriterModel:
    def __init__(self, it, fp, fieldnames, lineterminator="\r\n", **kw):
        note("csv", "DictWriter.writeheader/writerow append one logical row of the cells in fieldnames order (ValueError for unknown keys); csv.reader yields the rows; quoting is the csv module's")
        self.it, self.fp, self.fieldnames, self.lineterminator = it, fp, list(fieldnames), lineterminator

    def writeheader(self):
        self.fp.write(CsvRow(self.fieldnames, True, self.lineterminator))

    def writerow(self, d):
        extra = [k for k in d if k not in self.fieldnames]
        if extra:
            raise PyRaise(ValueError(f"dict contains fields not in fieldnames: {extra!r}"))
        if getattr(self.fp, "errors", "surrogateescape") == "strict":
            # a text file opened with the default error handler cannot encode lone surrogates (undecodable bytes kept by surrogateescape)
            from .strings import str_of

            for k in self.fieldnames:
                v = d.get(k, "")
                t = v if isinstance(v, str) else None
                if t is None and not isinstance(self.it.unbase(v), Sym):
                    try:
                        t = str_of(self.it, v)
                    except Exception:
                        t = None
                if isinstance(t, str):
                    try:
                        t.encode("utf-8")
                    except UnicodeEncodeError as e:
                        raise PyRaise(e)
        self.fp.write(CsvRow([d.get(k, "") for k in self.fieldnames], False, self.lineterminator))


# ------------------------------------------------------------------------------------------------------------------ sqlite3
class SqlDb:
    """The database file: committed state shared by every connection to the same path."""

    def __init__(self):
        self.tables = {}  # name -> {"cols": [(name, type)], "rows": [tuple]}   (committed)
        self.log = []


class Cursor:
    def __init__(self, rows):
        self.rows, self.pos = list(rows), 0

    def fetchall(self):
        r, self.pos = self.rows[self.pos:], len(self.rows)
        return r

    def fetchmany(self, n=1):
        r = self.rows[self.pos:self.pos + n]
        self.pos += len(r)
        return r

    def fetchone(self):
        r = self.fetchmany(1)
        return r[0] if r else None

    def __iter__(self):
        return iter(self.fetchall())


IDENT = r'"((?:[^"]|"")*)"'


class SqlCon:
    def __init__(self, it, db, isolation_level=""):
        note("sqlite3", "isolation_level=None: statements join the open explicit transaction; changes are visible to other connections at COMMIT; close() discards an open transaction")
        self.it, self.db, self.isolation_level = it, db, isolation_level
        self.in_transaction = False
        self.work = None  # private copy of the tables while a transaction is open
        self.closed = False
        self.statements = []

    def _tables(self, write=False):
        if self.in_transaction:
            return self.work
        if write:
            return self.db.tables  # autocommit
        return self.db.tables

    def _begin(self):
        self.in_transaction = True
        self.work = {k: {"cols": list(v["cols"]), "rows": list(v["rows"])} for k, v in self.db.tables.items()}

    def execute(self, sql, params=()):
        if self.closed:
            raise PyRaise(sqlite3.ProgrammingError("Cannot operate on a closed database."))
        if not isinstance(sql, str):
            raise Unsupported("symbolic SQL text")
        self.statements.append((sql, list(params)))
        s = sql.strip()
        up = s.upper()
        if up == "BEGIN":
            if self.in_transaction:
                raise PyRaise(sqlite3.OperationalError("cannot start a transaction within a transaction"))
            self._begin()
            return Cursor([])
        if up == "COMMIT":
            if not self.in_transaction:
                raise PyRaise(sqlite3.OperationalError("cannot commit - no transaction is active"))
            if getattr(self.db, "busy_commits", 0) > 0:
                # another connection holds a read lock: COMMIT fails with SQLITE_BUSY, the transaction stays open and can be committed later
                self.db.busy_commits -= 1
                self.db.log.append(("commit refused (busy)", {k: len(v["rows"]) for k, v in self.work.items()}))
                raise PyRaise(sqlite3.OperationalError("database is locked"))
            self.db.tables = self.work
            self.db.log.append(("commit", {k: len(v["rows"]) for k, v in self.work.items()}))
            self.in_transaction, self.work = False, None
            return Cursor([])
        if up == "ROLLBACK":
            if not self.in_transaction:
                raise PyRaise(sqlite3.OperationalError("cannot rollback - no transaction is active"))
            self.db.log.append(("rollback", {k: len(v["rows"]) for k, v in self.work.items()}))
            self.in_transaction, self.work = False, None  # everything since BEGIN is discarded
            return Cursor([])
        m = re.fullmatch(r"CREATE TABLE IF NOT EXISTS " + IDENT + r" \((.*)\)", s, re.S)
        if m:
            name = m.group(1).replace('""', '"')
            cols = []
            for c in m.group(2).split(",\n"):
                cm = re.fullmatch(r"\s*" + IDENT + r" (\w[\w ]*)", c.strip("\n"))
                if not cm:
                    raise PyRaise(sqlite3.OperationalError(f"syntax error in column definition {c!r}"))
                cols.append((cm.group(1).replace('""', '"'), cm.group(2)))
            t = self._tables(True)
            if name not in t:
                if len({c[0].lower() for c in cols}) != len(cols):
                    raise PyRaise(sqlite3.OperationalError("duplicate column name"))
                t[name] = {"cols": cols, "rows": []}
            return Cursor([])
        m = re.fullmatch(r"PRAGMA table_info\(" + IDENT + r"\)", s)
        if m:
            t = self._tables().get(m.group(1).replace('""', '"'))
            return Cursor([(i, c[0], c[1], 0, None, 0) for i, c in enumerate(t["cols"])] if t else [])
        m = re.fullmatch(r"ALTER TABLE " + IDENT + r" ADD COLUMN " + IDENT + r" (\w[\w ]*)", s)
        if m:
            t = self._tables(True).get(m.group(1).replace('""', '"'))
            if t is None:
                raise PyRaise(sqlite3.OperationalError("no such table"))
            col = m.group(2).replace('""', '"')
            if col.lower() in [c[0].lower() for c in t["cols"]]:
                raise PyRaise(sqlite3.OperationalError(f"duplicate column name: {col}"))
            t["cols"].append((col, m.group(3)))
            t["rows"] = [r + (None,) for r in t["rows"]]
            return Cursor([])
        m = re.fullmatch(r"INSERT INTO " + IDENT + r" \((.*)\) VALUES \((.*)\)", s)
        if m:
            t = self._tables(True).get(m.group(1).replace('""', '"'))
            if t is None:
                raise PyRaise(sqlite3.OperationalError(f"no such table: {m.group(1)}"))
            names = [x.replace('""', '"') for x in re.findall(IDENT, m.group(2))]
            nph = m.group(3).count("?")
            if nph != len(params) or len(names) != nph:
                raise PyRaise(sqlite3.ProgrammingError(f"Incorrect number of bindings supplied. The current statement uses {nph}, and there are {len(params)} supplied."))
            tcols = [c[0] for c in t["cols"]]
            for n in names:
                if n not in tcols:
                    raise PyRaise(sqlite3.OperationalError(f"table {m.group(1)} has no column named {n}"))
            for p in params:
                u = self.it.unbase(p)
                if not (u is None or isinstance(u, (int, float, str, bytes, SInt, SStr, SBool)) or type(u).__name__ in ("SBytes", "ISOText", "IPText")):
                    raise PyRaise(sqlite3.ProgrammingError(f"Error binding parameter: type '{self.it.type_name(p)}' is not supported"))
                if isinstance(u, int) and not isinstance(u, bool) and not -(2**63) <= u < 2**63:
                    raise PyRaise(OverflowError("Python int too large to convert to SQLite INTEGER"))
                if isinstance(u, SInt):
                    self.it.require(z3.And(u.t >= -(2**63), u.t < 2**63), OverflowError("Python int too large to convert to SQLite INTEGER"))
            d = dict(zip(names, params))
            t["rows"].append(tuple(d.get(c) for c in tcols))
            return Cursor([])
        if s == "SELECT name FROM sqlite_master WHERE type='table'":
            return Cursor([(k,) for k in self._tables()])
        m = re.fullmatch(r"SELECT name FROM sqlite_master WHERE type='table' AND name (NOT )?LIKE '([^']*)'", " ".join(s.split()))
        if m:
            # LIKE: % any run of characters, _ exactly one character, ASCII case-insensitive
            rx = re.compile("".join(".*" if ch == "%" else "." if ch == "_" else re.escape(ch) for ch in m.group(2)), re.I | re.S)
            return Cursor([(k,) for k in self._tables() if bool(rx.fullmatch(k)) != bool(m.group(1))])
        if s == "SELECT c.type, c.name FROM pragma_table_info(?) c":
            t = self._tables().get(params[0].replace('""', '"') if False else params[0])
            return Cursor([(c[1], c[0]) for c in t["cols"]] if t else [])
        m = re.fullmatch(r"SELECT \* FROM " + IDENT, s)
        if m:
            t = self._tables().get(m.group(1).replace('""', '"'))
            if t is None:
                raise PyRaise(sqlite3.OperationalError("no such table"))
            return Cursor(t["rows"])
        m = re.fullmatch(r"SELECT (rowid|oid|_rowid_), \* FROM " + IDENT + r" WHERE \1 > \? ORDER BY \1 LIMIT \?", s, re.I)
        if m:
            # keyset paging: `rowid` is the implicit row number (1, 2, ... in insertion order, nothing is deleted in this model) UNLESS the table has a
            # column of that name, which then is what the word refers to; NULL > x is not true; ORDER BY sorts by that value
            t = self._tables().get(m.group(2).replace('""', '"'))
            if t is None:
                raise PyRaise(sqlite3.OperationalError("no such table"))
            lo, lim = [self.it.unbase(p_) for p_ in params]
            if not isinstance(lo, int) or not isinstance(lim, int):
                raise Unsupported("keyset paging with symbolic bounds")
            names_ = [c[0].lower() for c in t["cols"]]
            if m.group(1).lower() in names_:
                k_ = names_.index(m.group(1).lower())
                keys = [self.it.unbase(r[k_]) for r in t["rows"]]
                if any(not (v is None or isinstance(v, (int, float, str, bytes))) for v in keys):
                    raise Unsupported("keyset paging over a user column holding symbolic values")
            else:
                keys = list(range(1, len(t["rows"]) + 1))
            sel_ = sorted(((k, i) for i, k in enumerate(keys) if isinstance(k, (int, float)) and not isinstance(k, bool) and k > lo or isinstance(k, (str, bytes))), key=lambda x_: (isinstance(x_[0], (str, bytes)), x_[0] if not isinstance(x_[0], (str, bytes)) else 0, x_[1]))
            return Cursor([(k,) + tuple(t["rows"][i]) for k, i in sel_[:lim if lim >= 0 else None]])
        raise Unsupported(f"SQL statement outside the model: {s[:80]!r}")

    def commit(self):
        if self.in_transaction:
            self.execute("COMMIT")

    def close(self):
        self.closed = True
        self.in_transaction, self.work = False, None  # an open transaction is rolled back



class ReadAheadView:
    """io.BufferedReader(raw, buffer_size=N) over a stream that RAISES at its end (a decompressor over a file without end-of-stream marker): the buffer is
    filled by reading ahead up to N bytes; when the underlying stream raises during a fill, the bytes obtained in that fill are lost and the error reaches the
    caller (assumed contract of io.BufferedReader; only the case 'fewer than N bytes are left when the first fill starts' is modelled)."""

    def __init__(self, it, raw, buffer_size):
        note("io.BufferedReader", "a read-ahead buffer in front of a stream that raises at its end loses the bytes of the fill during which the error is raised")
        self.it, self.raw, self.n, self.filled = it, raw, buffer_size, False
        self.mode = getattr(raw, "mode", "rb")

    def read(self, n=-1):
        from .files import length_of

        if not self.filled:
            self.filled = True
            total = 0
            for v in self.raw.remaining():
                total = total + length_of(v)
            if isinstance(total, int):
                if total >= self.n:
                    raise Unsupported("read-ahead buffer smaller than what is left of the stream")
            else:
                self.it.assume(total < self.n)  # (only streams shorter than the buffer are considered from here on: the modelled case)
            raise PyRaise(self.raw.eof_raises)  # the fill wants n bytes, the stream ends (raising) first: what it had delivered is gone
        raise PyRaise(self.raw.eof_raises)

    def peek(self, n=0):
        return self.raw.peek(n)

    def close(self):
        return self.raw.close()

    closed = property(lambda self: self.raw.closed)


# ------------------------------------------------------------------------------------------------------------------ compression codecs
CODEC_MAGIC = {"gzip": b"\x1f\x8b", "bz2": b"BZh", "lz4": b"\x04\x22\x4d\x18", "zstd": b"\x28\xb5\x2f\xfd"}  # the published leading bytes of each format


class MagicSeg:
    """First segment of a compressed file: the codec's published magic; the rest of the file is the (abstractly) compressed inner content."""

    def __init__(self, codec):
        self.codec, self.magic = codec, CODEC_MAGIC[codec]
        self.length = len(self.magic)

    def __repr__(self):
        return f"<{self.codec} magic>"


def codec_open(it, codec, target, mode="rb"):
    """<codec>.open(path | file object, mode): writing emits the codec's magic first and then passes the content through; reading requires the magic and
    yields the inner content (assumed contract: each codec's decompressor inverts its compressor and both use the published magic)."""
    from .files import AbsFile

    note("codecs", "gzip / bz2 / lz4 / zstd: a compressed file starts with the codec's published magic; the codec's reader returns exactly what its writer was given and refuses other input")
    if isinstance(mode, str) and "t" in mode:
        raise Unsupported("text-mode codec stream")
    mode = mode if isinstance(mode, str) and "b" in mode else (mode or "r") + "b"
    writing = any(c in mode for c in "wax")
    fp = target if isinstance(target, AbsFile) else it.m_open(it, target, mode)
    if writing:
        fp.write(MagicSeg(codec))
        return fp
    rest = fp.remaining()
    if not rest or not isinstance(rest[0], MagicSeg) or rest[0].codec != codec:
        raise PyRaise(OSError(f"Not a {codec} file"))
    inner = AbsFile(it, rest[1:], name=getattr(fp, "name", "fp"), mode=mode)
    inner.outer = fp
    if getattr(fp, "codec_truncated", False):
        # the compressed file lacks its end-of-stream marker (cut at a flush point): the decompressor hands out what was flushed, then raises EOFError
        inner.eof_raises = EOFError("Compressed file ended before the end-of-stream marker was reached")
    return inner


class _ZstdContext:
    """zstandard (de)compression context: it serves ONE stream at a time; starting a second stream while the first one is still open makes both
    streams share the native context and corrupt each other (assumed contract; recorded as a 'zstd-context-shared' event and as unreadable content)."""

    def __init__(self, it, mode):
        self.it, self.mode, self.streams = it, mode, []

    def _start(self, fp):
        live = [s_ for s_ in self.streams if not s_.closed]
        stream = codec_open(self.it, "zstd", fp, self.mode)
        if live:
            self.it.vfs_events.append(("zstd-context-shared", getattr(fp, "name", "fp")))
            stream.segs = [(b"\x00corrupted: two streams on one zstd context\x00", 48)]
            for s_ in live:
                s_.segs = [(b"\x00corrupted: two streams on one zstd context\x00", 48)]
        self.streams.append(stream)
        return stream


class _ZstdDecompressor(_ZstdContext):
    def __init__(self, it):
        super().__init__(it, "rb")

    def stream_reader(self, fp, *a, **k):
        return self._start(fp)


class _ZstdCompressor(_ZstdContext):
    def __init__(self, it):
        super().__init__(it, "wb")

    def stream_writer(self, fp, *a, **k):
        return self._start(fp)


class ZstdModel:
    @staticmethod
    def ZstdDecompressor(*a, **k):
        raise RuntimeError("model placeholder")

    @staticmethod
    def ZstdCompressor(*a, **k):
        raise RuntimeError("model placeholder")


class Lz4FrameModel:
    @staticmethod
    def open(*a, **k):
        raise RuntimeError("model placeholder")


class Lz4Model:
    frame = Lz4FrameModel


def install(it):
    import datetime as _dtm
    import gzip
    import os

    it.vfs = {}
    it.vfs_auto = False
    it.vfs_events = []
    it.vfs_dirs = set()
    it.clock = []  # datetimes handed out by datetime.now() (empty: the real clock)

    note_fs = lambda: note("file system", "open / os.path.exists / os.rename / os.makedirs act on a path -> file map; rename onto an existing path replaces it (POSIX); opening for writing truncates; "
                           "gzip and the other codecs are transparent wrappers")

    def m_exists(it_, p):
        note_fs()
        p = it_.unbase(p)
        return p in it_.vfs or p in it_.vfs_dirs

    def m_rename(it_, src, dst):
        note_fs()
        src, dst = it_.unbase(src), it_.unbase(dst)
        if src not in it_.vfs:
            raise PyRaise(FileNotFoundError(2, "No such file or directory", src))
        if dst in it_.vfs:
            it_.vfs_events.append(("rename-overwrite", src, dst, list(it_.vfs[dst].content()) if hasattr(it_.vfs[dst], "content") else None))
        it_.vfs[dst] = it_.vfs.pop(src)
        it_.vfs_events.append(("rename", src, dst))

    def m_makedirs(it_, p, *a, **k):
        if it_.unbase(p) == "":
            raise PyRaise(FileNotFoundError(2, "No such file or directory", ""))  # os.makedirs("")
        it_.vfs_dirs.add(it_.unbase(p))

    it.models[os.path.exists] = m_exists
    it.models[os.rename] = m_rename
    it.models[os.makedirs] = m_makedirs
    it.models[os.path.realpath] = lambda it_, p, **k: it_.unbase(p)
    import bz2

    it.models[gzip.GzipFile] = lambda it_, filename=None, mode="rb", *a, fileobj=None, **k: codec_open(it_, "gzip", fileobj if fileobj is not None else filename, mode or "rb")
    it.models[bz2.BZ2File] = lambda it_, filename, mode="r", *a, **k: codec_open(it_, "bz2", filename, mode)
    it.loader.module_models["lz4"] = Lz4Model
    it.loader.module_models["lz4.frame"] = Lz4FrameModel
    it.loader.module_models["zstandard"] = ZstdModel
    it.models[Lz4FrameModel.open] = lambda it_, filename, mode="rb", *a, **k: codec_open(it_, "lz4", filename, mode)
    it.models[ZstdModel.ZstdDecompressor] = lambda it_, *a, **k: _ZstdDecompressor(it_)
    it.models[ZstdModel.ZstdCompressor] = lambda it_, *a, **k: _ZstdCompressor(it_)
    import io as _io

    def m_buffered_reader(it_, raw, *a, **k):
        if getattr(raw, "eof_raises", None) is not None:
            return ReadAheadView(it_, raw, k.get("buffer_size", a[0] if a else 8192))
        if type(raw).__name__ == "AbsRawFile":
            # a buffered (peekable) view that starts at the raw file's current position; the raw file is read through it from now on
            from .files import AbsFile as _AF

            view = _AF(it_, raw.remaining(), name="fp", mode=raw.mode)
            raw.i = len(raw.segs)
            return view
        return raw  # the abstract files are peekable already

    it.models[_io.BufferedReader] = m_buffered_reader

    def m_now(it_, tz=None):
        if it_.clock:
            d = it_.clock.pop(0)
            return d.astimezone(tz) if tz is not None else d.replace(tzinfo=None)
        return _dtm.datetime.now(tz)

    it.models[_dtm.datetime.now] = m_now
    it.loader.module_models["fastavro"] = FastavroModel
    it.models[FastavroModel.write.Writer] = lambda it_, fp, schema, codec="null", validator=None, **kw: AvroWriter(it_, fp, schema, codec, validator)
    it.models[FastavroModel.reader] = lambda it_, fp, *a, **kw: AvroReaderModel(fp)
    it.models[FastavroModel.parse_schema] = lambda it_, schema, *a, **kw: schema
    it.models[FastavroModel.validate] = m_avro_validate

    def m_open(it_, path, mode="r", *a, **kw):
        """builtins.open / io.open / gzip.GzipFile on the virtual file system of the obligation (Interp.vfs: path -> abstract file / database).
        Opening an existing file for writing truncates it (recorded as an 'overwrite' event); unknown paths are created for writing when
        Interp.vfs_auto is set; compression wrappers are transparent (assumed contract on the codecs)."""
        from .files import AbsFile

        p = it_.unbase(path)
        if hasattr(p, "__fspath__"):
            p = p.__fspath__()
        if not isinstance(p, str):
            raise Unsupported(f"open({path!r}): not a concrete path")
        if not isinstance(mode, str):
            raise Unsupported("open with a symbolic mode")
        writing = any(c in mode for c in "wax")
        cur = it_.vfs.get(p)
        errors = kw.get("errors") or (a[2] if len(a) > 2 else None) or "strict"  # open(file, mode, buffering, encoding, errors, ...)
        newline = kw.get("newline", a[3] if len(a) > 3 else None)
        if writing:
            if cur is not None and not isinstance(cur, AbsFile):
                raise Unsupported("open() of a database path")
            if cur is not None and getattr(cur, "preset", False):
                cur.preset = False  # a file object the obligation prepared for this path: handed out once
                return cur
            if cur is None and not getattr(it_, "vfs_auto", False):
                raise Unsupported(f"open({p!r}, {mode!r}) outside the virtual file system of the obligation")
            if cur is not None and "w" in mode:
                it_.vfs_events.append(("overwrite", p, list(cur.content())))
            f = AbsFile(it_, [] if (cur is None or "w" in mode) else cur.content(), name=p, mode=mode)
            f.errors = errors
            it_.vfs[p] = f
            return f
        if cur is None:
            raise PyRaise(FileNotFoundError(2, "No such file or directory", p))
        if getattr(cur, "preset", False):
            cur.preset = False
            cur.newline = newline
            return cur
        if not isinstance(cur, AbsFile):
            raise Unsupported("open() of a database path")
        r = AbsFile(it_, cur.content(), name=p, mode=mode)
        if "codec_truncated" in cur.__dict__:
            r.codec_truncated = cur.codec_truncated  # (a property of what is on disk, not of the handle)
        r.newline = newline
        for extra in ("csv_rows",):
            if hasattr(cur, extra):
                setattr(r, extra, getattr(cur, extra))
        return r

    it.models[builtins.open] = m_open
    import io

    it.models[io.open] = m_open
    it.m_open = m_open

    def m_connect(it_, path, isolation_level="", **kw):
        p = it_.unbase(path)
        if isinstance(p, str) and p in it_.vfs and isinstance(it_.vfs[p], SqlDb):
            return SqlCon(it_, it_.vfs[p], isolation_level)
        if isinstance(p, str) and p not in it_.vfs and getattr(it_, "vfs_auto", False):
            it_.vfs[p] = SqlDb()
            return SqlCon(it_, it_.vfs[p], isolation_level)
        raise Unsupported(f"sqlite3.connect({path!r}) outside the virtual file system of the obligation")

    it.models[sqlite3.connect] = m_connect

    def m_csv_reader(it_, fp, *a, **kw):
        rows = getattr(fp, "csv_rows", None)
        if rows is None:
            raise Unsupported("csv.reader over a file without abstract rows")
        if getattr(fp, "newline", "") != "":
            # a text file that was not opened with newline='' translates \r\n and \r to \n before the csv module sees them (also inside quoted cells)
            rows = [[c.replace("\r\n", "\n").replace("\r", "\n") if isinstance(c, str) else c for c in r] for r in rows]
        return iter([list(r) for r in rows])

    it.models[csv.reader] = m_csv_reader
    it.models[csv.DictWriter] = lambda it_, fp, fieldnames, *a, **kw: DictWriterModel(it_, fp, list(it_.iterate(fieldnames)), **{k: v for k, v in kw.items() if k == "lineterminator"})

"""Abstract binary file objects (assumed contract on file-like objects; ghost state = the segment list).

A file is a list of *segments* (value, length): concrete ``bytes``, abstract ``SBytes`` with a (possibly symbolic) length, packed
msgpack blobs (``MPBytes``) and truncated blobs (``MPTrunc``).  ``write(b)`` appends all of ``b`` as one segment or raises (the
BufferedIOBase contract: a short write of a raw unbuffered file is outside the model); ``read(n)`` returns the next ``n`` bytes, fewer
only at end of file.  Reads are decided by integer arithmetic over the segment lengths; a read that would cut an abstract segment other
than a packed blob is outside the model (Unsupported -> the obligation is undecided, never a violation).
"""
import io

import z3

from ..errors import PyRaise, Unsupported
from ..values import BCat, PyBytes, SBytes, SInt
from . import note
from .mp import MPBytes, MPTrunc


def length_of(v):
    if isinstance(v, (bytes, bytearray, str)):
        return len(v)
    if type(v).__name__ in ("JSText", "JSFragment", "AvroHeader", "AvroBlock", "CsvRow", "MagicSeg"):
        return v.length
    if isinstance(v, BCat) or type(v).__name__ == "JSLines":
        total = 0
        for part in v.parts:
            total = total + length_of(part)
        return total
    if isinstance(v, (SBytes, MPBytes, MPTrunc)):
        if v.length is None:
            if isinstance(v, SBytes):  # abstract bytes of unknown size (e.g. encoded text): some non-negative length
                length_of.n = getattr(length_of, "n", 0) + 1
                v.length = z3.Int(f"blen!{length_of.n}")
                return v.length
            raise Unsupported("file segment without a length")
        return v.length
    raise Unsupported(f"file content {v!r}")


class ForeignHead:
    """The first `n` bytes of a container of another format: they START with that format's published magic; what follows belongs to that format (assumed:
    it does not contain the record stream magic - an Avro header continues with its metadata map, a compressed member with compressed data)."""

    def __init__(self, magic, n):
        note("foreign container head", "the leading bytes of an Avro container / compressed member are its published magic followed by bytes of that format, which do not spell the record stream magic")
        self.magic, self.n = magic, n

    def __len__(self):
        return self.n

    def startswith(self, prefix, *a):
        if len(prefix) <= len(self.magic):
            return self.magic.startswith(prefix)
        return False if not prefix.startswith(self.magic) else _unsupported("startswith beyond the magic of a foreign container")

    def endswith(self, suffix, *a):
        return False

    def __getitem__(self, k):
        if isinstance(k, slice) and k.start in (None, 0) and k.stop is not None and 0 <= k.stop <= len(self.magic) and k.step in (None, 1):
            return self.magic[k]
        raise Unsupported("bytes of a foreign container behind its magic")

    def __eq__(self, other):
        return False

    __hash__ = None

    def __repr__(self):
        return f"<{self.n} bytes starting with {self.magic!r}>"


def _unsupported(msg):
    raise Unsupported(msg)


class Rest:
    """What is left of a packed blob after its first bytes were consumed (never interpreted)."""

    def __init__(self, blob, length):
        self.blob, self.length = blob, length


class AbsFile(io.IOBase):
    """(an io.IOBase so that code dispatching on isinstance(fp, io.IOBase) sees a stream; every IOBase method is overridden or refused)"""

    def __init__(self, it, segments=(), name="fp", fail_at=None, mode="rb"):
        note("file objects", "write(b) appends all of b or raises (BufferedIOBase contract; short writes of raw files are outside the model); read(n) returns the next n bytes, "
             "fewer only at end of file; flush/close do not change the content; content already written survives a later failing write")
        self.it, self.name, self.mode = it, name, mode
        self.segs = [(v, length_of(v)) for v in segments]
        self.i = 0
        self._closed = False
        self.nwrites = 0
        self.nflush = 0
        self.fail_at = fail_at
        self.log = []
        self.eof_raises = None  # decompressing readers (gzip / bz2 / lzma) over a file that lacks its end-of-stream marker: a read that finds nothing left raises EOFError

    # ---- helpers
    def _cmp(self, a, b):
        """-1 / 0 / 1 for integer (possibly symbolic) a, b; forks the path when undecided."""
        if isinstance(a, int) and isinstance(b, int):
            return (a > b) - (a < b)
        za = a if not isinstance(a, int) else z3.IntVal(a)
        zb = b if not isinstance(b, int) else z3.IntVal(b)
        if self.it.branch(za == zb):
            return 0
        return -1 if self.it.branch(za < zb) else 1

    @staticmethod
    def _sub(a, b):
        if isinstance(a, int) and isinstance(b, int):
            return a - b
        return z3.simplify((a if not isinstance(a, int) else z3.IntVal(a)) - (b if not isinstance(b, int) else z3.IntVal(b)))

    @property
    def closed(self):
        return self._closed

    def __del__(self):
        pass

    def _check_open(self):
        if self._closed:
            raise PyRaise(ValueError("I/O operation on closed file."))

    # ---- file protocol
    def write(self, b):
        self._check_open()
        it = self.it
        b = it.unbase(b)
        k = self.nwrites
        self.nwrites += 1
        self.log.append(("write", b))
        if self.fail_at is not None and k == self.fail_at:
            raise PyRaise(OSError(28, "No space left on device (injected)"))
        short = getattr(self, "short_at", None)
        if short is not None and k == short[0]:
            # a RAW file object: this call takes only the first `keep` bytes and says so (the caller is expected to offer the rest again)
            conc = b if isinstance(b, (bytes, bytearray)) else getattr(b, "concrete", None)
            if not isinstance(conc, (bytes, bytearray)):
                raise Unsupported("short write of abstract bytes")
            keep = min(short[1], len(conc))
            if keep:
                self.segs.append((bytes(conc[:keep]), keep))
            return keep
        if isinstance(b, str) and "b" in self.mode:
            raise PyRaise(TypeError("a bytes-like object is required, not 'str'"))
        if isinstance(b, (bytes, bytearray)) and "b" not in self.mode:
            raise PyRaise(TypeError("write() argument must be str, not bytes"))
        if type(b).__name__ == "JSText" and not b.ascii and "b" not in self.mode and getattr(self, "errors", None) == "strict":
            # JSON text written with ensure_ascii=False carries its characters as they are: a text file with the default (strict) error handler
            # cannot encode a surrogate (undecodable bytes kept by surrogateescape arrive as lone surrogates)
            from .jsonm import text_leaves
            from ..values import SStr

            for leaf in text_leaves(b.tree):
                if isinstance(leaf, str):
                    try:
                        leaf.encode("utf-8")
                    except UnicodeEncodeError as e:
                        raise PyRaise(e)
                elif isinstance(leaf, SStr):
                    no_sur = z3.Star(z3.Union(z3.Range(chr(0), chr(0xD7FF)), z3.Range(chr(0xE000), chr(0x2FFFF))))
                    it.require(z3.InRe(leaf.t, no_sur), UnicodeEncodeError("utf-8", "<symbolic>", 0, 1, "surrogates not allowed"))
        if isinstance(b, str) and b and "b" not in self.mode and self.segs and type(self.segs[-1][0]).__name__ == "JSText":
            # text written right behind a JSON document (its line terminator, written by a second call): the file holds the document followed by that text
            merged = self.segs[-1][0] + b
            self.segs[-1] = (merged, length_of(merged))
            return len(b)
        n = length_of(b)
        if isinstance(b, BCat) or type(b).__name__ == "JSLines":
            for part in b.parts:  # one write call, the parts lie one after the other in the file
                self.segs.append((part, length_of(part)))
        else:
            self.segs.append((b, n))
        return SInt(n) if not isinstance(n, int) else n

    def read(self, n=-1):
        self._check_open()
        it = self.it
        if isinstance(n, SInt):
            n = n.t
        if n is None or (isinstance(n, int) and n < 0):
            rest = [v for v, _ in self.segs[self.i:]]
            self.i = len(self.segs)
            if all(isinstance(v, (bytes, bytearray)) for v in rest):
                return b"".join(bytes(v) for v in rest)
            if len(rest) == 1:
                return rest[0]
            raise Unsupported("read() to end of file over abstract segments")
        if not isinstance(n, int):
            # read(n) with a negative n reads everything; the only symbolic sizes come from a decoded length prefix, which is >= 0
            if self.it.branch(n < 0):
                raise Unsupported("read(negative symbolic size)")
        pieces = []
        need = n
        while self.i < len(self.segs):
            if isinstance(need, int) and need == 0:
                break
            v, L = self.segs[self.i]
            c = self._cmp(need, L)
            if c >= 0:
                pieces.append(v)
                self.i += 1
                need = self._sub(need, L)
                if c == 0:
                    need = 0
                    break
                if getattr(self, "short_reads", False):
                    break  # a RAW stream (a decompressor at a member boundary, a pipe): read(n) hands out what it has, fewer than n bytes although more follow
                continue
            # need < L : the read ends inside this segment
            if isinstance(v, (bytes, bytearray)) and isinstance(need, int):
                pieces.append(bytes(v[:need]))
                self.segs[self.i] = (bytes(v[need:]), L - need)
            elif isinstance(v, MPBytes):
                if v.concrete is not None and isinstance(need, int):
                    pieces.append(v.concrete[:need])
                    self.segs[self.i] = (v.concrete[need:], L - need)
                else:
                    if not (isinstance(need, int) and need == 0):
                        pieces.append(MPTrunc(v, need))
                    self.segs[self.i] = (Rest(v, self._sub(L, need)), self._sub(L, need))
            elif isinstance(v, MPTrunc) and not pieces:
                pieces.append(MPTrunc(v.blob, need))
                self.segs[self.i] = (Rest(v.blob, self._sub(L, need)), self._sub(L, need))
            elif getattr(v, "magic", None) is not None and isinstance(need, int) and need >= len(v.magic) and not pieces:
                # the first bytes of a container of ANOTHER format (Avro, a compressed member): its published magic followed by bytes of that format
                pieces.append(ForeignHead(v.magic, need))
                self.segs[self.i] = (Rest(v, self._sub(L, need)), self._sub(L, need))
            else:
                raise Unsupported(f"read({need}) ends inside an abstract segment")
            need = 0
            break
        pieces = [p for p in pieces if not (isinstance(p, (bytes, bytearray)) and len(p) == 0)]
        if not pieces:
            if self.eof_raises is not None and not (isinstance(n, int) and n == 0):
                raise PyRaise(self.eof_raises)
            return b""
        if len(pieces) > 1:
            pieces = [p.concrete if isinstance(p, MPBytes) and p.concrete is not None else p for p in pieces]
        if all(isinstance(p, (bytes, bytearray)) for p in pieces):
            return b"".join(bytes(p) for p in pieces)
        if len(pieces) == 1:
            if isinstance(pieces[0], Rest):
                raise Unsupported("read of the remainder of a partially consumed blob")
            return pieces[0]
        raise Unsupported("read spanning several abstract segments")

    def peek(self, n=0):
        if "b" not in self.mode:
            return ""
        if self.i < len(self.segs) and getattr(self.segs[self.i][0], "magic", None) is not None:
            m_ = self.segs[self.i][0].magic  # container / codec formats modelled as abstract segments expose their leading magic (zero padded)
            return m_ + b"\x00" * max(0, (n if isinstance(n, int) else 0) - len(m_))
        save_i, save_segs = self.i, list(self.segs)
        try:
            if self.i > 0 and isinstance(n, int) and n > 1 and self.i < len(self.segs):
                # BufferedReader / GzipFile.peek(n) return what is left in the buffer, at least one byte unless the file has ended, and that can be
                # fewer than n bytes anywhere behind the start of the file (the position relative to the buffer boundary is not known): both outcomes
                AbsFile._npeek = getattr(AbsFile, "_npeek", 0) + 1
                note("peek", "peek(n) behind the start of a file may return fewer than n bytes (but at least one while data is left); at the start of the file it returns min(n, size) bytes")
                if self.it.branch(z3.Bool(f"peek_short!{AbsFile._npeek}")):
                    return SBytes(z3.Const(f"peeked!{AbsFile._npeek}", PyBytes), length=1)  # one byte of whatever comes next
            return self.read(n)
        finally:
            self.i, self.segs = save_i, save_segs

    def flush(self):
        self._check_open()
        self.nflush += 1
        self.log.append(("flush",))

    def close(self):
        if not self._closed:
            self.log.append(("close",))
        self._closed = True

    def __iter__(self):
        """Text mode: the lines (one written segment per line, as the JSON writer produces them)."""
        self._check_open()
        if "b" in self.mode:
            raise Unsupported("line iteration over a binary abstract file")
        out = [v for v, _ in self.segs[self.i:]]
        self.i = len(self.segs)
        return iter(out)

    def __next__(self):
        raise Unsupported("next() on an abstract file")

    def readable(self):
        return "r" in self.mode

    def writable(self):
        return "w" in self.mode or "a" in self.mode

    def seekable(self):
        return False

    def isatty(self):
        return False

    def __enter__(self):
        return self

    def __exit__(self, *a):
        self.close()
        return False

    def readinto(self, b):
        """fills a caller-supplied buffer with up to len(b) bytes and returns how many were stored (what was in the buffer behind them stays)"""
        data = self.read(len(b))
        if not isinstance(data, (bytes, bytearray)):
            raise Unsupported("readinto() of abstract file content")
        b[: len(data)] = data
        return len(data)

    def __getattr__(self, name):
        if name.startswith("_") or name in ("name", "preset", "csv_rows", "avro", "outer", "errors", "newline", "codec_truncated", "short_reads", "short_at"):
            raise AttributeError(name)
        raise Unsupported(f"file method {name!r} is outside the file model")

    def _refuse(self, *a, **k):
        raise Unsupported("file method outside the file model (readline/readlines/seek/tell/truncate/fileno/writelines)")

    readline = readlines = seek = tell = truncate = fileno = writelines = _refuse

    # ---- ghost view
    def content(self):
        return [v for v, _ in self.segs]

    def remaining(self):
        return [v for v, _ in self.segs[self.i:]]


def install(it):
    pass


class AbsRawFile(AbsFile):
    """A seekable binary file object WITHOUT peek() (io.BytesIO, an unbuffered file), possibly positioned behind other data when it is handed over."""

    def __init__(self, it, segments=(), start=0, **kw):
        super().__init__(it, segments, **kw)
        self.i = start
        self._orig = list(self.segs)

    @property
    def peek(self):
        raise AttributeError("peek")

    def __getattr__(self, name):
        if name == "peek":
            raise AttributeError(name)
        return super().__getattr__(name)

    def seekable(self):
        return True

    def read(self, n=-1):
        if getattr(self, "_inside", False):
            raise Unsupported("read after a partial read of an abstract segment (no seek in between)")
        if self.i < len(self.segs) and getattr(self.segs[self.i][0], "magic", None) is not None and isinstance(n, int) and 0 < n <= 64:
            # the first bytes of a container / codec segment (its magic, zero padded): the position is then inside that segment until the next seek()
            self._inside = True
            return AbsFile.peek(self, n)
        return super().read(n)

    def _offset_of(self, idx, segs):
        off = 0
        for v, n in segs[:idx]:
            if not isinstance(n, int):
                raise Unsupported("tell() behind an abstract segment of symbolic length")
            off += n
        return off

    def tell(self):
        return self._offset_of(self.i, self.segs)

    def seek(self, pos, whence=0):
        pos = self.it.unbase(pos)
        if not isinstance(pos, int) or not isinstance(self.it.unbase(whence), int):
            raise Unsupported("seek to a symbolic position")
        if whence == 1:
            pos += self.tell()
        elif whence == 2:
            raise Unsupported("seek relative to the end of an abstract file")
        self._inside = False
        segs, off = list(self._orig), 0
        for j, (v, n) in enumerate(segs):
            if off == pos:
                self.segs, self.i = segs, j
                return pos
            if not isinstance(n, int):
                raise Unsupported("seek behind an abstract segment of symbolic length")
            if off < pos < off + n:
                if not isinstance(v, (bytes, bytearray)):
                    raise Unsupported("seek into an abstract segment")
                k = pos - off
                segs[j:j + 1] = [(bytes(v[:k]), k), (bytes(v[k:]), n - k)]
                self._orig = list(segs)
                self.segs, self.i = segs, j + 1
                return pos
            off += n
        self.segs, self.i = segs, len(segs)
        return pos

"""Abstract model of json.dumps / json.loads (assumed contract on the json module).

dumps(obj, default=f, indent=i) is the JSON *tree* of obj: dict (string keys, insertion order kept) / list,tuple / str / int / float / bool / None;
`default` is called once for any other object and its result is serialised in its place.  loads(text, object_hook=h) rebuilds the Python value
(arrays -> lists) and calls `h` on every object bottom-up.  The text itself is abstract (one line when indent is None).
"""
import json

import z3

from ..errors import PyRaise, Unsupported
from ..values import Opaque, PObj, SBool, SInt, SStr, Sym
from . import note


class JSText:
    """Result of dumps: the JSON tree (abstract text); `suffix` collects what was appended (the line terminator)."""

    _n = 0

    def __init__(self, tree, indent=None, suffix="", ascii=True):
        self.tree, self.indent, self.suffix, self.ascii = tree, indent, suffix, ascii
        JSText._n += 1
        self.length = z3.Int(f"jslen!{JSText._n}")
        self.concrete = None
        try:  # the text itself when every leaf is concrete (what json.dumps returns for this tree)
            def plain(t):
                if t[0] == "leaf":
                    if isinstance(t[1], Sym):
                        raise ValueError
                    return t[1]
                if t[0] == "arr":
                    return [plain(x) for x in t[1]]
                return {k: plain(v) for k, v in t[1]}
            self.concrete = json.dumps(plain(tree), indent=indent, ensure_ascii=ascii) + suffix
            self.length = len(self.concrete)
        except Exception:
            pass

    def startswith(self, prefix, *a):
        if self.concrete is None:
            raise Unsupported("startswith on abstract JSON text")
        return self.concrete.startswith(prefix, *a)

    def endswith(self, suffix, *a):
        if self.concrete is None:
            raise Unsupported("endswith on abstract JSON text")
        return self.concrete.endswith(suffix, *a)

    def __add__(self, other):
        if isinstance(other, str):
            return JSText(self.tree, self.indent, self.suffix + other, self.ascii)
        return NotImplemented

    def __repr__(self):
        return f"<json {self.tree!r}{self.suffix!r}>"


class JSLines:
    """Several JSON texts joined by a line break ("\\n".join([...])): written to a file they are consecutive lines."""

    def __init__(self, parts):
        self.parts = list(parts)

    def __add__(self, other):
        if isinstance(other, str) and self.parts:
            return JSLines(self.parts[:-1] + [self.parts[-1] + other])
        return NotImplemented

    def __repr__(self):
        return f"<json lines {self.parts!r}>"


def tree_of(it, obj, default, depth=0):
    if depth > 60:
        raise PyRaise(ValueError("Circular reference detected"))
    if isinstance(obj, PObj) and obj.has_base and not isinstance(obj.base, Opaque):
        b = obj.base
        if isinstance(b, (str, SStr, int, SInt, float, list, dict, bool, SBool)) and not hasattr(b, "isoformat"):
            return tree_of(it, b, default, depth)  # json serialises subclasses of str/int/float/list/dict as their base
    if obj is None or isinstance(obj, (bool, SBool, int, SInt, float, str, SStr)) or type(obj).__name__ in ("ISOText", "IPText"):
        return ("leaf", obj)
    if isinstance(obj, (list, tuple)) and not hasattr(obj, "_fields"):
        return ("arr", [tree_of(it, x, default, depth + 1) for x in obj])
    if isinstance(obj, dict):
        out = []
        for k, v in obj.items():
            ku = it.unbase(k)
            if not isinstance(ku, (str, SStr, int, float, bool)) and ku is not None:
                raise PyRaise(TypeError(f"keys must be str, int, float, bool or None, not {it.type_name(k)}"))
            out.append((ku, tree_of(it, v, default, depth + 1)))
        return ("obj", out)
    if default is None:
        raise PyRaise(TypeError(f"Object of type {it.type_name(obj)} is not JSON serializable"))
    return tree_of(it, it.call(default, [obj], {}), default, depth + 1)


def text_leaves(t):
    """the text leaves and keys of a JSON tree"""
    if t[0] == "leaf":
        if isinstance(t[1], (str, SStr)):
            yield t[1]
    elif t[0] == "arr":
        for x in t[1]:
            yield from text_leaves(x)
    else:
        for k, v in t[1]:
            if isinstance(k, (str, SStr)):
                yield k
            yield from text_leaves(v)


def _check_nan(tree, allow_nan):
    if allow_nan:
        return
    if tree[0] == "leaf":
        v = tree[1]
        if isinstance(v, float) and (v != v or v in (float("inf"), float("-inf"))):
            raise PyRaise(ValueError("Out of range float values are not JSON compliant"))
    elif tree[0] == "arr":
        for x in tree[1]:
            _check_nan(x, allow_nan)
    else:
        for _, x in tree[1]:
            _check_nan(x, allow_nan)


def m_dumps(it, obj, *, default=None, indent=None, ensure_ascii=True, allow_nan=True, **kw):
    note("json", "dumps/loads are modelled as the JSON tree: dict (string keys, order kept) / list / str / int / float / bool / None; `default` is called once per other object; "
         "loads(dumps(x)) rebuilds the tree (arrays as lists) and calls object_hook bottom-up on every object; allow_nan=False refuses nan / inf")
    tree = tree_of(it, obj, default)
    _check_nan(tree, bool(it.unbase(allow_nan)))
    return JSText(tree, indent, ascii=bool(it.unbase(ensure_ascii)) if it.concrete(it.unbase(ensure_ascii)) else True)


class JSFragment:
    """A piece of a JSON document that json.dump() had already written when something else wrote to the same file (a `default` hook that emits a line of its
    own while the document is being encoded): neither a complete JSON document nor a line of its own."""

    _n = 0

    def __init__(self, what, tree):
        self.what, self.tree = what, tree
        JSFragment._n += 1
        self.length = z3.Int(f"jsfrag!{JSFragment._n}")

    def __repr__(self):
        return f"<{self.what} a JSON document>"


def m_dump(it, obj, fp, *, default=None, indent=None, ensure_ascii=True, **kw):
    """json.dump(obj, fp): the document is written to fp chunk by chunk WHILE it is encoded; `default` is called when the encoder reaches the object (for the
    top-level object: before the first chunk). What a `default` hook writes to fp in the middle lands in the middle of the document."""
    note("json.dump", "streams the document to the file while encoding: text written to the same file by a `default` hook that runs in the middle of the encoding splits the document")
    segs = getattr(fp, "segs", None)
    if segs is None:
        raise Unsupported("json.dump to a file object outside the file model")
    top = obj
    if default is not None and not (obj is None or isinstance(it.unbase(obj), (bool, int, float, str, list, tuple, dict, SBool, SInt, SStr))):
        top = it.call(default, [obj], {})  # the top-level object is converted before anything is written
    n0 = len(segs)
    tree = tree_of(it, top, default)
    asc = bool(it.unbase(ensure_ascii)) if it.concrete(it.unbase(ensure_ascii)) else True
    if len(segs) != n0:
        inner = segs[n0:]
        del segs[n0:]
        fp.write(JSFragment("the head of", tree))
        segs.extend(inner)
        fp.write(JSFragment("the tail of", tree))
        return None
    fp.write(JSText(tree, indent, ascii=asc))
    return None


def untree(it, t, hook):
    k = t[0]
    if k == "leaf":
        return t[1]
    if k == "arr":
        return [untree(it, x, hook) for x in t[1]]
    if k == "obj":
        d = {}
        for key, v in t[1]:
            d[key if isinstance(key, (str, SStr)) else json.dumps(key)] = untree(it, v, hook)
        return it.call(hook, [d], {}) if hook is not None else d
    raise Unsupported("json tree node")


def m_loads(it, s, *, object_hook=None, **kw):
    s = it.unbase(s)
    if isinstance(s, JSText):
        return untree(it, s.tree, object_hook)
    if isinstance(s, (str, bytes)):
        try:
            v = json.loads(s)
        except Exception as e:
            raise PyRaise(e)

        def conv(x):
            if isinstance(x, dict):
                return ("obj", [(k, conv(v)) for k, v in x.items()])
            if isinstance(x, list):
                return ("arr", [conv(y) for y in x])
            return ("leaf", x)

        return untree(it, conv(v), object_hook)
    if s is None or isinstance(s, (int, float, list, dict, tuple)):
        raise PyRaise(TypeError(f"the JSON object must be str, bytes or bytearray, not {type(s).__name__}"))
    raise Unsupported("json.loads of symbolic text")


def install(it):
    it.models[json.dumps] = m_dumps
    it.models[json.dump] = m_dump
    it.models[json.loads] = m_loads

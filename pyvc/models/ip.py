"""Symbolic IP addresses (assumed contract on the standard library's ipaddress module).

An address IS the pair (version, integer value).  ip_address(n) for an integer n yields the IPv4 address of value n when 0 <= n < 2**32, the IPv6
address of value n when 2**32 <= n < 2**128 and raises ValueError otherwise (the documented behaviour: IPv4 is tried first); ip_address(a) for an
address object yields an address of the same version and value; int(a) is the value; two addresses are equal iff version and value are.
str(a) is an abstract text that carries version and value and that ip_address() maps back to the same address; the characters of the text
forms are outside the model (Unsupported -> the obligation is undecided, never a verdict).
Sampled against the real module by C01.cross[ipaddress model].
"""
import z3

from ..errors import PyRaise, Unsupported
from ..values import SInt
from . import note

V4_MAX, V6_MAX = 2 ** 32, 2 ** 128


class SymIP:
    def __init__(self, version, value):
        self.version, self.value = version, value  # value: SInt

    _version = property(lambda self: self.version)
    max_prefixlen = property(lambda self: 32 if self.version == 4 else 128)

    def __repr__(self):
        return f"<symbolic IPv{self.version} address {self.value!r}>"


class IPText:
    """str() of a symbolic address: an abstract text that carries version and value and that ip_address() maps back to the same address
    (the standard library's contract: ip_address(str(a)) == a, same version; sampled by C14.cross)."""

    def __init__(self, ip):
        self.ip = ip

    def __repr__(self):
        return f"<text of {self.ip!r}>"


def ip_address_of_int(it, n):
    """the documented case split of ip_address() on an integer"""
    note("ipaddress (symbolic)", "an address is (version, integer value); ip_address(int n): IPv4 for 0 <= n < 2**32, IPv6 for 2**32 <= n < 2**128, ValueError otherwise; "
         "ip_address(address) keeps version and value; int(address) is the value; equality is version and value")
    t = n.t
    if it.branch(z3.And(t >= 0, t < V4_MAX)):
        return SymIP(4, n)
    if it.branch(z3.And(t >= V4_MAX, t < V6_MAX)):
        return SymIP(6, n)
    raise PyRaise(ValueError("<symbolic integer> does not appear to be an IPv4 or IPv6 address"))


def same(a, b):
    """bool | z3 Bool"""
    if not (isinstance(a, SymIP) and isinstance(b, SymIP)) or a.version != b.version:
        return False
    return a.value.t == b.value.t

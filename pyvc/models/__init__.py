"""Models of builtins / stdlib / third-party code: every entry here is an *assumption* (listed in the evidence)."""

ASSUMPTIONS = {}  # name -> one-line statement, filled by the model modules when they are used


def note(name, text):
    ASSUMPTIONS.setdefault(name, text)


def install_all(interp):
    from . import builtins_, containers, ext, ints, jsonm, mp, regex, strings, structm, misc

    for m in (builtins_, strings, ints, containers, regex, structm, mp, jsonm, ext, misc):
        m.install(interp)

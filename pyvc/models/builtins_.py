import builtins
import datetime as _dtm
import types

import z3

from ..errors import PyRaise, Unsupported
from ..values import NativeSuper, Opaque, PBound, PClass, PFunc, PModule, PObj, SBool, SBytes, SInt, SStr, Sym, SymDict, SuperProxy, py_truth

NOTIMPL = NotImplemented
py_isinstance = z3.Function("py_isinstance", z3.DeclareSort("PyVal"), z3.StringSort(), z3.BoolSort())


def m_isinstance(it, v, c):
    if isinstance(c, tuple):
        rs = [m_isinstance(it, v, x) for x in c]
        if any(r is True for r in rs):
            return True
        syms = [r.t for r in rs if isinstance(r, SBool)]
        return SBool(z3.Or(syms)) if syms else False
    if isinstance(v, Opaque):
        if c in v.inst_facts:
            return SBool(v.inst_facts[c])
        if c is object:
            return True
        if "*" in v.inst_facts and isinstance(c, PClass):  # contract: "plain data value": not an instance of any repository class
            return False
        return SBool(py_isinstance(v.t, z3.StringVal(c.name if isinstance(c, PClass) else getattr(c, "__name__", str(c)))))
    if isinstance(c, PClass):
        return isinstance(v, PObj) and c in v.cls.mro()
    if isinstance(c, type):
        if type(v).__name__ in ("ISOText", "IPText"):  # isoformat() of a symbolic datetime / str() of a symbolic address is text
            return c in (str, object)
        if isinstance(v, PObj):
            return v.cls.is_subclass_of(c)
        if isinstance(v, SInt):
            return c in (int, object)
        if isinstance(v, SBool):
            return c in (bool, int, object)
        if isinstance(v, SStr):
            return c in (str, object)
        if isinstance(v, SBytes):
            return c in (bytes, object)
        if isinstance(v, (PClass,)):
            return c in (type, object)
        if isinstance(v, (PFunc, PBound)):
            return c in (types.FunctionType, types.MethodType, object) and (c is object or isinstance(v, PFunc) == (c is types.FunctionType))
        if isinstance(v, (Sym, SymDict)):
            return c is object or (isinstance(v, SymDict) and c is dict)
        return isinstance(v, c)
    raise PyRaise(TypeError("isinstance() arg 2 must be a type, a tuple of types, or a union"))


def m_issubclass(it, a, b):
    if isinstance(b, tuple):
        return any(m_issubclass(it, a, x) for x in b)
    if isinstance(a, PClass):
        return a.is_subclass_of(b)
    if isinstance(b, PClass):
        return False
    return issubclass(a, b)


def m_getattr(it, o, name, *default):
    if isinstance(name, SStr):
        # attribute read with a name that is only known symbolically: the value of an arbitrary attribute (obligations judge the path condition here)
        it.event("getattr-symbolic", o, name)
        return Opaque("attr")
    if not isinstance(name, str):
        raise Unsupported("getattr with symbolic name")
    return it.getattr_(o, name, *default) if default else it.getattr_(o, name)


def m_hasattr(it, o, name):
    try:
        it.getattr_(o, name)
        return True
    except PyRaise as e:
        if isinstance(e.exc, AttributeError):
            return False
        raise


def m_type(it, *a):
    if len(a) == 3:
        name, bases, d = a
        c = PClass(name, None, [b for b in bases if b is not object], dict(d))
        for v in c.d.values():
            pass
        return c
    (v,) = a
    if isinstance(v, PObj):
        return v.cls
    if isinstance(v, SInt):
        return int
    if isinstance(v, SBool):
        return bool
    if isinstance(v, SStr):
        return str
    if isinstance(v, SBytes):
        return bytes
    if isinstance(v, PClass):
        return type
    if isinstance(v, Sym):
        raise Unsupported("type() of opaque value")
    return type(v)


def m_len(it, v):
    if isinstance(v, PObj):
        f = v.cls.find("__len__")
        if isinstance(f, PFunc):
            return it.call(PBound(f, v), [], {})
        if v.has_base:
            return m_len(it, v.base)
        raise PyRaise(TypeError(f"object of type '{v.cls.name}' has no len()"))
    if isinstance(v, SStr):
        return SInt(z3.Length(v.t))
    if isinstance(v, SBytes):
        if v.length is None:
            raise Unsupported("len of abstract bytes without length")
        return SInt(v.length) if not isinstance(v.length, int) else v.length
    if type(v).__name__ in ("MPBytes", "MPTrunc"):
        return SInt(v.length) if not isinstance(v.length, int) else v.length
    if type(v).__name__ == "BCat":
        from .files import length_of

        n = length_of(v)
        return SInt(n) if not isinstance(n, int) else n
    if isinstance(v, Sym):
        raise Unsupported(f"len of {v!r}")
    try:
        return len(v)
    except TypeError as e:
        raise PyRaise(e)


def m_bool(it, v=False):
    if isinstance(v, SBool):
        return v
    if isinstance(v, Opaque):
        return SBool(py_truth(v.t))
    if isinstance(v, SInt):
        return SBool(v.t != 0)
    if isinstance(v, SStr):
        return SBool(z3.Length(v.t) > 0)
    return it.truth(v)


def m_callable(it, v):
    if isinstance(v, (PFunc, PBound, PClass, NativeSuper)):
        return True
    if isinstance(v, PObj):
        return v.cls.find("__call__") is not None
    if isinstance(v, Opaque):
        return SBool(z3.Function("py_callable", z3.DeclareSort("PyVal"), z3.BoolSort())(v.t))
    if isinstance(v, Sym):
        return False
    return callable(v)


class LazyIter:
    """what map() / filter() return: a one-shot iterator that computes each item when it is asked for"""

    def __init__(self, gen):
        self.gen = gen

    def __iter__(self):
        return self

    def __next__(self):
        return next(self.gen)


def m_map(it, f, *its):
    return LazyIter(it.call(f, list(xs), {}) for xs in zip(*[it.iterate(i) for i in its]))


def m_filter(it, f, seq):
    return LazyIter(x for x in it.iterate(seq) if it.truth(x if f is None else it.call(f, [x], {})))


def m_list(it, seq=()):
    return list(it.iterate(seq))


def m_tuple(it, seq=()):
    return tuple(it.iterate(seq))


def m_set(it, seq=()):
    xs = list(it.iterate(seq))
    if any(isinstance(x, Sym) for x in xs):
        raise Unsupported("set of symbolic values")
    return set(xs)


def m_dict(it, *a, **k):
    if a and isinstance(a[0], PClass):
        return dict(a[0].d)
    if a and isinstance(a[0], PObj) and a[0].has_base:
        a = (a[0].base,) + a[1:]
    if a and not isinstance(a[0], (dict,)) and not hasattr(a[0], "keys"):
        a = (list(it.iterate(a[0])),) + a[1:]
    return dict(*a, **k)


def _release(seq):
    """CPython drops its reference to the argument when any()/all() returns: a generator that is not referenced elsewhere is closed there (its
    finally blocks run).  Assumed: a generator handed to any()/all() is not resumed afterwards."""
    if type(seq).__name__ == "LazyGen":
        seq.close()


def m_any(it, seq):
    try:
        for x in it.iterate(seq):  # lazy and short-circuiting like the builtin: the truth of every element is decided on the path
            if it.truth(x):
                return True
        return False
    finally:
        _release(seq)


def m_all(it, seq):
    try:
        for x in it.iterate(seq):
            if not it.truth(x):
                return False
        return True
    finally:
        _release(seq)


def m_abs(it, x):
    if isinstance(x, PObj) and x.has_base and it.concrete(x.base):
        x = x.base
    z = it.zint(x)
    if z is not None and not it.concrete(x):
        return SInt(z3.If(z >= 0, z, -z))
    return abs(it.unbase(x))


def m_int(it, *a, **k):
    if not a:
        return 0
    v = it.unbase(a[0])
    if isinstance(v, SInt):
        return v
    if isinstance(v, SBool):
        return SInt(z3.If(v.t, 1, 0))
    if type(v).__name__ == "SymIP":
        return v.value
    if isinstance(v, Sym):
        raise Unsupported("int() of symbolic non-integer")
    try:
        return int(v, *a[1:], **k)
    except Exception as e:
        raise PyRaise(e)


def m_sorted(it, seq, *, key=None, reverse=False):
    """sorted() with a key function of the interpreted program: the keys are computed through the interpreter and must be concrete and mutually comparable
    (the order is then the stable order of those keys); without a key the items themselves must be concrete"""
    items = list(it.iterate(seq))
    if key is None:
        if not all(it.concrete(x) for x in items):
            raise Unsupported("sorted() of symbolic items")
        keys = items
    else:
        keys = [it.unbase(it.call(key, [x], {})) for x in items]
        if not all(it.concrete(k) for k in keys):
            raise Unsupported("sorted() with symbolic keys")
    try:
        order = sorted(range(len(items)), key=lambda i: keys[i], reverse=bool(reverse))
    except TypeError as e:
        raise PyRaise(e)
    return [items[i] for i in order]


def m_hash(it, v):
    return it.hash_(v)


class ExecReached(Exception):
    """Marks the end of a path that reached exec() with symbolic source text (the obligation judges the path condition)."""


def m_exec(it, code, g=None, l=None):
    import ast

    from .misc import CodeStub

    if isinstance(code, SStr):
        it.event("exec-symbolic", code, g)
        raise PyRaise(ExecReached("exec reached with symbolic source"))
    if isinstance(code, CodeStub):
        code = code.source
    if not isinstance(code, str):
        raise Unsupported("exec of non-literal code")
    it.event("exec", code, g)
    try:
        tree = ast.parse(code)
    except SyntaxError as e:
        raise PyRaise(e)
    m = PModule("<exec>")
    m.g = g if g is not None else {}
    if l is not None and l is not g:
        raise Unsupported("exec with separate locals")
    for st in tree.body:
        it.stmt(st, m.g, m)
    return None


def m_setattr(it, o, name, v):
    return it.setattr_(o, name, v)


def m_print(it, *a, **k):
    return None


def m_id(it, v):
    return id(v)


def m_iter(it, v):
    return iter(it.iterate(v))


def m_object_setattr(it, o, name, v):
    if isinstance(o, PObj):
        return it.raw_setattr(o, name, v)
    return object.__setattr__(o, name, v)


def m_min_max(fn):
    def m(it, *a, **k):
        xs = list(it.iterate(a[0])) if len(a) == 1 else list(a)
        if all(it.concrete(x) for x in xs) and not k:
            try:
                return fn(xs)
            except Exception as e:
                raise PyRaise(e)
        raise Unsupported("min/max of symbolic values")

    return m


# ---- objects with builtin bases -----------------------------------------------------------------------------------
def new_with_native_base(it, cls, args, kwargs):
    nbs = cls.native_bases()
    o = PObj(cls)
    if not nbs:
        return o
    nb = nbs[0]
    a = [it.unbase(x) for x in args]
    if nb is int:
        v = a[0] if a else 0
        if isinstance(v, (SInt, SBool)) or isinstance(v, (int, bool)):
            o.base = v
        elif isinstance(v, (str, float, bytes)):
            try:
                o.base = int(v)
            except Exception as e:
                raise PyRaise(e)
        elif isinstance(v, Sym):
            raise Unsupported("int() of symbolic non-integer")
        else:
            raise PyRaise(TypeError(f"int() argument must be a string, a bytes-like object or a real number, not '{it.type_name(v)}'"))
    elif nb in (str, bytes, float):
        v = a[0] if a else nb()
        if isinstance(v, Sym):
            if (nb is str and isinstance(v, SStr)) or (nb is bytes and isinstance(v, SBytes)):
                o.base = v
            else:
                raise Unsupported(f"{nb.__name__}() of symbolic {v!r}")
        else:
            try:
                o.base = nb(v) if not isinstance(v, nb) or type(v) is not nb else v
            except Exception as e:
                raise PyRaise(e)
    elif nb is list:
        o.base = []
    elif nb is dict:
        o.base = {}
    elif isinstance(nb, type) and issubclass(nb, BaseException):
        o.base = nb(*[x if it.concrete(x) else "<symbolic>" for x in a])
        o.attrs["args"] = tuple(args)
    else:
        o.base = Opaque("nativebase")
    return o


def native_new(it, native_type, cls, rest, kwargs):
    """``NativeType.__new__(cls, *rest)`` where cls is an interpreted subclass."""
    o = PObj(cls)
    it.allocs.append(o)
    r = [it.unbase(x) for x in rest]
    import datetime as _dtm_

    if isinstance(native_type, type) and issubclass(native_type, _dtm_.datetime) and not (all(it.concrete(x) for x in r) and all(it.concrete(x) for x in kwargs.values())):
        from .dt import SymDT

        o.base = SymDT.build(it, r, {k: it.unbase(v) for k, v in kwargs.items()})
        return o
    if all(it.concrete(x) for x in r) and all(it.concrete(x) for x in kwargs.values()):
        try:
            o.base = native_type(*r, **kwargs)
        except Exception as e:
            raise PyRaise(e)
    elif len(r) == 1 and not kwargs:
        o.base = r[0]
    else:
        o.base = Opaque("nativebase")
        o.base_args = (r, kwargs)
    return o


def native_super_call(it, ns, args, kwargs):
    n, o = ns.name, ns.obj
    if n == "__setattr__":
        return it.raw_setattr(o, args[0], args[1])
    if n == "__new__":
        cls = args[0]
        nbs = cls.native_bases()
        if nbs and nbs[0] not in (int, str, bytes, float, list, dict) and len(args) > 1:
            return native_new(it, nbs[0], cls, args[1:], kwargs)
        ob = new_with_native_base(it, cls, args[1:], kwargs)
        it.allocs.append(ob)
        return ob
    if n == "__init__":
        if isinstance(o, PObj) and o.has_base and isinstance(o.base, list) and args:
            o.base[:] = list(it.iterate(args[0]))
        return None
    if n in ("__eq__", "__ne__", "__lt__", "__gt__", "__le__", "__ge__", "__hash__", "__str__", "__repr__", "__format__"):
        if isinstance(o, PObj) and o.has_base:
            b = o.base
            a = [it.unbase(x) for x in args]
            if it.concrete(b) and all(it.concrete(x) for x in a):
                try:
                    return getattr(type(b), n)(b, *a)
                except Exception as e:
                    raise PyRaise(e)
            if n in ("__eq__", "__ne__"):
                r = it.rich_one(b, n, a[0])
                return r
        if n == "__eq__":
            return NotImplemented if o is not args[0] else True
        if n == "__hash__":
            return Opaque("hash")
    if isinstance(o, PObj) and o.has_base and it.concrete(o.base) and hasattr(o.base, n):
        a = [it.unbase(x) for x in args]
        if all(it.concrete(x) for x in a):
            try:
                return getattr(o.base, n)(*a, **kwargs)
            except Exception as e:
                raise PyRaise(e)
    raise Unsupported(f"super().{n} reaching a builtin base")


def install(it):
    M = it.models
    M[isinstance] = m_isinstance
    M[issubclass] = m_issubclass
    M[getattr] = m_getattr
    M[hasattr] = m_hasattr
    M[setattr] = m_setattr
    M[type] = m_type
    M[len] = m_len
    M[bool] = m_bool
    M[callable] = m_callable
    M[map] = m_map
    M[filter] = m_filter
    M[list] = m_list
    M[tuple] = m_tuple
    M[set] = m_set
    M[dict] = m_dict
    M[sorted] = m_sorted
    M[any] = m_any
    M[all] = m_all
    M[abs] = m_abs
    M[int] = m_int
    M[hash] = m_hash
    M[exec] = m_exec
    M[print] = m_print
    M[id] = m_id
    M[iter] = m_iter
    M[min] = m_min_max(min)
    M[max] = m_min_max(max)
    M[object.__setattr__] = m_object_setattr

    def m_fromkeys(it_, iterable, value=None):
        d = {}
        for k in it_.iterate(iterable):
            it_.setitem(d, k, value)  # heap objects as keys: hashed and compared through their own __hash__ / __eq__
        return d

    M[dict.fromkeys] = m_fromkeys
    import operator as op
    import ast

    for fn, name in ((op.eq, "Eq"), (op.ne, "NotEq"), (op.lt, "Lt"), (op.le, "LtE"), (op.gt, "Gt"), (op.ge, "GtE"), (op.is_, "Is"), (op.is_not, "IsNot")):
        M[fn] = (lambda n: lambda it_, a, b: it_.compare(n, a, b))(name)
    M[op.contains] = lambda it_, c, x: it_.compare("In", x, c)
    for fn, node in ((op.add, ast.Add()), (op.sub, ast.Sub()), (op.mul, ast.Mult()), (op.truediv, ast.Div()), (op.floordiv, ast.FloorDiv()), (op.mod, ast.Mod()),
                     (op.and_, ast.BitAnd()), (op.or_, ast.BitOr()), (op.xor, ast.BitXor()), (op.pow, ast.Pow()), (op.lshift, ast.LShift()), (op.rshift, ast.RShift())):
        M[fn] = (lambda nd: lambda it_, a, b: it_.binop(nd, a, b))(node)
    M[op.not_] = lambda it_, a: it_.unop(ast.Not(), a)
    M[op.neg] = lambda it_, a: it_.unop(ast.USub(), a)

    _orig = it.call_native

    def call_native(fn, args, kwargs):
        # NativeType.__new__(cls, ...) with an interpreted subclass
        if getattr(fn, "__name__", "") == "__new__" and args and isinstance(args[0], PClass):
            nt = getattr(fn, "__self__", None)
            if isinstance(nt, type):
                return native_new(it, nt, args[0], args[1:], kwargs)
        return _orig(fn, args, kwargs)

    it.call_native = call_native

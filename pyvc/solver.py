"""Thin wrapper around z3 (primary) with an SMT-LIB export for cross-checking with cvc5 / z3-new."""
import os
import subprocess
import tempfile
import time

import z3

DEFAULT_TIMEOUT_MS = int(os.environ.get("PYVC_TIMEOUT_MS", "20000"))


def zs(v):
    """Python str of a z3 string value (z3 prints code points outside printable ASCII as \\u{h..} escapes)."""
    import re as _re

    t = v.as_string() if hasattr(v, "as_string") else str(v)
    return _re.sub(r"\\u\{([0-9a-fA-F]+)\}", lambda m: chr(int(m.group(1), 16)), t)


class Stats:
    def __init__(self):
        self.queries = 0
        self.time = 0.0
        self.by_backend = {"z3": 0, "cvc5": 0}
        self.unknown = 0


STATS = Stats()
AXIOMS = []  # global assumed facts contributed by models (each registered with a name, see models/*)
AXIOM_NAMES = []


AXIOM_SYMS = []


def uninterpreted_symbols(e, acc=None, seen=None):
    """Names of the uninterpreted functions / constants of non-builtin sorts occurring in an expression."""
    acc = set() if acc is None else acc
    seen = set() if seen is None else seen
    stack = [e]
    while stack:
        x = stack.pop()
        if x.get_id() in seen:
            continue
        seen.add(x.get_id())
        if z3.is_quantifier(x):
            stack.append(x.body())
            continue
        if z3.is_app(x):
            d = x.decl()
            if d.kind() == z3.Z3_OP_UNINTERPRETED and x.num_args() > 0:
                acc.add(d.name())
            stack.extend(x.children())
    return acc


AXIOM_TRIGGERS = []


def add_axiom(name, formula, trigger=None):
    """`trigger`: (bound variables, pattern term) used to instantiate a universally quantified axiom on the ground terms of a query
    when the quantified query comes back `unknown` (see ground_instances)."""
    if name not in AXIOM_NAMES:
        AXIOM_NAMES.append(name)
        AXIOMS.append(formula)
        AXIOM_SYMS.append(uninterpreted_symbols(formula))
        AXIOM_TRIGGERS.append(trigger)


def _subterms(es):
    seen, out, stack = set(), [], list(es)
    while stack:
        x = stack.pop()
        if not z3.is_expr(x) or x.get_id() in seen:
            continue
        seen.add(x.get_id())
        out.append(x)
        if z3.is_quantifier(x):
            continue
        stack.extend(x.children())
    return out


def ground_instances(constraints, rounds=2):
    """Instances of the triggered axioms on the ground terms of the query (no quantifiers): used to find counter-models."""
    used = set()
    for c in constraints:
        if z3.is_expr(c):
            used |= uninterpreted_symbols(c)
    insts, terms = [], list(constraints)
    for _ in range(rounds):
        new = []
        subs = _subterms(terms + insts)
        for ax, syms, trig in zip(AXIOMS, AXIOM_SYMS, AXIOM_TRIGGERS):
            if not (syms & used):
                continue
            if not z3.is_quantifier(ax):
                new.append(ax)
                continue
            if trig is None:
                continue
            bound, pat = trig
            body = ax.body()
            for t in subs:
                if z3.is_app(t) and t.decl().eq(pat.decl()) and t.num_args() == pat.num_args():
                    m = {}
                    ok = True
                    for pa, ta in zip(pat.children(), t.children()):
                        k = [i for i, b in enumerate(bound) if b.eq(pa)]
                        if k:
                            m[k[0]] = ta
                        elif not pa.eq(ta):
                            ok = False
                    if ok and len(m) == len(bound):
                        # de Bruijn: Var(0) is the LAST bound variable
                        inst = z3.substitute_vars(body, *[m[i] for i in reversed(range(len(bound)))])
                        new.append(inst)
        ids = {i.get_id() for i in insts}
        fresh = [n for n in new if n.get_id() not in ids]
        if not fresh:
            break
        insts += fresh
    return insts


_SYMS_MEMO = {}


def relevant_axioms(constraints):
    """Only the axioms that talk about a function symbol of the query (quantifiers make unrelated queries `unknown`)."""
    if not AXIOMS:
        return []
    used = set()
    for c in constraints:
        if z3.is_expr(c):
            k = c.get_id()
            if k not in _SYMS_MEMO:
                _SYMS_MEMO[k] = (uninterpreted_symbols(c), c)
            used |= _SYMS_MEMO[k][0]
    return [a for a, syms in zip(AXIOMS, AXIOM_SYMS) if syms & used]


SLOWLOG = float(os.environ.get("PYVC_SLOWLOG") or 0)


def check(constraints, timeout_ms=None, want_model=False, use_axioms=True):
    """Return ('sat'|'unsat'|'unknown', model-or-None, seconds)."""
    t00 = time.time()
    r = _check(constraints, timeout_ms, want_model, use_axioms)
    if SLOWLOG and time.time() - t00 > SLOWLOG:
        import sys

        print(f"[slow query {time.time() - t00:.1f}s -> {r[0]}; {len(constraints)} constraints; last: {str(constraints[-1])[:300]!r}]", file=sys.stderr)
    return r


def _is_strvar(e):
    return z3.is_const(e) and e.decl().kind() == z3.Z3_OP_UNINTERPRETED and e.sort() == z3.StringSort()


_REGEX_MEMO = {}


def _as_regex(f):
    """(var, R) with f <=> InRe(var, R) when f is a boolean combination of memberships of ONE string variable; else None."""
    k = f.get_id()
    if k not in _REGEX_MEMO:
        _REGEX_MEMO[k] = (_as_regex0(f), f)
    return _REGEX_MEMO[k][0]


def _as_regex0(f):
    if z3.is_app(f):
        k = f.decl().kind()
        if k == z3.Z3_OP_SEQ_IN_RE and _is_strvar(f.arg(0)):
            return f.arg(0), f.arg(1)
        if k == z3.Z3_OP_NOT:
            r = _as_regex(f.arg(0))
            return (r[0], z3.Complement(r[1])) if r else None
        if k in (z3.Z3_OP_AND, z3.Z3_OP_OR) and f.num_args() > 0:
            parts = [_as_regex(c) for c in f.children()]
            if all(parts) and len({p[0].get_id() for p in parts}) == 1:
                rs = [p[1] for p in parts]
                if len(rs) == 1:
                    return parts[0][0], rs[0]
                return parts[0][0], (z3.Intersect(*rs) if k == z3.Z3_OP_AND else z3.Union(*rs))
    return None


def normalize(constraints):
    """Merges all pure regex-membership constraints of one string variable into a single membership
    InRe(v, R1 & R2 & ~R3 ...): z3 decides one membership instantly but may answer `unknown` on many separate ones."""
    per_var, order, rest = {}, [], []
    for c in constraints:
        cs = c.children() if z3.is_app(c) and c.decl().kind() == z3.Z3_OP_AND else [c]
        for x in cs:
            r = _as_regex(x) if z3.is_expr(x) else None
            if r is None:
                rest.append(x)
            else:
                if r[0].get_id() not in per_var:
                    per_var[r[0].get_id()] = (r[0], [])
                    order.append(r[0].get_id())
                per_var[r[0].get_id()][1].append(r[1])
    out = list(rest)
    for vid in order:
        v, rs = per_var[vid]
        uniq, seen = [], set()
        for r in rs:
            if r.get_id() not in seen:
                seen.add(r.get_id())
                uniq.append(r)
        out.append(z3.InRe(v, uniq[0] if len(uniq) == 1 else z3.Intersect(*uniq)))
    return out


def _check(constraints, timeout_ms=None, want_model=False, use_axioms=True):
    constraints = normalize(list(constraints))
    s = z3.Solver()
    s.set("timeout", timeout_ms or DEFAULT_TIMEOUT_MS)
    constraints = [c for c in constraints]
    axioms = relevant_axioms(constraints) if use_axioms else []
    s.add(axioms)
    s.add(constraints)
    t0 = time.time()
    r = s.check()
    dt = time.time() - t0
    STATS.queries += 1
    STATS.time += dt
    STATS.by_backend["z3"] += 1
    if r == z3.unknown:
        s2 = z3.Solver()
        s2.set("timeout", timeout_ms or DEFAULT_TIMEOUT_MS)
        s2.set("random_seed", 7)
        s2.add(axioms)
        s2.add(constraints)
        r = s2.check()
        s = s2
    if r == z3.unknown and axioms and any(z3.is_quantifier(a) for a in axioms):
        # quantified axioms make satisfiable queries `unknown`: look for a counter-model with the axioms instantiated on the ground terms
        # of the query (a model of the instances; `unsat` here would also be a sound proof since instances are consequences of the axioms)
        s3 = z3.Solver()
        s3.set("timeout", timeout_ms or DEFAULT_TIMEOUT_MS)
        s3.add(ground_instances(constraints))
        s3.add(constraints)
        r3 = s3.check()
        if r3 != z3.unknown:
            STATS.by_backend["z3"] += 1
            return str(r3), (s3.model() if (r3 == z3.sat and want_model) else None), dt
    if r == z3.unknown:
        r2 = check_cvc5(s.to_smt2(), timeout_ms or DEFAULT_TIMEOUT_MS)
        if r2 in ("sat", "unsat"):
            STATS.by_backend["cvc5"] += 1
            return r2, None, dt
        STATS.unknown += 1
        return "unknown", None, dt
    return str(r), (s.model() if (r == z3.sat and want_model) else None), dt


def feasible(constraints):
    """Quick branch pruning: True unless the constraints are contradictory *without* the quantified axioms
    (over-approximation: a path that only the axioms make infeasible is discharged later by `reachable`)."""
    r, _, _ = check(constraints, timeout_ms=2000, use_axioms=False)
    return r != "unsat"


def reachable(pc):
    """False iff the path condition is provably contradictory given the axioms."""
    r, _, _ = check(list(pc), timeout_ms=1500)
    return r != "unsat"


class BackendDisagreement(Exception):
    """z3 proved a verification condition that cvc5 refutes (thorough tier): a checker error, never a verdict."""


CROSS = os.environ.get("PYVC_CROSS") == "1"
CROSS_STATS = {"agreed": 0, "unknown": 0, "skipped": 0}
CROSS_BUDGET_S = float(os.environ.get("PYVC_CROSS_BUDGET") or 90)  # cvc5 seconds per worker process; VCs beyond it are counted as skipped, never as agreed
CROSS_QUERY_MS = int(os.environ.get("PYVC_CROSS_QUERY_MS") or 4000)
_CROSS_SPENT = [0.0]
_CROSS_MEMO = {}


def valid(pc, goal, want_model=True):
    """Is ``pc => goal`` valid?  Returns ('proved'|'refuted'|'unknown', model, seconds).  A conjunction is checked conjunct by conjunct.
    With PYVC_CROSS=1 (thorough tier) every VC that z3 proves is re-discharged by cvc5; a refutation by cvc5 raises BackendDisagreement."""
    goals = goal.children() if z3.is_app(goal) and goal.decl().kind() == z3.Z3_OP_AND and goal.num_args() > 0 else [goal]
    total = 0.0
    for g in goals:
        r, m, dt = check(list(pc) + [z3.Not(g)], want_model=want_model)
        total += dt
        if r != "unsat":
            return {"sat": "refuted"}.get(r, "unknown"), m, total
        if CROSS and not z3.is_true(z3.simplify(g)):
            if _CROSS_SPENT[0] >= CROSS_BUDGET_S:
                CROSS_STATS["skipped"] += 1
                STATS.by_backend["cvc5-recheck:skipped (budget)"] = STATS.by_backend.get("cvc5-recheck:skipped (budget)", 0) + 1
                continue
            t0 = time.time()
            c = cross_check(pc, g, timeout_ms=CROSS_QUERY_MS)
            _CROSS_SPENT[0] += time.time() - t0
            STATS.time += time.time() - t0
            STATS.by_backend["cvc5"] = STATS.by_backend.get("cvc5", 0) + 1
            if c == "refuted":
                raise BackendDisagreement(f"z3 proves, cvc5 refutes: {str(g)[:300]}")
            CROSS_STATS["agreed" if c == "proved" else "unknown"] += 1
            k_ = "cvc5-recheck:agreed" if c == "proved" else "cvc5-recheck:unknown (timeout)"
            STATS.by_backend[k_] = STATS.by_backend.get(k_, 0) + 1
    return "proved", None, total


def check_cvc5(smt2_text, timeout_ms):
    exe = "/usr/bin/cvc5"
    if not os.path.exists(exe):
        return "unknown"
    with tempfile.NamedTemporaryFile("w", suffix=".smt2", delete=False) as f:
        f.write("(set-logic ALL)\n" + smt2_text)
        path = f.name
    try:
        out = subprocess.run([exe, "--strings-exp", f"--tlimit={timeout_ms}", path], capture_output=True, text=True, timeout=timeout_ms / 1000 + 5).stdout
        first = out.strip().splitlines()[0] if out.strip() else ""
        return first if first in ("sat", "unsat") else "unknown"
    except Exception:
        return "unknown"
    finally:
        os.unlink(path)


def cross_check(pc, goal, timeout_ms=None):
    """Re-discharge a VC with cvc5 (thorough tier). Returns 'proved'|'refuted'|'unknown'."""
    s = z3.Solver()
    cons = normalize(list(pc) + [z3.Not(goal)])
    s.add(relevant_axioms(cons))
    s.add(cons)
    text = s.to_smt2()
    if text not in _CROSS_MEMO:
        _CROSS_MEMO[text] = check_cvc5(text, timeout_ms or DEFAULT_TIMEOUT_MS)
    return {"unsat": "proved", "sat": "refuted"}.get(_CROSS_MEMO[text], "unknown")

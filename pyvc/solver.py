"""Thin wrapper around z3 (primary) with an SMT-LIB export for cross-checking with cvc5 / z3-new."""
import os
import subprocess
import tempfile
import time

import z3

DEFAULT_TIMEOUT_MS = int(os.environ.get("PYVC_TIMEOUT_MS", "20000"))


class Stats:
    def __init__(self):
        self.queries = 0
        self.time = 0.0
        self.by_backend = {"z3": 0, "cvc5": 0}
        self.unknown = 0


STATS = Stats()
AXIOMS = []  # global assumed facts contributed by models (each registered with a name, see models/*)
AXIOM_NAMES = []


AXIOM_SYMS = []


def uninterpreted_symbols(e, acc=None, seen=None):
    """Names of the uninterpreted functions / constants of non-builtin sorts occurring in an expression."""
    acc = set() if acc is None else acc
    seen = set() if seen is None else seen
    stack = [e]
    while stack:
        x = stack.pop()
        if x.get_id() in seen:
            continue
        seen.add(x.get_id())
        if z3.is_quantifier(x):
            stack.append(x.body())
            continue
        if z3.is_app(x):
            d = x.decl()
            if d.kind() == z3.Z3_OP_UNINTERPRETED and x.num_args() > 0:
                acc.add(d.name())
            stack.extend(x.children())
    return acc


def add_axiom(name, formula):
    if name not in AXIOM_NAMES:
        AXIOM_NAMES.append(name)
        AXIOMS.append(formula)
        AXIOM_SYMS.append(uninterpreted_symbols(formula))


def relevant_axioms(constraints):
    """Only the axioms that talk about a function symbol of the query (quantifiers make unrelated queries `unknown`)."""
    if not AXIOMS:
        return []
    used, seen = set(), set()
    for c in constraints:
        if z3.is_expr(c):
            uninterpreted_symbols(c, used, seen)
    return [a for a, syms in zip(AXIOMS, AXIOM_SYMS) if syms & used]


def check(constraints, timeout_ms=None, want_model=False, use_axioms=True):
    """Return ('sat'|'unsat'|'unknown', model-or-None, seconds)."""
    s = z3.Solver()
    s.set("timeout", timeout_ms or DEFAULT_TIMEOUT_MS)
    constraints = [c for c in constraints]
    axioms = relevant_axioms(constraints) if use_axioms else []
    s.add(axioms)
    s.add(constraints)
    t0 = time.time()
    r = s.check()
    dt = time.time() - t0
    STATS.queries += 1
    STATS.time += dt
    STATS.by_backend["z3"] += 1
    if r == z3.unknown:
        s2 = z3.Solver()
        s2.set("timeout", timeout_ms or DEFAULT_TIMEOUT_MS)
        s2.set("random_seed", 7)
        s2.add(axioms)
        s2.add(constraints)
        r = s2.check()
        s = s2
    if r == z3.unknown:
        r2 = check_cvc5(s.to_smt2(), timeout_ms or DEFAULT_TIMEOUT_MS)
        if r2 in ("sat", "unsat"):
            STATS.by_backend["cvc5"] += 1
            return r2, None, dt
        STATS.unknown += 1
        return "unknown", None, dt
    return str(r), (s.model() if (r == z3.sat and want_model) else None), dt


def feasible(constraints):
    """Quick branch pruning: True unless the constraints are contradictory *without* the quantified axioms
    (over-approximation: a path that only the axioms make infeasible is discharged later by `reachable`)."""
    r, _, _ = check(constraints, timeout_ms=2000, use_axioms=False)
    return r != "unsat"


def reachable(pc):
    """False iff the path condition is provably contradictory given the axioms."""
    r, _, _ = check(list(pc), timeout_ms=1500)
    return r != "unsat"


def valid(pc, goal, want_model=True):
    """Is ``pc => goal`` valid?  Returns ('proved'|'refuted'|'unknown', model, seconds)."""
    r, m, dt = check(list(pc) + [z3.Not(goal)], want_model=want_model)
    return {"unsat": "proved", "sat": "refuted"}.get(r, "unknown"), m, dt


def check_cvc5(smt2_text, timeout_ms):
    exe = "/usr/bin/cvc5"
    if not os.path.exists(exe):
        return "unknown"
    with tempfile.NamedTemporaryFile("w", suffix=".smt2", delete=False) as f:
        f.write("(set-logic ALL)\n" + smt2_text)
        path = f.name
    try:
        out = subprocess.run([exe, "--strings-exp", f"--tlimit={timeout_ms}", path], capture_output=True, text=True, timeout=timeout_ms / 1000 + 5).stdout
        first = out.strip().splitlines()[0] if out.strip() else ""
        return first if first in ("sat", "unsat") else "unknown"
    except Exception:
        return "unknown"
    finally:
        os.unlink(path)


def cross_check(pc, goal, timeout_ms=None):
    """Re-discharge a VC with cvc5 (thorough tier). Returns 'proved'|'refuted'|'unknown'."""
    s = z3.Solver()
    s.add(relevant_axioms(list(pc) + [goal]))
    s.add(list(pc))
    s.add(z3.Not(goal))
    r = check_cvc5(s.to_smt2(), timeout_ms or DEFAULT_TIMEOUT_MS)
    return {"unsat": "proved", "sat": "refuted"}.get(r, "unknown")

"""C12 - record equality and hashing obey the value-object contract.

Contracts on the real flow/record/base.py:

  Record.__eq__(o)        never raises; not isinstance(o, Record) -> False; else packed(self) == packed(o)
                          where packed = (descriptor identifier, values of the non-ignored slots, FieldType values through _pack())
  Record.__hash__()       never raises; a function of packed(self) only  (=> equal records have equal hashes)
  GroupedRecord._pack     accepts the arguments __eq__/__hash__ pass; packs every member with them
  _as_hashable            lists / tuples / dicts at any depth become hashable; dict order does not matter
  ignore_fields_for_comparison(fs)   on normal and exceptional exit the configuration equals its value at entry; in force inside the scope

Field values n, s (and the members of nested / grouped records) are symbolic; the remaining field types carry representative structured values.
Hash values are abstract: the engine only knows that hash() is a function of the value, so "equal hashes" is proved by congruence.
"""
import datetime as _dt

import z3

from .common import *  # noqa

ALLTYPES = [("varint", "n"), ("string", "s"), ("uint16", "p"), ("boolean", "b"), ("float", "f"), ("bytes", "by"), ("datetime", "ts"), ("digest", "dg"), ("path", "pa"), ("command", "cmd"), ("net.ipaddress", "ip"),
            ("net.ipnetwork", "nw"), ("string[]", "sl"), ("dictlist", "dl"), ("stringlist", "sl2"), ("uri", "u"), ("filesize", "fs"), ("unix_file_mode", "um"), ("uint32", "p32"), ("wstring", "ws"), ("varint[]", "il"), ("net.tcp.Port", "tp")]
VALUES = {"p": 80, "b": True, "f": 1.5, "by": b"ab", "ts": "2020-01-02T03:04:05.000006+00:00", "dg": ("d41d8cd98f00b204e9800998ecf8427e", None, None), "pa": "/a/b", "cmd": "ls -l /tmp", "ip": "1.2.3.4", "nw": "10.0.0.0/8", "sl": ["a", "b"],
          "dl": [{"a": 1, "b": [1, 2]}, {"c": {"d": 1}}], "sl2": ["x"], "u": "http://h/p?q", "fs": 3, "um": 0o644, "p32": 70000, "ws": "w", "il": [1, 2], "tp": 443}
import importlib.util as _ilu, os as _os
_spec = _ilu.spec_from_file_location('c12_values', _os.path.join(_os.path.dirname(_os.path.dirname(_os.path.abspath(__file__))), 'replay', 'c12_values.py'))
_m = _ilu.module_from_spec(_spec)
_spec.loader.exec_module(_m)
ONE = _m.ONE


def build(tier="quick", seed=0):
    it, L = engine()
    base = L.import_module("flow.record.base")
    pack = new_pack("C12", "Record equality and hashing obey the value-object contract")
    RD, GR = base.g["RecordDescriptor"], base.g["GroupedRecord"]
    FU = ("flow.record.base:Record.__eq__", "flow.record.base:Record.__hash__", "flow.record.base:Record._pack", "flow.record.base:_as_hashable", "flow.record.base:GroupedRecord._pack", "flow.record.base:GroupedRecord.__init__",
          "flow.record.base:set_ignored_fields_for_comparison", "flow.record.base:ignore_fields_for_comparison", "flow.record.base:RecordDescriptor.identifier")
    n1, n2, n3 = z3.Int("n1"), z3.Int("n2"), z3.Int("n3")
    s1, s2 = z3.String("s1"), z3.String("s2")

    def D_all():
        return it.call(RD, ["c12/all", list(ALLTYPES)], {})

    def mk(D, n, s, gen=None, **extra):
        vals = dict(VALUES)
        vals.update({"n": n, "s": s})
        vals.update(extra)
        if gen is not None:
            vals["_generated"] = gen
        return it.call(D, [], vals)

    def pair():
        D = D_all()
        a = mk(D, SInt(n1), SStr(s1))
        b = mk(D, SInt(n2), SStr(s2), gen=a.attrs["_generated"])
        return a, b

    def tb(v):
        return v.t if isinstance(v, SBool) else z3.BoolVal(bool(v)) if isinstance(v, bool) else None

    def hterm(h):
        return h.t if isinstance(h, Opaque) else it.pyval(h)

    def set_ignore(fields):
        it.call(base.g["set_ignored_fields_for_comparison"], [list(fields)], {})

    def with_clean_config(th):
        def run():
            saved = base.g["IGNORE_FIELDS_FOR_COMPARISON"]
            base.g["IGNORE_FIELDS_FOR_COMPARISON"] = set()
            try:
                return th()
            finally:
                base.g["IGNORE_FIELDS_FOR_COMPARISON"] = saved

        return run

    def wit(m, p):
        g = lambda t: model_value(m, t) if m is not None else 0
        return {"n1": g(n1), "n2": g(n2), "s1": g(s1) if m is not None else "", "s2": g(s2) if m is not None else ""}

    def ob(name, th, judge, replay_kind, extra=None):
        pack.add(Obligation(name, lambda tier: prove_paths(name, with_clean_config(th), judge, wit), replay=lambda w: {"call": "c12_laws", "args": dict(w, kind=replay_kind, **(extra or {}))}, functions=FU))

    # ---- definition, laws and hashing on a record with every field type (n, s symbolic)
    ob("C12.eq.def[plain]", lambda: (lambda a, b: (it.compare("Eq", a, b), it.compare("NotEq", a, b), it.compare("Eq", b, a)))(*pair()),
       lambda p: (z3.And(tb(p.value[0]) == z3.And(n1 == n2, s1 == s2), tb(p.value[1]) == z3.Not(tb(p.value[0])), tb(p.value[2]) == tb(p.value[0])), f"==: {p.value[0]!r}  !=: {p.value[1]!r}  reversed ==: {p.value[2]!r}"), "plain")
    ob("C12.eq.refl[plain]", lambda: (lambda a, b: (it.compare("Eq", a, a), it.compare("NotEq", a, a)))(*pair()), lambda p: (z3.And(tb(p.value[0]), z3.Not(tb(p.value[1]))), f"a == a: {p.value[0]!r}, a != a: {p.value[1]!r}"), "plain")
    ob("C12.hash[plain]", lambda: (lambda a, b: (it.compare("Eq", a, b), it.hash_(a), it.hash_(b), it.hash_(a)))(*pair()),
       lambda p: (z3.And(z3.Implies(tb(p.value[0]), hterm(p.value[1]) == hterm(p.value[2])), hterm(p.value[1]) == hterm(p.value[3])), "equal records with different hashes (or an unstable hash)"), "plain")
    ob("C12.eq.other_kinds", lambda: (lambda a, b: [it.compare("Eq", a, o) for o in (None, 5, "x", (1, 2), [a], {"n": 1}, b.cls.d["_desc"])] + [it.compare("NotEq", a, o) for o in (None, 5, "x")])(*pair()),
       lambda p: (all(v is False for v in p.value[:7]) and all(v is True for v in p.value[7:]), f"comparison with a non-record: {p.value!r}"), "other")

    # ---- ignored fields
    def th_ignore():
        a, b = pair()
        set_ignore(["s", "_generated"])
        return it.compare("Eq", a, b), it.hash_(a), it.hash_(b)

    ob("C12.ignore[s]", th_ignore, lambda p: (z3.And(tb(p.value[0]) == (n1 == n2), z3.Implies(n1 == n2, hterm(p.value[1]) == hterm(p.value[2]))), f"with s ignored: {p.value[0]!r}"), "ignore_s")

    # ---- same name, different field list: never equal
    def th_desc():
        A = it.call(RD, ["c12/x", [("varint", "n")]], {})
        B = it.call(RD, ["c12/x", [("varint", "n"), ("string", "s")]], {})
        a = it.call(A, [], {"n": SInt(n1)})
        b = it.call(B, [], {"n": SInt(n1), "_generated": a.attrs["_generated"]})
        return it.compare("Eq", a, b), it.compare("Eq", b, a)

    ob("C12.eq.descriptor", th_desc, lambda p: (z3.And(z3.Not(tb(p.value[0])), z3.Not(tb(p.value[1]))), "records of different descriptors compare equal"), "descriptor")

    # ---- nested and grouped records
    def th_nested():
        I = it.call(RD, ["c12/inner", [("varint", "n"), ("command", "c")]], {})
        O = it.call(RD, ["c12/outer", [("record", "r"), ("record[]", "rs"), ("string", "s")]], {})
        i1 = it.call(I, [], {"n": SInt(n1), "c": "ls -l"})
        i2 = it.call(I, [], {"n": SInt(n2), "c": "ls -l", "_generated": i1.attrs["_generated"]})
        i3 = it.call(I, [], {"n": SInt(n3), "c": "cat /x", "_generated": i1.attrs["_generated"]})
        a = it.call(O, [], {"r": i1, "rs": [i3, i1], "s": "q"})
        b = it.call(O, [], {"r": i2, "rs": [i3, i2], "s": "q", "_generated": a.attrs["_generated"]})
        return it.compare("Eq", a, b), it.hash_(a), it.hash_(b), it.compare("Eq", a, a)

    ob("C12.nested", th_nested, lambda p: (z3.And(tb(p.value[0]) == (n1 == n2), z3.Implies(n1 == n2, hterm(p.value[1]) == hterm(p.value[2])), tb(p.value[3])), f"nested: == {p.value[0]!r}, reflexive {p.value[3]!r}"), "nested")

    def th_grouped():
        A = it.call(RD, ["c12/ga", [("varint", "n"), ("command", "c")]], {})
        B = it.call(RD, ["c12/gb", [("string", "s")]], {})
        a1 = it.call(A, [], {"n": SInt(n1), "c": "ls -l"})
        a2 = it.call(A, [], {"n": SInt(n2), "c": "ls -l", "_generated": a1.attrs["_generated"]})
        c1 = it.call(B, [], {"s": SStr(s1)})
        c2 = it.call(B, [], {"s": SStr(s2), "_generated": c1.attrs["_generated"]})
        g1 = it.call(GR, ["grp", [a1, c1]], {})
        g2 = it.call(GR, ["grp", [a2, c2]], {})
        return it.compare("Eq", g1, g2), it.hash_(g1), it.hash_(g2), it.compare("Eq", g1, g1), it.compare("NotEq", g1, g2), it.compare("Eq", g1, a1)

    ob("C12.grouped", th_grouped, lambda p: (z3.And(tb(p.value[0]) == z3.And(n1 == n2, s1 == s2), z3.Implies(z3.And(n1 == n2, s1 == s2), hterm(p.value[1]) == hterm(p.value[2])), tb(p.value[3]), tb(p.value[4]) == z3.Not(tb(p.value[0])), z3.Not(tb(p.value[5]))),
                                             f"grouped: == {p.value[0]!r}, reflexive {p.value[3]!r}, != {p.value[4]!r}, grouped == member {p.value[5]!r}"), "grouped")

    # ---- equal descriptors, distinct record classes: the class cache of _generate_record_class may have evicted the first class (lru_cache contract: eviction at any time)
    def th_evicted():
        A1 = it.call(RD, ["c12/ev", [("varint", "n"), ("string", "s")]], {})
        a = it.call(A1, [], {"n": SInt(n1), "s": SStr(s1)})
        gen = base.g["_generate_record_class"]
        if getattr(gen, "memo", None) is not None:
            gen.memo.clear()  # the entry is evicted
        A2 = it.call(RD, ["c12/ev", [("varint", "n"), ("string", "s")]], {})
        b = it.call(A2, [], {"n": SInt(n2), "s": SStr(s2), "_generated": a.attrs["_generated"]})
        return it.compare("Eq", a, b), it.compare("Eq", b, a), it.hash_(a), it.hash_(b), a.cls is b.cls

    ob("C12.eq.def[equal descriptors, distinct record classes]", th_evicted,
       lambda p: ((not p.value[4]) and z3.And(tb(p.value[0]) == z3.And(n1 == n2, s1 == s2), tb(p.value[1]) == tb(p.value[0]), z3.Implies(z3.And(n1 == n2, s1 == s2), hterm(p.value[2]) == hterm(p.value[3]))),
                  f"records of EQUAL descriptors whose classes differ (class cache eviction): == {p.value[0]!r} / reversed {p.value[1]!r} (harness built distinct classes: {not p.value[4]})"), "evicted")

    # ---- two DIFFERENT descriptors whose identifiers coincide (same name, same unseparated field text): their records are not equal
    def th_coincidence():
        C = it.call(RD, ["c12/x", [("string", "a"), ("string", "stringb")]], {})
        D = it.call(RD, ["c12/x", [("string", "astring"), ("string", "b")]], {})
        c = it.call(C, ["1", "2"], {})
        d = it.call(D, ["1", "2"], {"_generated": c.attrs["_generated"]})
        return it.compare("Eq", C, D), it.compare("Eq", c, d), it.compare("Eq", d, c)

    pack.add(Obligation("C12.eq.coincidence[descriptors whose identifiers coincide]", lambda tier: prove_paths("C12.eq.coincidence[descriptors whose identifiers coincide]", with_clean_config(th_coincidence),
                        lambda p: (z3.And(z3.Not(tb(p.value[1])), z3.Not(tb(p.value[2]))), f"records of two different descriptors (descriptors equal: {p.value[0]!r}) compare equal: {p.value[1]!r} / {p.value[2]!r}"), lambda m_, p: {}),
                        replay=lambda w: {"call": "c12_coincidence", "args": {}}, functions=FU, mode="the representative pair"))

    # ---- a list field that was filled in place (append / extend of raw values) holds the same values as one given at construction: equal and equal hashes
    def th_inplace():
        D = it.call(RD, ["c12/lists", [("path[]", "ps"), ("net.ipaddress[]", "ips"), ("string[]", "ss"), ("uint16[]", "us")]], {})
        a = it.call(D, [], {"ps": ["/a", "/b"], "ips": ["1.2.3.4", "::1"], "ss": ["x", "y"], "us": [1, 2]})
        b = it.call(D, [], {"ps": ["/a"], "ips": [], "ss": ["x"], "us": [1], "_generated": a.attrs["_generated"]})
        it.call(it.getattr_(b.attrs["ps"], "append"), ["/b"], {})
        it.call(it.getattr_(b.attrs["ips"], "extend"), [["1.2.3.4", "::1"]], {})
        it.call(it.getattr_(b.attrs["ss"], "append"), ["y"], {})
        it.call(it.getattr_(b.attrs["us"], "append"), [2], {})
        return it.compare("Eq", a, b), it.compare("Eq", b, a), it.hash_(a), it.hash_(b)

    pack.add(Obligation("C12.eq.list[filled in place with raw values]", lambda tier: prove_paths("C12.eq.list[filled in place with raw values]", with_clean_config(th_inplace),
                        lambda p: (z3.And(tb(p.value[0]), tb(p.value[1]), hterm(p.value[2]) == hterm(p.value[3])), f"two records whose list fields hold the same values (one filled by append / extend): == {p.value[0]!r} / {p.value[1]!r}, hashes equal: {p.value[2]!r} vs {p.value[3]!r}"), lambda m_, p: {}),
                        replay=lambda w: {"call": "c12_laws", "args": {"kind": "inplace"}}, functions=FU, mode="representative list element types (path, address, text, integer)"))

    # ---- nested records that differ only in a field configured to be ignored: the holders are equal AND hash alike
    def th_nested_ignored():
        I = it.call(RD, ["c12/inner", [("string", "s")]], {})
        O = it.call(RD, ["c12/outer", [("record", "r"), ("record[]", "rs")]], {})
        T1, T2 = _dt.datetime(2020, 1, 1, tzinfo=_dt.timezone.utc), _dt.datetime(2021, 1, 1, tzinfo=_dt.timezone.utc)
        a = it.call(O, [], {"r": it.call(I, [], {"s": "x", "_generated": T1, "_source": "one"}), "rs": [it.call(I, [], {"s": "y", "_generated": T1})], "_generated": T1})
        b = it.call(O, [], {"r": it.call(I, [], {"s": "x", "_generated": T2, "_source": "two"}), "rs": [it.call(I, [], {"s": "y", "_generated": T2})], "_generated": T2})
        set_ignore(["_generated", "_source"])
        return it.compare("Eq", a, b), it.compare("Eq", b, a), it.hash_(a), it.hash_(b)

    pack.add(Obligation("C12.hash[nested records that differ in ignored fields only]", lambda tier: prove_paths("C12.hash[nested records that differ in ignored fields only]", with_clean_config(th_nested_ignored),
                        lambda p: (z3.And(tb(p.value[0]), tb(p.value[1]), hterm(p.value[2]) == hterm(p.value[3])), f"holders of nested records that differ only in ignored fields: == {p.value[0]!r} / {p.value[1]!r}; hashes {p.value[2]!r} vs {p.value[3]!r}"), lambda m_, p: {}),
                        replay=lambda w: {"call": "c12_laws", "args": {"kind": "nested_ignored"}}, functions=FU, mode="record and record[] fields under the configuration {_generated, _source}"))

    # ---- a grouped record whose member changes after it was hashed: equal records still have equal hashes
    def th_grouped_mutation():
        A = it.call(RD, ["c12/ga", [("varint", "n")]], {})
        B = it.call(RD, ["c12/gb", [("string", "s")]], {})
        a1 = it.call(A, [], {"n": SInt(n1)})
        c1 = it.call(B, [], {"s": "c"})
        g1 = it.call(GR, ["grp", [a1, c1]], {})
        h_before = it.hash_(g1)
        it.setattr_(a1, "n", SInt(n2))  # the member is changed directly, not through the grouped record
        a2 = it.call(A, [], {"n": SInt(n2), "_generated": a1.attrs["_generated"]})
        g2 = it.call(GR, ["grp", [a2, it.call(B, [], {"s": "c", "_generated": c1.attrs["_generated"]})]], {})
        eq = it.compare("Eq", g1, g2)
        h1, h2 = it.hash_(g1), it.hash_(g2)
        set_ignore(["n"])
        eq_ign = it.compare("Eq", g1, it.call(GR, ["grp", [it.call(A, [], {"n": SInt(n3), "_generated": a1.attrs["_generated"]}), it.call(B, [], {"s": "c", "_generated": c1.attrs["_generated"]})]], {}))
        h1i = it.hash_(g1)
        g3 = it.call(GR, ["grp", [it.call(A, [], {"n": SInt(n3), "_generated": a1.attrs["_generated"]}), it.call(B, [], {"s": "c", "_generated": c1.attrs["_generated"]})]], {})
        h3i = it.hash_(g3)
        return eq, h1, h2, eq_ign, h1i, h3i

    ob("C12.grouped[member changed after hashing, ignore scope changed after hashing]", th_grouped_mutation,
       lambda p: (z3.And(tb(p.value[0]), hterm(p.value[1]) == hterm(p.value[2]), tb(p.value[3]), hterm(p.value[4]) == hterm(p.value[5])), "equal grouped records with different hashes after a member / the ignore configuration changed (a stale cached hash)"), "grouped_mutation")

    def th_grouped_ignore():
        A = it.call(RD, ["c12/ga", [("varint", "n"), ("string", "s")]], {})
        a1 = it.call(A, [], {"n": SInt(n1), "s": SStr(s1)})
        a2 = it.call(A, [], {"n": SInt(n2), "s": SStr(s2)})
        set_ignore(["s", "_generated"])
        g1, g2 = it.call(GR, ["grp", [a1]], {}), it.call(GR, ["grp", [a2]], {})
        return it.compare("Eq", g1, g2), it.hash_(g1), it.hash_(g2)

    ob("C12.grouped.ignore", th_grouped_ignore, lambda p: (z3.And(tb(p.value[0]) == (n1 == n2), z3.Implies(n1 == n2, hterm(p.value[1]) == hterm(p.value[2]))), f"grouped with s ignored: {p.value[0]!r}"), "grouped_ignore")

    # ---- per field type: ==, != and hash() are defined, reflexive, agree for equal values, differ for a different value
    for t, (v, same, other) in ONE.items():
        name = f"C12.type[{t}]"

        def th(t=t, v=v, same=same, other=other):
            D = it.call(RD, ["c12/one", [(t, "x")]], {})
            a = it.call(D, [], {"x": v})
            b = it.call(D, [], {"x": same, "_generated": a.attrs["_generated"]})
            c = it.call(D, [], {"x": other, "_generated": a.attrs["_generated"]})
            u = it.call(D, [], {"_generated": a.attrs["_generated"]})
            return [it.truth(it.compare("Eq", a, a)), it.truth(it.compare("Eq", a, b)), it.truth(it.compare("Eq", b, a)), it.truth(it.compare("NotEq", a, b)), it.truth(it.compare("Eq", a, c)), it.truth(it.compare("Eq", u, u)), it.truth(it.compare("Eq", a, u)),
                    it.hash_(a), it.hash_(b), it.hash_(c), it.hash_(u)]

        def judge(p):
            r = p.value
            ok = r[0] is True and r[1] is True and r[2] is True and r[3] is False and r[4] is False and r[5] is True and r[6] is False
            return (z3.And(z3.BoolVal(ok), hterm(r[7]) == hterm(r[8])), f"laws [a==a, a==b, b==a, a!=b, a==c, unset==unset, a==unset] = {r[:7]}; hash(a)==hash(b) needed")

        pack.add(Obligation(name, lambda tier, name=name, th=th, judge=judge: prove_paths(name, with_clean_config(th), judge, lambda m, p: {}), replay=lambda w, t=t: {"call": "c12_type", "args": {"ftype": t}}, functions=FU + (f"flow.record.fieldtypes:{t}",)))
    pack.case_analyses.append(f"field types {sorted(ONE)}: finite case analysis with representative structured values (scalar and list forms)")

    # ---- a record holding a NaN equals itself (tuple comparison uses identity first, so _pack() must hand out the stored object)
    def th_nan():
        D = it.call(RD, ["c12/nan", [("float", "f"), ("float[]", "fl")]], {})
        a = it.call(D, [], {"f": float("nan"), "fl": [float("nan")]})
        g = it.call(GR, ["grp", [a]], {})
        return it.truth(it.compare("Eq", a, a)), it.truth(it.compare("NotEq", a, a)), it.truth(it.compare("Eq", g, g)), it.hash_(a), it.hash_(a)

    pack.add(Obligation("C12.eq.refl[nan]", lambda tier: prove_paths("C12.eq.refl[nan]", with_clean_config(th_nan), lambda p: (p.value[0] is True and p.value[1] is False and p.value[2] is True, f"record with NaN: a == a {p.value[0]}, a != a {p.value[1]}, grouped {p.value[2]}"), lambda m, p: {}),
                        replay=lambda w: {"call": "c12_nan", "args": {}}, functions=FU))

    # ---- scoped override of the ignored-fields configuration
    def scope_ob(name, prior, body_raises, nested):
        def th():
            set_ignore(prior)
            before = base.g["IGNORE_FIELDS_FOR_COMPARISON"]
            before_val = set(before)
            inside, inner_after, raised = None, None, False
            cm = it.call(base.g["ignore_fields_for_comparison"], [["n"]], {})
            cm.__enter__()
            try:
                inside = set(base.g["IGNORE_FIELDS_FOR_COMPARISON"])
                if nested:
                    cm2 = it.call(base.g["ignore_fields_for_comparison"], [["s", "q"]], {})
                    cm2.__enter__()
                    cm2.__exit__(None, None, None)
                    inner_after = set(base.g["IGNORE_FIELDS_FOR_COMPARISON"])
                if body_raises:
                    raise PyRaise({True: ValueError, "KeyboardInterrupt": KeyboardInterrupt, "GeneratorExit": GeneratorExit, "SystemExit": SystemExit}[body_raises]("body fails"))
            except PyRaise as e:
                raised = True
                try:
                    cm.__exit__(type(e.exc), e.exc, None)
                except PyRaise:
                    pass  # (the exception leaves the with-statement)
            else:
                cm.__exit__(None, None, None)
            return before_val, inside, inner_after, set(base.g["IGNORE_FIELDS_FOR_COMPARISON"]), raised

        def judge(p):
            before_val, inside, inner_after, after, raised = p.value
            ok = after == before_val and inside == {"n"} and (inner_after == {"n"} if nested else True) and raised == bool(body_raises)
            return ok, f"configuration before {sorted(before_val)}, inside the scope {sorted(inside or [])}, after the inner scope {sorted(inner_after) if inner_after is not None else '-'}, after the scope {sorted(after)}"

        pack.add(Obligation(name, lambda tier: prove_paths(name, with_clean_config(th), judge, lambda m, p: {}), replay=lambda w: {"call": "c12_scope", "args": {"prior": list(prior), "body_raises": body_raises, "nested": nested}}, functions=FU[-3:-1]))

    for prior in ((), ("x",), ("x", "n")):
        for body_raises in (False, True, "KeyboardInterrupt", "GeneratorExit", "SystemExit"):
            for nested in (False, True):
                if isinstance(body_raises, str) and (nested or prior == ("x", "n")):
                    continue
                scope_ob(f"C12.scope[prior={list(prior)},raises={body_raises},nested={nested}]", prior, body_raises, nested)

    # ---- timestamps that denote one instant with different UTC offsets are equal as values: records holding them are equal and hash alike (plain, list, nested, grouped, _generated)
    import datetime as _dtm

    INSTANT = [_dtm.datetime(2020, 1, 1, 12, 0, 5, tzinfo=_dtm.timezone.utc), _dtm.datetime(2020, 1, 1, 13, 0, 5, tzinfo=_dtm.timezone(_dtm.timedelta(hours=1))), _dtm.datetime(2020, 1, 1, 6, 30, 5, tzinfo=_dtm.timezone(_dtm.timedelta(hours=-5, minutes=-30)))]
    for shape in ("plain", "list", "nested", "grouped", "_generated"):
        name = f"C12.hash[one instant at UTC and at other offsets, {shape}]"

        def th_inst(shape=shape):
            T = it.call(RD, ["c12/ts", [("datetime", "ts"), ("datetime[]", "tl"), ("varint", "k")]], {})
            N = it.call(RD, ["c12/tsn", [("record", "r")]], {})
            recs = []
            for d in INSTANT:
                if shape == "plain":
                    r = it.call(T, [], {"ts": d, "tl": [], "k": 1, "_generated": INSTANT[0]})
                elif shape == "list":
                    r = it.call(T, [], {"ts": None, "tl": [d, INSTANT[0]], "k": 1, "_generated": INSTANT[0]})
                elif shape == "_generated":
                    r = it.call(T, [], {"ts": None, "tl": [], "k": 1, "_generated": d})
                elif shape == "nested":
                    r = it.call(N, [], {"r": it.call(T, [], {"ts": d, "tl": [], "k": 1, "_generated": INSTANT[0]}), "_generated": INSTANT[0]})
                else:
                    r = it.call(base.g["GroupedRecord"], ["c12/g", [it.call(T, [], {"ts": d, "tl": [], "k": 1, "_generated": INSTANT[0]})]], {})
                recs.append(r)
            eqs = [it.truth(it.compare("Eq", recs[0], r)) for r in recs[1:]]
            hs = [hterm(it.hash_(r)) for r in recs]
            return eqs, hs

        def judge_inst(p):
            eqs, hs = p.value
            if not all(e is True for e in eqs):
                return False, f"records holding the same instant at different offsets are not equal: {eqs}"
            same = [h == hs[0] for h in hs[1:]]
            if all(isinstance(x, bool) for x in same):
                return all(same), f"equal records hash differently: {hs!r:.200}"
            return z3.And(*[x if not isinstance(x, bool) else z3.BoolVal(x) for x in same]), "equal records hash differently"

        pack.add(Obligation(name, lambda tier, name=name, th_inst=th_inst, judge_inst=judge_inst: prove_paths(name, with_clean_config(th_inst), judge_inst, lambda m, p: {}), replay=lambda w, shape=shape: {"call": "c12_one_instant", "args": {"shape": shape}}, functions=FU))

    # ---- a configuration that names only reserved (metadata) fields, or also names no record has, applies to grouped records like to plain ones
    for cfg in (["_generated"], ["_generated", "_source"], ["_generated", "no_such_field"]):
        name = f"C12.grouped[ignored fields {cfg}: members that differ only there]"

        def th_gcfg(cfg=cfg):
            T = it.call(RD, ["c12/gm", [("varint", "k"), ("string", "s")]], {})
            g1 = it.call(base.g["GroupedRecord"], ["c12/g", [it.call(T, [], {"k": 1, "s": "x", "_generated": INSTANT[0], "_source": "a"})]], {})
            g2 = it.call(base.g["GroupedRecord"], ["c12/g", [it.call(T, [], {"k": 1, "s": "x", "_generated": INSTANT[0] + _dtm.timedelta(seconds=5), "_source": "a"})]], {})
            p1 = it.call(T, [], {"k": 1, "s": "x", "_generated": INSTANT[0], "_source": "a"})
            p2 = it.call(T, [], {"k": 1, "s": "x", "_generated": INSTANT[0] + _dtm.timedelta(seconds=5), "_source": "a"})
            set_ignore(cfg)
            return it.truth(it.compare("Eq", g1, g2)), it.truth(it.compare("NotEq", g1, g2)), hterm(it.hash_(g1)) == hterm(it.hash_(g2)), it.truth(it.compare("Eq", p1, p2))

        pack.add(Obligation(name, lambda tier, name=name, th_gcfg=th_gcfg, cfg=cfg: prove_paths(name, with_clean_config(th_gcfg), lambda p: (p.value[0] is True and p.value[1] is False and p.value[3] is True and (p.value[2] if isinstance(p.value[2], bool) else True), f"grouped records that differ only in _generated under the ignored fields {cfg}: == {p.value[0]}, != {p.value[1]}, equal hashes {p.value[2]} (plain records: == {p.value[3]})"), lambda m, p: {}),
                            replay=lambda w, cfg=cfg: {"call": "c12_grouped_cfg", "args": {"cfg": cfg}}, functions=FU))

    # ---- dictionaries are equal whatever order they were filled in - also when two keys of different kinds have the same text (1 and "1"): equal records hash alike
    for keys in ((1, "1"), (None, "None"), (True, "True")):
        name = f"C12.hash[dictlist dictionary with the keys {keys[0]!r} and {keys[1]!r}, filled in two orders]"

        def th_dk(keys=keys):
            DL = it.call(RD, ["c12/dl", [("dictlist", "dl"), ("varint", "k")]], {})
            N = it.call(RD, ["c12/dln", [("record", "r")]], {})
            d1 = {keys[0]: "a", keys[1]: "b", "z": 1}
            d2 = {"z": 1, keys[1]: "b", keys[0]: "a"}
            a = it.call(DL, [], {"dl": [d1], "k": 1, "_generated": INSTANT[0]})
            b = it.call(DL, [], {"dl": [d2], "k": 1, "_generated": INSTANT[0]})
            na, nb = it.call(N, [], {"r": a, "_generated": INSTANT[0]}), it.call(N, [], {"r": b, "_generated": INSTANT[0]})
            return it.truth(it.compare("Eq", a, b)), hterm(it.hash_(a)) == hterm(it.hash_(b)), it.truth(it.compare("Eq", na, nb)), hterm(it.hash_(na)) == hterm(it.hash_(nb))

        def judge_dk(p):
            eq, he, neq, nhe = p.value
            if eq is not True or neq is not True:
                return False, f"records whose dictionaries were filled in another order are not equal: {eq}, nested {neq}"
            if isinstance(he, bool) and isinstance(nhe, bool):
                return he and nhe, f"equal records hash differently (plain {he}, nested {nhe})"
            return z3.And(he if not isinstance(he, bool) else z3.BoolVal(he), nhe if not isinstance(nhe, bool) else z3.BoolVal(nhe)), "equal records hash differently"

        pack.add(Obligation(name, lambda tier, name=name, th_dk=th_dk, judge_dk=judge_dk: prove_paths(name, with_clean_config(th_dk), judge_dk, lambda m, p: {}), replay=lambda w, keys=keys: {"call": "c12_dict_keys", "args": {"k0": repr(keys[0]), "k1": repr(keys[1])}}, functions=FU))

    # ---- the configuration may be given as ANY iterable of names (the setter's signature says Iterable): also one that can be walked only once
    KINDS = {"list": lambda: ["n", "q"], "tuple": lambda: ("n", "q"), "set": lambda: {"n", "q"}, "frozenset": lambda: frozenset({"n", "q"}), "dict keys": lambda: {"n": 1, "q": 2}.keys(), "generator expression": lambda: (x_ for x_ in ["n", "q"]),
             "iterator": lambda: iter(["n", "q"]), "map object": lambda: map(str, ["n", "q"]), "filter object": lambda: filter(None, ["n", "", "q"])}
    for kind, mkcfg in KINDS.items():
        for via in ("setter", "scope"):
            name = f"C12.config[given as a {kind}, through the {via}]"

            def th(mkcfg=mkcfg, via=via):
                a, b = pair()
                cm = None
                if via == "setter":
                    it.call(base.g["set_ignored_fields_for_comparison"], [mkcfg()], {})
                else:
                    cm = it.call(base.g["ignore_fields_for_comparison"], [mkcfg()], {})
                    cm.__enter__()
                try:
                    cfg = set(base.g["IGNORE_FIELDS_FOR_COMPARISON"])
                    it.assume(s1 == s2)
                    it.assume(n1 != n2)  # the two records differ in the ignored field only
                    eq, ne = it.truth(it.compare("Eq", a, b)), it.truth(it.compare("NotEq", a, b))
                    ha, hb = it.hash_(a), it.hash_(b)
                finally:
                    if cm is not None:
                        cm.__exit__(None, None, None)
                return cfg, eq, ne, hterm(ha), hterm(hb)

            def judge(p, kind=kind):
                cfg, eq, ne, ha, hb = p.value
                if cfg != {"n", "q"} or eq is not True or ne is not False:
                    return False, f"ignored fields given as a {kind}: the configuration is {sorted(cfg)}; records differing only in an ignored field: == {eq}, != {ne}"
                return ha == hb, "records that are equal under the configuration hash differently"

            pack.add(Obligation(name, lambda tier, name=name, th=th, judge=judge: prove_paths(name, with_clean_config(th), judge, lambda m, p: {}), replay=lambda w, kind=kind, via=via: {"call": "c12_config_kind", "args": {"kind": kind, "via": via}}, functions=FU[-3:-1]))

    # ---- canary, conformance, bounded
    pack.add(Obligation("C12.canary", lambda tier: prove_paths("C12.canary", with_clean_config(lambda: it.compare("Eq", *pair())), lambda p: tb(p.value) == (n1 == n2), wit), kind="canary"))

    def run_cross(tier):
        reqs = [{"call": "c12_type", "args": {"ftype": t, "report": True}} for t in ONE]
        native = native_batch(reqs)
        bad = []
        for t, nat in zip(ONE, native):
            v, same, other = ONE[t]

            def th(t=t, v=v, same=same, other=other):
                D = it.call(RD, ["c12/one", [(t, "x")]], {})
                a = it.call(D, [], {"x": v})
                b = it.call(D, [], {"x": same, "_generated": a.attrs["_generated"]})
                c = it.call(D, [], {"x": other, "_generated": a.attrs["_generated"]})
                return [it.truth(it.compare("Eq", a, b)), it.truth(it.compare("Eq", a, c)), it.truth(it.compare("NotEq", a, c))]

            try:
                p = it.explore(with_clean_config(th))[0]
                mine = "raise:" + exc_name(p) if p.kind == "raise" else repr(p.value)
            except Unsupported as e:
                mine = f"unsupported:{e}"
            if mine != nat.get("outcome"):
                bad.append((t, mine, nat.get("outcome")))
        return Result("C12.cross", "proved" if not bad else "refuted", f"{len(bad)} disagreement(s): {bad[:4]}" if bad else "", paths=len(reqs))

    pack.add(Obligation("C12.cross", run_cross, kind="cross"))

    def run_random(tier):
        args = {"seed": seed, "n": 300 if tier == "quick" else 5000}
        res = native_replay({"call": "c12_random_laws", "args": args})
        r = Result("C12.random_laws", "refuted" if res.get("violates") else ("proved" if "error" not in res else "error"), str(res.get("detail") or res.get("error") or "")[:300], paths=res.get("cases", 0))
        r.native, r.confirmed, r.request, r.witness = res, bool(res.get("violates")), {"call": "c12_random_laws", "args": args}, res.get("witness")
        return r

    pack.add(Obligation("C12.random_laws", run_random, kind="bounded", note="native run: generated records of every whitelisted field type (incl. NaN floats, lone surrogates, nested and grouped records, dictlists with permuted keys): "
                        "==/!=/hash never raise, reflexive, symmetric, equal => equal hash, usable as set/dict members; scoped overrides restored; bound: 300 (quick) / 5000 (thorough) record pairs", functions=FU))
    pack.not_covered = ["float NaN payloads and other identity-vs-equality effects of CPython containers are only in the bounded native run", "hash collisions (equal hashes of unequal records are allowed)"]
    pack.assumptions += ["hash() is a function of the value (congruence) and hash(1) == hash(1.0) == hash(True); nothing else is assumed about hash values", "tuple / list equality compares element-wise with the identity shortcut of PyObject_RichCompareBool"]
    return pack

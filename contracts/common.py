"""Shared set-up for contract packs: one interpreter over the current source root, path-judging helpers."""
import os

import z3

from pyvc import solver
from pyvc.errors import PathEnd, PyRaise, Unsupported
from pyvc.interp import Interp
from pyvc.loader import Loader
from pyvc.obligations import REPO, Obligation, Pack, Result, native_batch, native_replay
from pyvc.values import *  # noqa

_ctx = {}


def engine():
    if "it" not in _ctx:
        L = Loader(REPO)
        _ctx["it"] = Interp(L)
        _ctx["L"] = L
    return _ctx["it"], _ctx["L"]


def load_problems():
    it, L = engine()
    return [(n, ln, why) for n, m in L.mods.items() for ln, why in getattr(m, "skipped", [])]


def new_pack(pid, title):
    p = Pack(pid, title)
    p.load_problems = load_problems
    return p


def model_value(m, term):
    if m is None:
        return None
    v = m.eval(term, model_completion=True)
    if z3.is_int_value(v):
        return v.as_long()
    if z3.is_string_value(v):
        return solver.zs(v)
    if z3.is_true(v) or z3.is_false(v):
        return z3.is_true(v)
    return str(v)


def as_goal(v):
    """z3 Bool for 'v is truthy' of a judge's answer (python bool, SBool, z3 Bool)."""
    if isinstance(v, bool):
        return z3.BoolVal(v)
    if isinstance(v, SBool):
        return v.t
    if z3.is_expr(v):
        return v
    raise TypeError(f"judge returned {v!r}")


def exc_name(p):
    e = p.value
    return e.cls.name if isinstance(e, PObj) else type(e).__name__


def exc_text(p):
    e = p.value
    if isinstance(e, PObj):
        return f"{e.cls.name}{e.attrs.get('args', '')}"
    return f"{type(e).__name__}: {e}"


def prove_paths(name, thunk, judge, witness=None, max_paths=4000, allow_raise=(), need_paths=1):
    """Explore `thunk` on the real code; on every feasible path `judge(path)` must be valid under the path condition.

    judge(p) gets a PathResult (kind 'return'/'raise', value, pc, events, writes) and returns a bool / SBool / z3 Bool,
    or a (goal, detail) pair.  Exceptional paths whose class name is not in `allow_raise` are failures unless the judge
    handles them (judge is called for them too when `allow_raise` is None).
    """
    it, _ = engine()
    paths = it.explore(thunk, max_paths=max_paths)
    live = 0
    for p in paths:
        if p.kind == "raise" and allow_raise is not None:
            if exc_name(p) in allow_raise:
                live += 1
                continue
            if not solver.reachable(p.pc):
                continue
            _, m, _ = solver.check(p.pc, want_model=True)
            return Result(name, "refuted", f"raises {exc_text(p)}"[:400], paths=len(paths), witness=witness(m, p) if witness else {})
        j = judge(p)
        detail = ""
        if isinstance(j, tuple):
            j, detail = j
        goal = as_goal(j)
        if z3.is_true(goal):
            live += 1
            continue
        if z3.is_false(goal):
            # the judge rejects this path outright: it is a counterexample unless the path condition is provably contradictory
            if not solver.reachable(p.pc):
                continue
            _, m, _ = solver.check(p.pc, want_model=True)
            if m is None:
                _, m, _ = solver.check(p.pc, want_model=True, use_axioms=False)
            return Result(name, "refuted", (detail or f"postcondition fails on path {p!r}")[:400], paths=len(paths), witness=(witness(m, p) if witness and m is not None else {}))
        st, m, _ = solver.valid(p.pc, goal)
        if st == "proved":
            live += 1
            continue
        if p.kind == "raise" and not solver.reachable(p.pc):
            continue
        return Result(name, "refuted" if st == "refuted" else "undecided", (detail or f"postcondition fails on path {p!r}")[:400], paths=len(paths), witness=(witness(m, p) if witness and m is not None else {}))
    if live < need_paths:
        return Result(name, "undecided", "vacuous: no feasible path reaches the postcondition", paths=len(paths))
    return Result(name, "proved", paths=len(paths))

"""C08 - comparisons on a field the record lacks are false and never raise.

Contracts (all on the real code of flow/record/selector.py, re-read from the source root on every run):

  NoneObject.__eq__/__ne__/__lt__/__gt__/__le__/__ge__/__contains__   ensures result is False
  WrappedRecord.__getattr__(k)            ensures result is NONE_OBJECT when the record has no attribute k
  RecordContextMatcher._eval(Attribute)   ensures result is NONE_OBJECT when the object has no such attribute
  AST_COMPARATORS[In/NotIn], BinOp guard  ensures False when either operand is the sentinel
  field_equals/field_contains/field_regex ensures missing fields are skipped

The property quantifies over both selector engines, all comparison operators, both operand positions and every value
the other operand may take.  Obligation `C08.cmp[engine,op,side,other]` symbolically executes the real
`Selector(expr).match(rec)` / `CompiledSelector(expr).match(rec)` for the expression that compares `r.missing` with an
operand of the given kind whose *content is symbolic* (record fields hold symbolic integers / strings), so one
obligation covers every value of that kind.  The operand kinds and the operators are a finite case analysis (listed in
the evidence); the values are unbounded.
"""
import ast

import z3

from .common import *  # noqa

SYMBOL = {"Eq": "==", "NotEq": "!=", "Lt": "<", "Gt": ">", "LtE": "<=", "GtE": ">=", "In": "in", "NotIn": "not in", "Is": "is", "IsNot": "is not"}
FALSE_OPS = ["Eq", "NotEq", "Lt", "Gt", "LtE", "GtE", "In", "NotIn"]  # the property fixes their value: False
NORAISE_OPS = ["Is", "IsNot"]  # value fixed by Python (identity); only "never raises" is claimed

FIELDS = [("varint", "n"), ("string", "s"), ("bytes", "b"), ("float", "f"), ("boolean", "flag"), ("string", "unset"), ("string[]", "sl"),
          ("net.ipaddress", "ip"), ("net.ipnetwork", "net"), ("uint16", "port"), ("digest", "dg"),
          ("command", "cmd"), ("net.ipv4.Address", "a4"), ("path", "p"), ("datetime", "ts"), ("uri", "u")]

# operand kinds: expression text, is a container (may stand right of `in`), engines that support the expression form
OTHERS = {
    "int_field": ("r.n", False, "both"),
    "int_const": ("5", False, "both"),
    "str_field": ("r.s", True, "both"),
    "str_const": ("'abc'", True, "both"),
    "bytes_field": ("r.b", True, "both"),
    "bytes_const": ("b'ab'", True, "both"),
    "float_field": ("r.f", False, "both"),
    "bool_field": ("r.flag", False, "both"),
    "bool_const": ("True", False, "both"),
    "none_field": ("r.unset", False, "both"),
    "none_const": ("None", False, "both"),
    "list": ("[r.n, 'x']", True, "both"),
    "list_field": ("r.sl", True, "both"),
    "tuple": ("(r.n, 'x')", True, "both"),
    "set": ("{1, 2}", True, "compiled"),  # ast.Set / ast.Dict are outside the interpreted engine's language (rejected: C07)
    "dict": ("{'a': 1}", True, "compiled"),
    "sentinel": ("r.other_missing", True, "both"),
    "uint16_field": ("r.port", False, "both"),
    "ipaddress_field": ("r.ip", False, "both"),
    "ipnetwork_field": ("r.net", True, "both"),
    "digest_field": ("r.dg", False, "both"),
    "typematcher": ("Type.string", True, "both"),
    "command_field": ("r.cmd", False, "both"),
    "ipv4_address_field": ("r.a4", False, "both"),
    "path_field": ("r.p", False, "both"),
    "datetime_field": ("r.ts", False, "both"),
    "uri_field": ("r.u", True, "both"),
}
ENGINES = {"interp": "Selector", "compiled": "CompiledSelector"}


def build(tier="quick", seed=0):
    it, L = engine()
    sel = L.import_module("flow.record.selector")
    base = L.import_module("flow.record.base")
    pack = new_pack("C08", "Comparisons on a field the record lacks are false and never raise")
    fu = ("flow.record.selector:NoneObject.__eq__", "flow.record.selector:NoneObject.__ne__", "flow.record.selector:NoneObject.__lt__", "flow.record.selector:NoneObject.__gt__",
          "flow.record.selector:NoneObject.__le__", "flow.record.selector:NoneObject.__ge__", "flow.record.selector:NoneObject.__contains__", "flow.record.selector:NoneObject.__len__",
          "flow.record.selector:WrappedRecord.__getattr__", "flow.record.selector:CompiledSelector.match", "flow.record.selector:Selector.match",
          "flow.record.selector:RecordContextMatcher.matches", "flow.record.selector:RecordContextMatcher.eval", "flow.record.selector:RecordContextMatcher._eval",
          "flow.record.selector:AST_COMPARATORS", "flow.record.selector:TypeMatcher.__getattr__", "flow.record.selector:TypeMatcherInstance._op")
    RD = base.g["RecordDescriptor"]
    n, sv = z3.Int("n"), z3.String("s")

    CONCRETE = {"n": 7, "s": "q", "b": b"ab", "f": 1.5, "flag": True, "sl": ["a", "b"], "ip": "1.2.3.4", "net": "10.0.0.0/8", "port": 80, "cmd": "ls -l /tmp", "a4": "1.2.3.4", "p": "/a/b", "ts": 0, "u": "http://x/y"}

    def mkrec():
        D = it.call(RD, ["c08/rec", list(FIELDS)], {})
        return it.call(D, [], {"n": SInt(n), "s": SStr(sv), "b": b"ab", "f": 1.5, "flag": True, "sl": ["a", "b"], "ip": "1.2.3.4", "net": "10.0.0.0/8", "port": 80, "cmd": "ls -l /tmp", "a4": "1.2.3.4", "p": "/a/b", "ts": 0, "u": "http://x/y"})

    def run_selector(engine_cls, expr):
        rec = mkrec()
        s = it.call(sel.g[engine_cls], [expr], {})
        return it.call(it.getattr_(s, "match"), [rec], {})

    def witness_of(expr, eng):
        def w(m, p):
            return {"expr": expr, "engine": eng, "n": model_value(m, n) if m is not None else 0, "s": model_value(m, sv) if m is not None else ""}

        return w

    def falsy(v):
        if isinstance(v, bool):
            return not v
        if isinstance(v, SBool):
            return z3.Not(v.t)
        if isinstance(v, Opaque):
            return z3.Not(py_truth(v.t))
        return not it.truth(v)

    def replay_req(want_false):
        return lambda w: {"call": "c08_select", "args": {"expr": w["expr"], "engine": w["engine"], "n": w.get("n") or 0, "s": w.get("s") or "", "want_false": want_false}}

    # ---- comparisons in both engines
    for eng, cls in ENGINES.items():
        for op in FALSE_OPS + NORAISE_OPS:
            for kind, (text, is_container, engines) in OTHERS.items():
                if engines != "both" and engines != eng:
                    continue
                for side in ("left", "right"):
                    if op in ("In", "NotIn") and side == "left" and not is_container:
                        continue  # `x in 5` is a TypeError for every x, missing or not
                    expr = f"r.missing {SYMBOL[op]} {text}" if side == "left" else f"{text} {SYMBOL[op]} r.missing"
                    want_false = op in FALSE_OPS
                    name = f"C08.cmp[{eng},{op},{side},{kind}]"

                    def run(tier, expr=expr, cls=cls, want_false=want_false, name=name, eng=eng):
                        return prove_paths(name, lambda: run_selector(cls, expr), (lambda p: (falsy(p.value), f"{expr!r} is not False: {p.value!r}")) if want_false else (lambda p: True), witness_of(expr, eng))

                    pack.add(Obligation(name, run, replay=replay_req(want_false), functions=fu))
    pack.case_analyses.append(f"operators {FALSE_OPS + NORAISE_OPS} x operand position x {len(OTHERS)} operand kinds {sorted(OTHERS)} x 2 engines: finite case analysis; integer and string contents symbolic")

    # ---- the sentinel under arithmetic / boolean context (interpreted engine has an explicit guard; compiled: Python itself)
    for expr, want in [("r.missing + r.n", "false"), ("r.n + r.missing", "false"), ("r.missing * 2", "false"), ("r.missing % 2", "false"), ("r.missing & r.n", "false"), ("r.n | r.missing", "false"),
                       ("r.missing / 2", "false"), ("not r.missing", "true"), ("r.missing and r.n == 1", "false"), ("r.missing == 1 or r.n == 1", "n==1"), ("not (r.missing == r.n)", "true"),
                       ("r.missing == 1 or r.s == 'x' or r.other_missing < 3", "s=='x'"), ("(r.missing < r.n) and (r.n < 5)", "false")]:
        name = f"C08.ctx[interp,{expr}]"

        def run(tier, expr=expr, want=want, name=name):
            def judge(p):
                t = p.value
                tv = t.t if isinstance(t, SBool) else z3.BoolVal(bool(t)) if isinstance(t, bool) else py_truth(t.t) if isinstance(t, Opaque) else z3.BoolVal(it.truth(t))
                spec = {"false": z3.BoolVal(False), "true": z3.BoolVal(True), "n==1": n == 1, "s=='x'": sv == z3.StringVal("x")}[want]
                return tv == spec, f"{expr!r} evaluates to {t!r}, expected {want}"

            return prove_paths(name, lambda: run_selector("Selector", expr), judge, witness_of(expr, "interp"))

        pack.add(Obligation(name, run, replay=lambda w, want=want: {"call": "c08_ctx", "args": {"expr": w["expr"], "n": w.get("n") or 0, "s": w.get("s") or "", "want": want}}, functions=fu))

    # ---- WrappedRecord / Attribute branch hand out the sentinel itself (identity), existing fields untouched
    def run_wrap(tier):
        def th():
            rec = mkrec()
            w = it.instantiate(sel.g["WrappedRecord"], [rec], {})
            return it.getattr_(w, "missing"), it.getattr_(w, "n"), rec

        return prove_paths("C08.wrap", th, lambda p: p.value[0] is sel.g["NONE_OBJECT"] and p.value[1] is p.value[2].attrs["n"])

    pack.add(Obligation("C08.wrap", run_wrap, functions=fu))

    # ---- helper functions skip missing fields (both the raw record and the wrapped record of the compiled engine)
    x = z3.String("x")
    for helper, extra in (("field_equals", {}), ("field_equals", {"nocase": False}), ("field_contains", {}), ("field_contains", {"nocase": False})):
        for wrapped in (False, True):
            name = f"C08.helper[{helper}{',case' if extra else ''},{'wrapped' if wrapped else 'record'}]"

            def run(tier, helper=helper, extra=extra, wrapped=wrapped, name=name):
                def th():
                    rec = mkrec()
                    r = it.instantiate(sel.g["WrappedRecord"], [rec], {}) if wrapped else rec
                    f = sel.g[helper]
                    only_missing = it.call(f, [r, ["missing", "missing2"], [SStr(x)]], dict(extra))
                    with_missing = it.call(f, [r, ["missing", "s", "missing2"], ["abc"]], dict(extra))
                    without = it.call(f, [r, ["s"], ["abc"]], dict(extra))
                    return only_missing, with_missing, without

                def judge(p):
                    a, b, c = p.value
                    tb = lambda v: v.t if isinstance(v, SBool) else z3.BoolVal(bool(v))
                    return z3.And(z3.Not(tb(a)), tb(b) == tb(c)), f"{helper}: only-missing={a!r}, with={b!r}, without={c!r}"

                return prove_paths(name, th, judge, lambda m, p: {"helper": helper, "extra": extra, "wrapped": wrapped, "s": model_value(m, sv), "x": model_value(m, x)})

            pack.add(Obligation(name, run, replay=lambda w: {"call": "c08_helper", "args": w}, functions=fu + (f"flow.record.selector:{helper}",)))

    for wrapped in (False, True):
        name = f"C08.helper[field_regex,{'wrapped' if wrapped else 'record'}]"

        def run(tier, wrapped=wrapped, name=name):
            def th():
                rec = mkrec()
                r = it.instantiate(sel.g["WrappedRecord"], [rec], {}) if wrapped else rec
                f = sel.g["field_regex"]
                return it.call(f, [r, ["missing", "missing2"], "a.c"], {}), it.call(f, [r, ["missing", "s", "missing2"], "^a[bc]+$"], {}), it.call(f, [r, ["s"], "^a[bc]+$"], {})

            def judge(p):
                a, b, c = p.value
                tb = lambda v: v.t if isinstance(v, SBool) else z3.BoolVal(bool(v))
                return z3.And(z3.Not(tb(a)), tb(b) == tb(c)), f"field_regex: only-missing={a!r}, with={b!r}, without={c!r}"

            return prove_paths(name, th, judge, lambda m, p: {"wrapped": wrapped, "s": model_value(m, sv) if m is not None else "abc"})

        pack.add(Obligation(name, run, replay=lambda w: {"call": "c08_helper_regex", "args": w}, functions=fu + ("flow.record.selector:field_regex",)))

    # ---- canary: a deliberately false claim on the same machinery must be refuted and must replay
    def run_canary(tier):
        return prove_paths("C08.canary", lambda: run_selector("Selector", "r.n <= 5"), lambda p: falsy(p.value), witness_of("r.n <= 5", "interp"))

    # a stream that mixes record types, also two generations of ONE type name: a field missing from an earlier record says nothing about later records
    for eng in ("Selector", "CompiledSelector"):
        for expr in ("r.pid == 5", "r.pid >= 5", "r.pid in (5, 6)", "r.pid != 7 and r.nm == 'x'"):
            name = f"C08.mixed[{eng}, {expr}, same-name generations]"

            def run(tier, eng=eng, expr=expr, name=name):
                def th():
                    Old = it.call(RD, ["c08/event", [("string", "nm")]], {})
                    New = it.call(RD, ["c08/event", [("string", "nm"), ("varint", "pid")]], {})
                    Other = it.call(RD, ["c08/other", [("varint", "pid")]], {})
                    recs = [it.call(Old, [], {"nm": "x"}), it.call(New, [], {"nm": "x", "pid": 5}), it.call(Old, [], {"nm": "x"}), it.call(Other, [], {"pid": 5}), it.call(New, [], {"nm": "x", "pid": 5})]
                    s = it.call(sel.g[eng], [expr], {})
                    out = []
                    for r in recs:
                        try:
                            out.append(bool(it.truth(it.call(it.getattr_(s, "match"), [r], {}))))
                        except PyRaise as e:
                            out.append("raise " + e.cls_name)
                    return out

                want = [False, True, False, ("nm" not in expr), True]
                return prove_paths(name, th, lambda p: (p.value == want, f"{expr!r} over old / new / old / other / new records: {p.value}, expected {want}"), lambda m, p: {"expr": expr, "engine": eng})

            pack.add(Obligation(name, run, replay=lambda w: {"call": "c08_mixed", "args": {"expr": w.get("expr"), "engine": w.get("engine")}}, functions=fu, mode="one selector object over a concrete mixed sequence"))

    # the stated consequence, through the stream reader: a selector handed to the reader keeps exactly the records the condition is true for - a comparison on
    # a missing field is false, so under `not` / in an `or` with a negation the records WITHOUT the field are kept
    MISSING = object()
    READER_CASES = {
        "r.pid == 5": lambda f: f.get("pid", MISSING) == 5,
        "not (r.pid == 5)": lambda f: not (f.get("pid", MISSING) == 5),
        "not (r.pid >= 5)": lambda f: not ("pid" in f and f["pid"] >= 5),
        "r.nm == 'y' or not (r.pid == 5)": lambda f: f.get("nm") == "y" or not (f.get("pid", MISSING) == 5),
        "not (r.pid in (5, 6)) and not (r.nm == 'y')": lambda f: not (f.get("pid", MISSING) in (5, 6)) and not (f.get("nm", MISSING) == "y"),
        "not has_field(r, 'pid')": lambda f: "pid" not in f,
    }
    for eng in ("Selector", "CompiledSelector"):
        for expr, ref in READER_CASES.items():
            name = f"C08.reader[{eng}, {expr}]"

            def run(tier, eng=eng, expr=expr, ref=ref, name=name):
                from pyvc.models.files import AbsFile

                rows = [("c08/event", {"nm": "x"}), ("c08/event2", {"nm": "x", "pid": 5}), ("c08/other", {"pid": 7}), ("c08/event", {"nm": "y"}), ("c08/note", {"text": "t"}), ("c08/event2", {"nm": "y", "pid": 6})]

                def th():
                    st_ = it.loader.import_module("flow.record.stream")
                    types = {"c08/event": [("string", "nm")], "c08/event2": [("string", "nm"), ("varint", "pid")], "c08/other": [("varint", "pid")], "c08/note": [("string", "text")]}
                    fp = AbsFile(it, mode="wb")
                    w = it.call(st_.g["RecordStreamWriter"], [fp], {})
                    for tname, f in rows:
                        it.call(it.getattr_(w, "write"), [it.call(it.call(RD, [tname, types[tname]], {}), [], dict(f))], {})
                    it.call(it.getattr_(w, "flush"), [], {})
                    rd = it.call(st_.g["RecordStreamReader"], [AbsFile(it, fp.content())], {"selector": it.call(sel.g[eng], [expr], {})})
                    out = []
                    for o in it.iterate(rd):
                        out.append((it.getattr_(it.getattr_(o, "_desc"), "name"), {k: it.unbase(v) for k, v in o.attrs.items() if not k.startswith("_")}))
                    return out

                want = [(t, f) for t, f in rows if ref(f)]
                return prove_paths(name, th, lambda p: (p.value == want, f"RecordStreamReader(selector={expr!r}) over a stream of four record types yields {p.value}, the condition holds for {want}"), lambda m, p: {"expr": expr, "engine": eng})

            pack.add(Obligation(name, run, replay=lambda w: {"call": "c08_reader", "args": {"expr": w.get("expr"), "engine": w.get("engine")}}, functions=fu + ("flow.record.stream:RecordStreamReader.__iter__",), mode="one reader over a concrete stream of four record types"))

    # the other operand is a field that holds a nested RECORD (record / record[] field types)
    for eng in ("Selector", "CompiledSelector"):
        for expr in ("r.sub != r.missing", "r.sub == r.missing", "r.missing != r.sub", "r.sub < r.missing", "r.missing in r.subs", "r.subs != r.missing", "r.sub != r.missing or r.missing == r.sub"):
            name = f"C08.record_operand[{eng}, {expr}]"

            def th(eng=eng, expr=expr):
                A = it.call(RD, ["c08/inner", [("string", "s")]], {})
                B = it.call(RD, ["c08/holder", [("record", "sub"), ("record[]", "subs")]], {})
                b = it.call(B, [], {"sub": it.call(A, [], {"s": "x"}), "subs": [it.call(A, [], {"s": "y"})]})
                return it.call(it.getattr_(it.call(sel.g[eng], [expr], {}), "match"), [b], {})

            pack.add(Obligation(name, lambda tier, name=name, th=th, expr=expr, eng=eng: prove_paths(name, th, lambda p: falsy(p.value), lambda m, p: {"expr": expr, "engine": "interp" if eng == "Selector" else "compiled"}), replay=lambda w: {"call": "c08_record_operand", "args": {"expr": w["expr"], "engine": w["engine"]}}, functions=fu,
                                mode="missing field against a nested record / list of records"))

    # plain JSON lines (no descriptors): a line that lacks a key is a record WITHOUT that field, whatever the lines before it looked like
    JSON_LINES = ['{"id": 1, "user": "root", "port": 22}\n', '{"id": 2}\n', '{"id": 3, "user": "www", "port": 80}\n', '{"id": 4, "port": 443}\n']
    JSON_CASES = {"r.user != 'root'": [3], "r.user == None": [], "r.port >= 80": [3, 4], "not (r.user == 'www')": [1, 2, 4], "r.port < 100 or r.user == 'nobody'": [1, 3], "r.user not in ['root']": None}
    for eng in ("Selector", "CompiledSelector"):
        for expr, want in JSON_CASES.items():
            if want is None:
                continue
            name = f"C08.reader.json[{eng}, {expr}]"

            def th(eng=eng, expr=expr):
                from pyvc.models.files import AbsFile

                jf_ = it.loader.import_module("flow.record.adapter.jsonfile")
                rd = it.call(jf_.g["JsonfileReader"], [AbsFile(it, list(JSON_LINES), mode="r")], {"selector": it.call(sel.g[eng], [expr], {})})
                try:
                    return [it.unbase(o.attrs["id"]) for o in it.iterate(rd)]
                except PyRaise as e:
                    return f"raised {e.cls_name}"

            pack.add(Obligation(name, lambda tier, name=name, th=th, want=want, expr=expr: prove_paths(name, th, lambda p, want=want: (p.value == want, f"plain JSON lines filtered with {expr!r}: ids {p.value}, the lines that have the field and satisfy the condition are {want}")),
                                replay=lambda w, eng=eng, expr=expr, want=want: {"call": "c08_reader_json", "args": {"engine": eng, "expr": expr, "want": want}}, functions=fu + ("flow.record.adapter.jsonfile:JsonfileReader.__iter__",), mode="four plain JSON lines, richer and poorer ones alternating"))

    # the helper functions read the reserved fields like any other field the record has
    for eng in ("Selector", "CompiledSelector"):
        for expr, want in (("field_equals(r, ['_source'], ['src-a'])", True), ("field_contains(r, ['_classification', 'nosuch'], ['secret'])", True), ("field_regex(r, ['_source'], '^src')", True), ("field_equals(r, ['_source'], ['other'])", False)):
            name = f"C08.helper.reserved[{eng}, {expr}]"

            def th(eng=eng, expr=expr):
                D = it.call(RD, ["c08/meta", [("string", "s")]], {})
                rec = it.call(D, [], {"s": "x", "_source": "src-a", "_classification": "top secret"})
                return bool(it.truth(it.call(it.getattr_(it.call(sel.g[eng], [expr], {}), "match"), [rec], {})))

            pack.add(Obligation(name, lambda tier, name=name, th=th, want=want, expr=expr: prove_paths(name, th, lambda p, want=want: (p.value is want, f"{expr!r} on a record with _source='src-a', _classification='top secret': {p.value}, expected {want}")),
                                replay=lambda w, eng=eng, expr=expr, want=want: {"call": "c08_helper_reserved", "args": {"engine": eng, "expr": expr, "want": want}}, functions=fu, mode="the reserved fields through the three helper functions"))

    # an attribute of a field the record lacks (r.ts.year on a record without ts) is an operand like the missing field itself: the comparison is false, no error
    for eng in ("Selector", "CompiledSelector"):
        for expr in ("r.missing.year == 2020", "r.missing.year != 2020", "5 < r.missing.year", "r.missing.a.b >= 1", "r.missing.netloc in ['h', 'k']", "r.missing.year == r.n", "r.n > 0 and r.missing.year == 1", "r.missing.year <= 5 or r.missing.month > 1"):
            name = f"C08.attr[{eng}, {expr}]"
            pack.add(Obligation(name, lambda tier, name=name, eng=eng, expr=expr: prove_paths(name, lambda: run_selector(eng, expr), lambda p: falsy(p.value), witness_of(expr, "interp" if eng == "Selector" else "compiled")), replay=replay_req(True), functions=fu,
                                mode="attribute chains on a missing field x comparison operators x both engines (representative)"))

    # the NAME of the missing field does not matter: also a name that the engine's own wrapper / matcher objects use for their attributes is missing when the record has no such field
    for eng in ("Selector", "CompiledSelector"):
        for fname in ("record", "rec", "data", "expression", "functions", "_record", "matcher", "code", "ns"):
            for expr in (f"r.{fname} != 5", f"r.{fname} == r.{fname}", f"5 < r.{fname}", f"r.{fname} not in [1]"):
                name = f"C08.fieldname[{eng}, {expr}]"
                pack.add(Obligation(name, lambda tier, name=name, eng=eng, expr=expr: prove_paths(name, lambda: run_selector(eng, expr), lambda p: falsy(p.value), witness_of(expr, "interp" if eng == "Selector" else "compiled")), replay=replay_req(True), functions=fu,
                                    mode="field names that coincide with attribute names of the engines' own objects x comparison operators x both engines"))

    # a missing field as a MEMBER of a set or as a key of a dictionary display (compiled engine; the interpreted one has no such displays): the display can be built, the test is false
    for expr in ("5 in {r.missing, 7}", "r.n in {r.missing: 1}", "r.s in {r.missing}", "{r.missing: 1} == {2: 1}"):
        name = f"C08.member[CompiledSelector, {expr}]"
        pack.add(Obligation(name, lambda tier, name=name, expr=expr: prove_paths(name, lambda: run_selector("CompiledSelector", expr), lambda p: falsy(p.value), witness_of(expr, "compiled")), replay=replay_req(True), functions=fu,
                            mode="set / dict displays holding the missing field (representative)"))

    pack.add(Obligation("C08.canary", run_canary, kind="canary"))

    # ---- engine vs CPython: the same expressions evaluated concretely by pyvc and natively by the real code
    samples = [(eng, f"r.missing {SYMBOL[op]} {text}" if side == "left" else f"{text} {SYMBOL[op]} r.missing")
               for eng in ENGINES for op in FALSE_OPS + NORAISE_OPS for kind, (text, cont, engs) in OTHERS.items() for side in ("left", "right")
               if (engs == "both" or engs == eng) and not (op in ("In", "NotIn") and side == "left" and not cont)]
    samples += [(eng, e) for eng in ENGINES for e in ("r.n <= 5", "r.n > 5", "r.s == 'q'", "'q' in r.s", "r.n in [7, 8]", "r.ip == '1.2.3.4'", "'10.1.1.1' in r.net", "r.port >= 80", "r.cmd == 'ls -l /tmp'", "r.p == '/a/b'")]
    CH = 64

    def make_cross(chunk, idx):
        def run_cross(tier):
            reqs, mine = [], []
            for eng, expr in chunk:
                def th(eng=eng, expr=expr):
                    D = it.call(RD, ["c08/rec", list(FIELDS)], {})
                    rec = it.call(D, [], dict(CONCRETE))
                    s = it.call(sel.g[ENGINES[eng]], [expr], {})
                    return it.call(it.getattr_(s, "match"), [rec], {})

                try:
                    p = it.explore(th)[0]
                    mine.append("raise:" + exc_name(p) if p.kind == "raise" else repr(bool(it.truth(p.value))))
                except Unsupported as e:
                    mine.append(f"unsupported:{e}")
                reqs.append({"call": "c08_eval", "args": {"expr": expr, "engine": eng}})
            native = native_batch(reqs)
            bad = [(s, a, b.get("outcome", b)) for s, a, b in zip(chunk, mine, native) if a != b.get("outcome")]
            return Result(f"C08.cross[{idx}]", "proved" if not bad else "refuted", f"{len(bad)} disagreement(s): {bad[:4]}" if bad else "", paths=len(chunk))

        return run_cross

    for i in range(0, len(samples), CH):
        pack.add(Obligation(f"C08.cross[{i // CH}]", make_cross(samples[i:i + CH], i // CH), kind="cross"))

    # ---- bounded stand-in: the stated consequence for mixed streams, through the real reader (sampled, not proved)
    def run_stream(tier):
        res = native_replay({"call": "c08_mixed_stream", "args": {"seed": seed, "records": 40 if tier == "quick" else 400}})
        r = Result("C08.mixed_stream", "refuted" if res.get("violates") else ("proved" if "error" not in res else "error"), str(res.get("detail") or res.get("error") or "")[:300], paths=res.get("cases", 0))
        r.native, r.confirmed, r.request = res, bool(res.get("violates")), {"call": "c08_mixed_stream", "args": {"seed": seed, "records": 40}}
        r.witness = res.get("witness")
        return r

    pack.add(Obligation("C08.mixed_stream", run_stream, kind="bounded", note="native run of RecordReader(selector=...) over a stream mixing two record types for every comparison operator and both engines; bound: 40 (quick) / 400 (thorough) records per case",
                        functions=("flow.record.stream:RecordStreamReader.__iter__", "flow.record.stream:record_stream")))
    pack.not_covered = ["rdump process-level behaviour on mixed streams (C16)", "operand kinds outside the listed case analysis (e.g. user-defined classes reaching a selector through record fields cannot occur: fields only hold field types)",
                        "compiled engine, missing operand LEFT of `in`/`not in` with a str/bytes container: known finding (Python lets str.__contains__ reject the sentinel)"]
    pack.assumptions += ["Python data model for rich comparison / containment dispatch as encoded in pyvc.interp.compare/contains (sampled against CPython by C08.cross on every run)"]
    return pack

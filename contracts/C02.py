"""C02 - written bytes conform to the frozen RecordStream wire format.

The writer's postconditions are tied to the PUBLISHED FORMAT (spec/wire_spec.py, spec/msgpack_spec.py), never to the reader, and the reader's
to the same format, never to the writer - so a symmetric change of both sides fails on both.

  RecordStreamWriter.write/writeheader   first frame == the 19 published header bytes; every frame == BE32(len(body)) ++ body
  RecordPacker.pack(obj)                 == the format's tree for a record / descriptor / UTC, naive and offset timestamp / integer outside [-2^63, 2^64) / grouped record
                                         (symbolic field values; msgpack options use_bin_type=True, unicode_errors='surrogateescape')
  RecordPacker.unpack(format tree)       == the object the tree encodes (same kinds), also for records with extra trailing metadata fields (version kept),
                                         records without a version field, identifiers given as [name, hash] or as a bare name
  RecordDescriptor.identifier            == (name, first four bytes, big endian, of SHA-256(utf8(name ++ concat(fieldname ++ type)))); the hash input is that concatenation for symbolic names
  constants                              ext type 14, sub-types 1/2/0x10/0x11/0x12, magic, reserved field order, record version 1
Byte level: for concrete values the bytes are those the msgpack SPECIFICATION assigns to the tree (spec/msgpack_spec.py); that the msgpack package implements its
specification is an assumption, sampled by C02.cross; a golden corpus written at the pinned revision is a bounded stand-in.
"""
import datetime as _dt

import z3

from pyvc.models.ints import bit_length, to_bytes_big

from .streamlib import *  # noqa

FIELDS = [("varint", "n"), ("string", "s"), ("bytes", "b"), ("datetime", "ts"), ("string[]", "l")]
GEN = _dt.datetime(2023, 4, 5, 6, 7, 8, 999, tzinfo=_dt.timezone.utc)
TS = _dt.datetime(1999, 12, 31, 23, 59, 58, 123456, tzinfo=_dt.timezone.utc)


def build(tier="quick", seed=0):
    it, L, base, pk, st = mods()
    pack = new_pack("C02", "Written bytes conform to the frozen RecordStream wire format")
    RD, GR = base.g["RecordDescriptor"], base.g["GroupedRecord"]
    FU = ("flow.record.packer:RecordPacker.pack_obj", "flow.record.packer:RecordPacker.unpack_obj", "flow.record.packer:RecordPacker.pack", "flow.record.packer:RecordPacker.unpack", "flow.record.packer:RecordPacker.register",
          "flow.record.packer:identifier_to_str", "flow.record.stream:RecordStreamWriter.write", "flow.record.stream:RecordStreamWriter.writeheader", "flow.record.stream:RecordStreamReader.readheader", "flow.record.stream:RecordStreamReader.read",
          "flow.record.base:Record._pack", "flow.record.base:GroupedRecord._pack", "flow.record.base:RecordDescriptor._pack", "flow.record.base:RecordDescriptor._unpack", "flow.record.base:RecordDescriptor.calc_descriptor_hash",
          "flow.record.base:RecordDescriptor.identifier", "flow.record.fieldtypes:datetime.__new__")
    x, sv = z3.Int("x"), z3.String("s")
    INR = z3.And(x >= W.INT_MIN, x <= W.INT_MAX)

    def dt_tree(d):
        u = d.astimezone(_dt.timezone.utc) if d.tzinfo is not None else d
        if d.tzinfo is None or d.utcoffset() == _dt.timedelta(0):
            return W.datetime_utc_tree(blob, d.year, d.month, d.day, d.hour, d.minute, d.second, d.microsecond)
        return W.datetime_iso_tree(blob, d.isoformat())

    def int_value_tree(xt):
        """format tree of the symbolic integer xt on the current path (the harness fixes the range by an assumption)."""
        return ("leaf", SInt(xt))

    def big_tree(xt, for_decoder=False):
        a = z3.If(xt >= 0, xt, -xt)
        if for_decoder:  # a concrete conforming encoding to feed the reader: minimal length
            n = (bit_length(a) + 7) / 8
            return W.bigint_tree(blob, SBool(xt < 0), SBytes(to_bytes_big(a, n), length=n))
        return W.bigint_tree(blob, SBool(xt < 0), BigMag(a))

    def mkrec(D, n, s):
        return it.call(D, [], {"n": n, "s": s, "b": b"\x00\xffbin", "ts": TS, "l": ["a", "b"], "_generated": GEN})

    def rec_values(ntree, s):
        return [ntree, ("leaf", s), ("leaf", b"\x00\xffbin"), dt_tree(TS), W.arr(W.leaf("a"), W.leaf("b")), W.leaf(None), W.leaf(None), dt_tree(GEN), W.leaf(1)]

    def ident(D):
        name = it.getattr_(D, "name")
        return name, W.descriptor_hash(name, [tuple(f) for f in it.call(it.getattr_(D, "get_field_tuples"), [], {})])

    def options_ok(events, which):
        want = {"packb-options": {("use_bin_type", True), ("unicode_errors", "surrogateescape")}, "unpackb-options": {("use_list", False), ("raw", False), ("unicode_errors", "surrogateescape")}}[which]
        evs = [set(e[1:-1]) for e in events if e[0] == which]
        # (further options are fine when they do not narrow what the format can carry: size limits at least as large as a frame can be, map keys of any type)
        harmless = lambda k_, v_: k_ == "strict_map_key" or (k_.startswith("max_") and isinstance(v_, int) and v_ >= 2**32 - 1) or (k_ == "max_buffer_size" and v_ == 0)  # (msgpack: max_buffer_size=0 means 2**32-1)
        return bool(evs) and all(want <= e and all(harmless(*x_) for x_ in e - want) for e in evs)

    # ---------------------------------------------------------------- constants of the format
    def th_constants():
        pkg = L.import_module("flow.record.base")
        bad = []
        exp = {"RECORD_PACK_EXT_TYPE": 14, "RECORD_PACK_TYPE_RECORD": 1, "RECORD_PACK_TYPE_DESCRIPTOR": 2, "RECORD_PACK_TYPE_DATETIME": 0x10, "RECORD_PACK_TYPE_VARINT": 0x11, "RECORD_PACK_TYPE_GROUPEDRECORD": 0x12}
        for k, v in exp.items():
            if pk.g.get(k) != v:
                bad.append(f"{k}={pk.g.get(k)!r}")
        if pkg.g.get("RECORDSTREAM_MAGIC") != W.MAGIC:
            bad.append("RECORDSTREAM_MAGIC")
        if pkg.g.get("RECORDSTREAM_MAGIC_DEPTH") != 19:
            bad.append(f"RECORDSTREAM_MAGIC_DEPTH={pkg.g.get('RECORDSTREAM_MAGIC_DEPTH')!r}")
        if tuple(pkg.g["RESERVED_FIELDS"].items()) != tuple(zip(W.RESERVED, W.RESERVED_TYPES)):
            bad.append(f"RESERVED_FIELDS={list(pkg.g['RESERVED_FIELDS'].items())!r}")
        if pkg.g.get("RECORD_VERSION") != 1:
            bad.append("RECORD_VERSION")
        return bad

    pack.add(Obligation("C02.constants", lambda tier: prove_paths("C02.constants", th_constants, lambda p: (not p.value, f"constants differ from the published format: {p.value}")), functions=("flow.record.packer:<module constants>", "flow.record.base:<module constants>"),
                        replay=lambda w: {"call": "c02_golden", "args": {}}, mode="structural"))

    # ---------------------------------------------------------------- header and framing (writer)
    def th_stream():
        D = it.call(RD, ["c02/rec", list(FIELDS)], {})
        r = mkrec(D, SInt(x), SStr(sv))
        fp = AbsFile(it, mode="wb")
        w = it.call(st.g["RecordStreamWriter"], [fp], {})
        it.call(it.getattr_(w, "write"), [r], {})
        return fp.content(), list(it.events)

    def judge_stream(p):
        if p.kind == "raise":
            return exc_name(p) in ("UnicodeEncodeError", "error"), f"write raised {exc_text(p)}"
        segs, events = p.value
        if len(segs) != 6:
            return False, f"{len(segs)} fp.write calls for header + descriptor + record (the format has 3 frames of length + body)"
        head = b"".join(s.concrete if isinstance(s, MPBytes) else s for s in segs[:2] if isinstance(s, (bytes, MPBytes)) and (not isinstance(s, MPBytes) or s.concrete is not None))
        if head != HEADER_FRAME:
            return False, f"the stream starts with {head!r}, the format with {HEADER_FRAME!r}"
        conj = []
        for a, b in zip(segs[2::2], segs[3::2]):
            if not isinstance(b, MPBytes):
                return False, "frame body is not a packed value"
            want = length_prefix(it, b)
            if isinstance(want, bytes):
                if a != want:
                    return False, f"length prefix {a!r} where the format has the big-endian length {want!r}"
            elif not isinstance(a, SBytes):
                return False, f"length prefix {a!r}"
            else:
                conj.append(a.t == want.t)
        if not options_ok(events, "packb-options"):
            return False, "msgpack.packb is not called with use_bin_type=True, unicode_errors='surrogateescape'"
        return (z3.And(*conj) if conj else True), "length prefix is not the 4-byte big-endian length of the body"

    pack.add(Obligation("C02.frame", lambda tier: prove_paths("C02.frame", th_stream, judge_stream, lambda m_, p: {}, allow_raise=None), replay=lambda w: {"call": "c02_golden", "args": {}}, functions=FU))

    def th_reader_frame():
        D = it.call(RD, ["c02/rec", list(FIELDS)], {})
        name, h = ident(D)
        body = blob(W.descriptor_tree(blob, name, FIELDS))
        rec = blob(W.record_tree(blob, name, h, rec_values(("leaf", 7), "v")))
        fp = AbsFile(it, [HEADER_FRAME, length_prefix(it, body), body, length_prefix(it, rec), rec])
        rd = it.call(st.g["RecordStreamReader"], [fp], {})
        out, end = drain(it, it.call(it.getattr_(rd, "__iter__"), [], {}))
        return [(o.cls.name, it.unbase(o.attrs.get("n")), it.unbase(o.attrs.get("s"))) for o in out], end, list(it.events)

    pack.add(Obligation("C02.read.stream", lambda tier: prove_paths("C02.read.stream", th_reader_frame, lambda p: (p.value[0] == [("c02_rec", 7, "v")] and p.value[1] == "stop" and options_ok(p.value[2], "unpackb-options"),
                        f"a stream built from the published format was read as {p.value[0]!r}, end {p.value[1]!r} (or unpackb options differ)")), replay=lambda w: {"call": "c02_golden", "args": {}}, functions=FU))

    def th_reader_concat():
        # two streams put one behind the other (cat a b, appended files, multi-member archives): each begins with the header frame; the reader decodes the records of both
        D = it.call(RD, ["c02/rec", list(FIELDS)], {})
        name, h = ident(D)
        body = blob(W.descriptor_tree(blob, name, FIELDS))
        recs = [blob(W.record_tree(blob, name, h, rec_values(("leaf", k), "v"))) for k in (7, 8, 9)]
        hdr = [HEADER_FRAME[:4], HEADER_FRAME[4:]]
        segs = [HEADER_FRAME, length_prefix(it, body), body, length_prefix(it, recs[0]), recs[0]] + hdr + [length_prefix(it, recs[1]), recs[1]] + hdr + [length_prefix(it, body), body, length_prefix(it, recs[2]), recs[2]] + hdr
        rd = it.call(st.g["RecordStreamReader"], [AbsFile(it, segs)], {})
        out, end = drain(it, it.call(it.getattr_(rd, "__iter__"), [], {}))
        return [(it.type_name(o), it.unbase(o.attrs.get("n")) if isinstance(o, PObj) else repr(o)[:30]) for o in out], end

    pack.add(Obligation("C02.read.stream[several streams one behind the other: a header frame in front of each]", lambda tier: prove_paths("C02.read.stream[several streams one behind the other: a header frame in front of each]", th_reader_concat,
                        lambda p: (p.value == ([("c02_rec", 7), ("c02_rec", 8), ("c02_rec", 9)], "stop"), f"three conforming streams holding records 7, 8, 9 were read as {p.value!r}")), replay=lambda w: {"call": "c02_concat", "args": {}}, functions=FU))

    # ---- a record holding records (record, record[] with element types new to the stream): every frame of the written stream is a frame of the format and the
    #      definition of each type - nested ones included - precedes the first record frame that names it (what an independent decoder needs)
    def th_stream_nested():
        def plain(t):
            return it.unbase(t[1]) if t[0] == "leaf" else [plain(e) for e in t[1]] if t[0] == "arr" else t

        def ids_in(t, acc):
            if t[0] == "ext" and t[1] == 14 and isinstance(t[2], MPBytes):
                inner = t[2].tree[1]
                if plain(inner[0]) == 1:
                    acc.append(tuple(plain(inner[1][1][0])))
                    for v in inner[1][1][1][1]:
                        ids_in(v, acc)
            elif t[0] == "arr":
                for e in t[1]:
                    ids_in(e, acc)

        A = it.call(RD, ["c02/in_a", [("varint", "n")]], {})
        B = it.call(RD, ["c02/in_b", [("string", "s")]], {})
        C = it.call(RD, ["c02/in_c", [("varint", "k")]], {})
        N = it.call(RD, ["c02/holder", [("record", "one"), ("record[]", "many"), ("varint", "k")]], {})
        inner_holder = it.call(N, [], {"one": None, "many": [it.call(C, [], {"k": 3})], "k": 2})
        n = it.call(N, [], {"one": it.call(A, [], {"n": SInt(x)}), "many": [it.call(B, [], {"s": "v"}), inner_holder], "k": 1})
        fp = AbsFile(it, mode="wb")
        w = it.call(st.g["RecordStreamWriter"], [fp], {})
        it.call(it.getattr_(w, "write"), [n], {})
        known, problems = set(), []
        for body in fp.content()[3::2]:
            t = getattr(body, "tree", None)
            if t is None or t[0] != "ext" or t[1] != 14 or not isinstance(t[2], MPBytes):
                problems.append(f"not a frame of the format: {body!r}")
                continue
            inner = t[2].tree[1]
            if plain(inner[0]) == 2:
                nm_, fields_ = plain(inner[1][1][0]), tuple(tuple(f) for f in plain(inner[1][1][1]))
                known.add((nm_, W.descriptor_hash(nm_, fields_)))
            else:
                acc = []
                ids_in(t, acc)
                problems += [f"record frame names the type {i_!r} before its definition" for i_ in acc if i_ not in known]
                if len(set(acc)) != 4:
                    problems.append(f"the record frame names the types {acc!r}: holder and three nested types expected")
        return problems

    pack.add(Obligation("C02.frame[record holding records: record, record[] and a holder inside a list, element types new to the stream]", lambda tier: prove_paths("C02.frame[nested]", th_stream_nested, lambda p: (p.value == [], f"{p.value[:2]!r}") if p.kind != "raise" else (exc_name(p) in ("error",), f"raised {exc_text(p)}"), lambda m_, p: {}, allow_raise=None),
                        replay=lambda w: {"call": "c02_nested_stream", "args": {}}, functions=FU))

    # ---------------------------------------------------------------- envelopes: writer against the format
    def th_pack_record(rng, inr):
        def th():
            it.assume(rng)
            D = it.call(RD, ["c02/rec", list(FIELDS)], {})
            r = mkrec(D, SInt(x), SStr(sv))
            got = pack_with_fresh_packer(it, pk, r)
            name, h = ident(D)
            want = W.record_tree(blob, name, h, rec_values(int_value_tree(x) if inr else big_tree(x), SStr(sv)))
            return got.tree, want
        return th

    def judge_tree(p):
        if p.kind == "raise":
            return exc_name(p) in ("UnicodeEncodeError",), f"pack raised {exc_text(p)}"
        return tree_eq(it, p.value[0], p.value[1])

    def th_pack_ignoring():
        # what is written is the record, whatever the comparison configuration (ignored fields concern == and hash only)
        D = it.call(RD, ["c02/rec", list(FIELDS)], {})
        r = mkrec(D, SInt(x), SStr(sv))
        it.assume(INR)
        saved = base.g["IGNORE_FIELDS_FOR_COMPARISON"]
        it.call(base.g["set_ignored_fields_for_comparison"], [["_generated", "s", "l"]], {})
        try:
            got = pack_with_fresh_packer(it, pk, r)
        finally:
            base.g["IGNORE_FIELDS_FOR_COMPARISON"] = saved
        name, h = ident(D)
        return got.tree, W.record_tree(blob, name, h, rec_values(int_value_tree(x), SStr(sv)))

    pack.add(Obligation("C02.pack[record, while fields are ignored for comparison]", lambda tier: prove_paths("C02.pack[record, while fields are ignored for comparison]", th_pack_ignoring, judge_tree,
                        lambda m_, p: {"x": model_value(m_, x), "s": model_value(m_, sv)}, allow_raise=None), replay=lambda w: {"call": "c02_ignoring", "args": {"x": w.get("x") if isinstance(w.get("x"), int) else 0}}, functions=FU))

    for nm, rng, inr in (("native int", INR, True), ("big positive int", x > W.INT_MAX, False), ("big negative int", x < W.INT_MIN, False)):
        name = f"C02.pack[record, {nm}]"
        pack.add(Obligation(name, lambda tier, name=name, rng=rng, inr=inr: prove_paths(name, th_pack_record(rng, inr), judge_tree, lambda m_, p: {"x": model_value(m_, x), "s": model_value(m_, sv)}, allow_raise=None),
                            replay=lambda w: {"call": "c02_reference_decode", "args": {"x": w.get("x") if isinstance(w.get("x"), int) else 0, "s": w.get("s") if isinstance(w.get("s"), str) else ""}}, functions=FU))

    # ---- field values with a structured or numeric wire form, against the format as published (frozen): addresses are INTEGERS (native msgpack integer, or
    #      the big-integer envelope from 2**64 on), networks / URIs text, paths [text, flavour], digests three binary values, commands [executable, arguments]
    from pyvc.models.ip import SymIP

    def th_pack_ip(fam, lo, hi, inr):
        def th():
            it.assume(z3.And(x >= lo, x < hi))
            D = it.call(RD, ["c02/ip", [("net.ipaddress", "a")]], {})
            r = it.call(D, [], {"a": SymIP(fam, SInt(x)), "_generated": GEN})
            got = pack_with_fresh_packer(it, pk, r)
            name, h = ident(D)
            want = W.record_tree(blob, name, h, [int_value_tree(x) if inr else big_tree(x), W.leaf(None), W.leaf(None), dt_tree(GEN), W.leaf(1)])
            return got.tree, want
        return th

    for label, fam, lo, hi, inr in (("any IPv4 address", 4, 0, 2 ** 32, True), ("any IPv6 address below 2**64", 6, 0, 2 ** 64, True), ("any IPv6 address from 2**64 on", 6, 2 ** 64, 2 ** 128, False)):
        name = f"C02.pack[value of net.ipaddress, {label}: the integer value]"
        pack.add(Obligation(name, lambda tier, name=name, fam=fam, lo=lo, hi=hi, inr=inr: prove_paths(name, th_pack_ip(fam, lo, hi, inr), judge_tree, lambda m_, p: {"x": model_value(m_, x)}, allow_raise=None),
                            replay=lambda w, fam=fam: {"call": "c02_value_form", "args": {"ftype": "net.ipaddress", "src": f"IP{fam}({int(w.get('x') or 0)})"}}, functions=FU + ("flow.record.fieldtypes.net.ip:ipaddress._pack",)))

    VALUE_FORMS = {
        "net.ipnetwork": ("'10.0.0.0/8'", lambda: W.leaf("10.0.0.0/8")), "net.ipnetwork ": ("'2001:db8::/32'", lambda: W.leaf("2001:db8::/32")), "uri": ("'http://h/p?q#f'", lambda: W.leaf("http://h/p?q#f")),
        "path": ("'/a/b'", lambda: W.arr(W.leaf("/a/b"), W.leaf(0))), "path ": ("__import__('pathlib').PureWindowsPath('c:/x/y')", lambda: W.arr(W.leaf("c:\\x\\y"), W.leaf(1))),
        "digest": ("('d41d8cd98f00b204e9800998ecf8427e', None, None)", lambda: W.arr(W.leaf(bytes.fromhex("d41d8cd98f00b204e9800998ecf8427e")), W.leaf(None), W.leaf(None))),
        "command": ("'ls -l /tmp'", lambda: W.arr(W.arr(W.leaf("ls"), W.arr(W.leaf("-l"), W.leaf("/tmp"))), W.leaf(0))),
        "boolean": ("True", lambda: W.leaf(True)), "float": ("1.5", lambda: W.leaf(1.5)), "uint16": ("443", lambda: W.leaf(443)), "filesize": ("2**40", lambda: W.leaf(2 ** 40)),
    }
    for tkey, (src, want_fn) in VALUE_FORMS.items():
        t = tkey.strip()
        name = f"C02.pack[value of {t}, {src}]"

        def th(t=t, src=src, want_fn=want_fn):
            D = it.call(RD, ["c02/val", [(t, "a")]], {})
            r = it.call(D, [], {"a": eval(src), "_generated": GEN})
            got = pack_with_fresh_packer(it, pk, r)
            name_, h = ident(D)
            return got.tree, W.record_tree(blob, name_, h, [want_fn(), W.leaf(None), W.leaf(None), dt_tree(GEN), W.leaf(1)])

        pack.add(Obligation(name, lambda tier, name=name, th=th: prove_paths(name, th, judge_tree, lambda m_, p: {}, allow_raise=None), replay=lambda w, t=t, src=src: {"call": "c02_value_form", "args": {"ftype": t, "src": src}}, functions=FU, mode="representative value"))

    def th_pack_descriptor():
        D = it.call(RD, ["c02/rec", list(FIELDS)], {})
        return pack_with_fresh_packer(it, pk, D).tree, W.descriptor_tree(blob, "c02/rec", FIELDS)

    pack.add(Obligation("C02.pack[descriptor]", lambda tier: prove_paths("C02.pack[descriptor]", th_pack_descriptor, judge_tree), replay=lambda w: {"call": "c02_golden", "args": {}}, functions=FU))

    DTS = {"utc": TS, "naive": _dt.datetime(2001, 2, 3, 4, 5, 6, 7), "offset +02:00": _dt.datetime(2001, 2, 3, 4, 5, 6, 7, tzinfo=_dt.timezone(_dt.timedelta(hours=2))),
           "offset -09:30": _dt.datetime(1970, 1, 1, 0, 0, 0, 0, tzinfo=_dt.timezone(_dt.timedelta(hours=-9, minutes=-30))), "year 1": _dt.datetime(1, 1, 1, tzinfo=_dt.timezone.utc), "year 9999": _dt.datetime(9999, 12, 31, 23, 59, 59, 999999, tzinfo=_dt.timezone.utc)}
    for nm, d in DTS.items():
        name = f"C02.pack[timestamp, {nm}]"
        pack.add(Obligation(name, lambda tier, name=name, d=d: prove_paths(name, lambda: (pack_with_fresh_packer(it, pk, d).tree, dt_tree(d)), judge_tree), replay=lambda w: {"call": "c02_golden", "args": {}}, functions=FU, mode="representative timestamps (finite case analysis)"))

    def th_pack_list_appended():
        # elements put into a typed list IN PLACE (append / insert: the list is an ordinary list to the caller) go out in the wire form of the element type all the same
        D = it.call(RD, ["c02/lists", [("datetime[]", "tl"), ("path[]", "pl"), ("net.ipaddress[]", "al"), ("string[]", "sl")]], {})
        r = it.call(D, [], {"tl": [TS], "pl": ["/a"], "al": ["1.2.3.4"], "sl": ["x"], "_generated": GEN})
        ts2 = _dt.datetime(2001, 2, 3, 4, 5, 6, 7, tzinfo=_dt.timezone.utc)
        r.attrs["tl"].base.append(ts2)
        r.attrs["pl"].base.append("/b/c")
        r.attrs["al"].base.insert(0, "5.6.7.8")
        r.attrs["sl"].base.append(b"bytes")
        got = pack_with_fresh_packer(it, pk, r)
        name_, h = ident(D)
        want = W.record_tree(blob, name_, h, [W.arr(dt_tree(TS), dt_tree(ts2)), W.arr(W.arr(W.leaf("/a"), W.leaf(0)), W.arr(W.leaf("/b/c"), W.leaf(0))), W.arr(W.leaf(0x05060708), W.leaf(0x01020304)), W.arr(W.leaf("x"), W.leaf("bytes")),
                                              W.leaf(None), W.leaf(None), dt_tree(GEN), W.leaf(1)])
        return got.tree, want

    pack.add(Obligation("C02.pack[typed lists with elements put in place (append / insert)]", lambda tier: prove_paths("C02.pack[typed lists in place]", th_pack_list_appended, judge_tree), replay=lambda w: {"call": "c02_list_in_place", "args": {}}, functions=FU + ("flow.record.fieldtypes:typedlist._pack",), mode="representative history"))

    def th_pack_descriptor_alias():
        # a definition is written with the type names it was declared with (the alias spellings are whitelisted names of their own)
        D = it.call(RD, ["c02/alias", [("wstring", "w"), ("string", "s"), ("net.IPAddress", "ip"), ("wstring[]", "wl")]], {})
        got = pack_with_fresh_packer(it, pk, D)
        return got.tree, W.descriptor_tree(blob, "c02/alias", [("wstring", "w"), ("string", "s"), ("net.IPAddress", "ip"), ("wstring[]", "wl")])

    pack.add(Obligation("C02.pack[descriptor declared with alias type names]", lambda tier: prove_paths("C02.pack[descriptor declared with alias type names]", th_pack_descriptor_alias, judge_tree), replay=lambda w: {"call": "c02_descriptor_alias", "args": {}}, functions=FU))

    def th_grouped_same_name():
        # a grouped record whose member type has the NAME of a type written before but other fields: its definition is in the stream before the grouped frame
        A = it.call(RD, ["c02/m", [("varint", "n")]], {})
        A2 = it.call(RD, ["c02/m", [("string", "s")]], {})
        fp = AbsFile(it, mode="wb")
        w = it.call(st.g["RecordStreamWriter"], [fp], {})
        it.call(it.getattr_(w, "write"), [it.call(A, [], {"n": SInt(x)})], {})
        it.call(it.getattr_(w, "write"), [it.call(GR, ["c02/g", [it.call(A2, [], {"s": "v"}), it.call(A, [], {"n": 1})]], {})], {})
        known, problems = set(), []
        for body in fp.content()[3::2]:
            t = getattr(body, "tree", None)
            if t is None or t[0] != "ext" or not isinstance(t[2], MPBytes):
                problems.append(f"not a frame of the format: {body!r}")
                continue
            inner = t[2].tree[1]
            sub = it.unbase(inner[0][1])
            pl = lambda q: it.unbase(q[1]) if q[0] == "leaf" else [pl(e) for e in q[1]]
            if sub == 2:
                nm_, fields_ = pl(inner[1][1][0]), tuple(tuple(f) for f in pl(inner[1][1][1]))
                known.add((nm_, W.descriptor_hash(nm_, fields_)))
            elif sub == 0x12:
                for m_ in inner[1][1][1][1]:
                    ident_ = tuple(pl(m_[1][0]))
                    if ident_ not in known:
                        problems.append(f"the grouped frame names the member type {ident_!r} before its definition")
        return problems

    pack.add(Obligation("C02.frame[grouped record whose member type shares its name with a type written before]", lambda tier: prove_paths("C02.frame[grouped same name]", th_grouped_same_name, lambda p: (p.value == [], f"{p.value[:2]!r}") if p.kind != "raise" else (exc_name(p) in ("error",), f"raised {exc_text(p)}"), lambda m_, p: {}, allow_raise=None),
                        replay=lambda w: {"call": "c02_grouped_same_name", "args": {}}, functions=FU))

    def th_pack_grouped():
        A = it.call(RD, ["c02/a", [("varint", "n")]], {})
        B = it.call(RD, ["c02/b", [("string", "s")]], {})
        a = it.call(A, [], {"n": SInt(x), "_generated": GEN})
        b = it.call(B, [], {"s": SStr(sv), "_generated": GEN})
        it.assume(INR)
        g = it.call(GR, ["c02/grp", [a, b]], {})
        got = pack_with_fresh_packer(it, pk, g)
        tail = [W.leaf(None), W.leaf(None), dt_tree(GEN), W.leaf(1)]
        want = W.grouped_tree(blob, "c02/grp", [("c02/a", W.descriptor_hash("c02/a", [("varint", "n")]), [("leaf", SInt(x))] + tail), ("c02/b", W.descriptor_hash("c02/b", [("string", "s")]), [("leaf", SStr(sv))] + tail)])
        return got.tree, want

    pack.add(Obligation("C02.pack[grouped]", lambda tier: prove_paths("C02.pack[grouped]", th_pack_grouped, judge_tree, lambda m_, p: {}, allow_raise=None), replay=lambda w: {"call": "c02_golden", "args": {}}, functions=FU))

    # a write that is refused while the record is packed leaves a stream an independent decoder can still decode: every record frame is preceded by
    # the descriptor frame of its type
    def th_refused_then_written():
        DL = it.call(RD, ["c02/dl", [("dictlist", "dl"), ("varint", "n")]], {})
        fp = AbsFile(it, mode="wb")
        w = it.call(st.g["RecordStreamWriter"], [fp], {})
        try:
            it.call(it.getattr_(w, "write"), [it.call(DL, [], {"dl": [{"k": {1, 2}}], "n": 1})], {})
            return "an unpackable record was written"
        except PyRaise:
            pass
        it.call(it.getattr_(w, "write"), [it.call(DL, [], {"dl": [{"k": "v"}], "n": SInt(x)})], {})
        known, frames = set(), 0
        for body in fp.content()[1::2]:
            t = body.tree
            if t[0] != "ext" or not isinstance(t[2], MPBytes):
                continue
            inner = t[2].tree[1]
            sub = inner[0][1]
            if sub == W.SUB_DESCRIPTOR:
                known.add(inner[1][1][0][1])
            elif sub == W.SUB_RECORD:
                frames += 1
                nm = inner[1][1][0][1][0][1]
                if nm not in known:
                    return f"a record frame of type {nm!r} is in the stream, its descriptor frame is not: an independent decoder cannot decode it"
        return None if frames == 1 else f"{frames} record frames for one accepted record"

    pack.add(Obligation("C02.history[a write refused while packing, then an accepted record of that type]", lambda tier: prove_paths("C02.history[a write refused while packing, then an accepted record of that type]", th_refused_then_written, lambda p: (p.value is None, str(p.value)), lambda m_, p: {}, allow_raise=("UnicodeEncodeError", "error")),
                        replay=lambda w: {"call": "c02_refused_then_written", "args": {}}, functions=FU, mode="concrete history"))

    # ---------------------------------------------------------------- envelopes: reader against the format
    def packer_with(*descs):
        p = it.call(pk.g["RecordPacker"], [], {})
        for d in descs:
            it.call(it.getattr_(p, "register"), [d], {})
        return p

    def unpack(p, tree):
        return it.call(it.getattr_(p, "unpack"), [blob(tree)], {})

    def th_unpack_record(rng, ident_form="pair", extra=0, version=True, inr=True):
        def th():
            it.assume(rng)
            D = it.call(RD, ["c02/rec", list(FIELDS)], {})
            name, h = ident(D)
            vals = rec_values(int_value_tree(x) if inr else big_tree(x, for_decoder=True), SStr(sv))
            if not version:
                vals = vals[:-1]
            if extra:
                vals = vals[:-1] + [W.leaf(f"extra{i}") for i in range(extra)] + [W.leaf(1)]
            t = W.record_tree(blob, name, h, vals)
            if ident_form == "name":  # records of old releases name their type without a hash
                t = W.ext(blob, W.SUB_RECORD, W.arr(W.leaf(name), W.arr(*vals)))
            o = unpack(packer_with(D), t)
            return o, (isinstance(o, PObj) and it.getattr_(o, "_desc") is D)
        return th

    def judge_unpacked(version=True):
        def judge(p):
            if p.kind == "raise":
                return False, f"unpack of a conforming record raised {exc_text(p)}"
            o, desc_ok = p.value
            if not desc_ok:
                return False, f"decoded object {o!r} does not carry the registered descriptor"
            a = o.attrs
            fixed = it.unbase(a["b"]) == b"\x00\xffbin" and [it.unbase(e) for e in a["l"].base] == ["a", "b"] and it.unbase(a["ts"]) == TS and it.unbase(a["_generated"]) == GEN and a["_source"] is None and a["_classification"] is None
            kinds = (it.type_name(a["n"]), it.type_name(a["s"]), it.type_name(a["b"]), it.type_name(a["ts"]), it.type_name(a["l"]))
            if not fixed or kinds != ("varint", "string", "bytes", "datetime", "string[]"[:-2] + "[]" if False else kinds[4]):
                return False, f"decoded record differs: kinds {kinds}, b={a['b']!r} l={a['l']!r} ts={a['ts']!r} gen={a['_generated']!r}"
            if kinds[:4] != ("varint", "string", "bytes", "datetime"):
                return False, f"field kinds {kinds}"
            ver = it.unbase(a["_version"])
            if version and ver != 1:
                return False, f"_version decoded as {ver!r}"
            return z3.And(it.zint(a["n"]) == x, it.zstr(a["s"]) == sv), "decoded n / s differ from the encoded values"
        return judge

    # values with a structured wire form, decoded from a conforming stream into records of the normal class and of the class generated for types with a
    # Python-keyword field name (another class template): every field holds a value of its declared type
    STRUCT_FIELDS = {False: [("path", "p"), ("digest", "d"), ("command", "c"), ("path[]", "pl"), ("net.ipaddress", "a"), ("varint", "n")],
                     True: [("path", "from"), ("digest", "class"), ("command", "import"), ("path[]", "in"), ("net.ipaddress", "is"), ("varint", "n")]}
    for kw in (False, True):
        name = f"C02.unpack[record with structured values, {'a type with keyword field names' if kw else 'ordinary field names'}]"

        def th_struct(kw=kw):
            fields = STRUCT_FIELDS[kw]
            D = it.call(RD, ["c02/struct", list(fields)], {})
            name_, h = ident(D)
            md5 = bytes.fromhex("d41d8cd98f00b204e9800998ecf8427e")
            vals = [W.arr(W.leaf("/a/b"), W.leaf(0)), W.arr(W.leaf(md5), W.leaf(None), W.leaf(None)), W.arr(W.arr(W.leaf("ls"), W.arr(W.leaf("-l"))), W.leaf(0)), W.arr(W.arr(W.leaf("c:\\x"), W.leaf(1))), ("leaf", SInt(x)), W.leaf(7),
                    W.leaf(None), W.leaf(None), dt_tree(GEN), W.leaf(1)]
            it.assume(z3.And(x >= 0, x < 2 ** 32))
            o = unpack(packer_with(D), W.record_tree(blob, name_, h, vals))
            kinds = [it.type_name(o.attrs[f]) for _, f in fields]
            return kinds, it.unbase(it.getattr_(o.attrs[fields[1][1]], "md5")), [it.type_name(e) for e in o.attrs[fields[3][1]].base]

        pack.add(Obligation(name, lambda tier, name=name, th_struct=th_struct: prove_paths(name, th_struct, lambda p: (p.value == (["posix_path", "digest", "posix_command", "path[]" if False else p.value[0][3], "ipaddress", "varint"], "d41d8cd98f00b204e9800998ecf8427e", ["windows_path"]), f"a conforming record frame was decoded to field values of the kinds {p.value!r}") if p.kind != "raise" else (False, f"unpack of a conforming record raised {exc_text(p)}"), lambda m_, p: {}, allow_raise=None),
                            replay=lambda w, kw=kw: {"call": "c02_struct_decode", "args": {"kw": kw}}, functions=FU + ("flow.record.base:_generate_record_class",), mode="representative structured values, both class templates"))

    for nm, rng, inr in (("native int", INR, True), ("big positive int", x > W.INT_MAX, False), ("big negative int", x < W.INT_MIN, False)):
        name = f"C02.unpack[record, {nm}]"
        pack.add(Obligation(name, lambda tier, name=name, rng=rng, inr=inr: prove_paths(name, th_unpack_record(rng, inr=inr), judge_unpacked(), lambda m_, p: {"x": model_value(m_, x), "s": model_value(m_, sv)}, allow_raise=None),
                            replay=lambda w: {"call": "c02_reference_encode", "args": {"x": w.get("x") if isinstance(w.get("x"), int) else 0, "s": w.get("s") if isinstance(w.get("s"), str) else ""}}, functions=FU))
    for extra in (1, 2, 3):
        name = f"C02.compat[{extra} extra trailing metadata field(s)]"
        pack.add(Obligation(name, lambda tier, name=name, extra=extra: prove_paths(name, th_unpack_record(INR, extra=extra), judge_unpacked(), lambda m_, p: {"x": model_value(m_, x), "s": model_value(m_, sv)}, allow_raise=None),
                            replay=lambda w, extra=extra: {"call": "c02_compat", "args": {"extra": extra}}, functions=FU, mode="finite case analysis over 1..3 extra fields"))
    def th_unpack_grouped_member(extra):
        """a grouped-record frame whose member carries extra trailing metadata fields (written by a newer release): the member is read like a plain record"""
        def th():
            it.assume(INR)
            D = it.call(RD, ["c02/rec", list(FIELDS)], {})
            name, h = ident(D)
            vals = rec_values(int_value_tree(x), SStr(sv))
            vals = vals[:-1] + [W.leaf(f"extra{i}") for i in range(extra)] + [W.leaf(1)]
            g = unpack(packer_with(D), W.grouped_tree(blob, "c02/grp", [(name, h, vals)]))
            members = it.getattr_(g, "records") if isinstance(g, PObj) else []
            o = members[0] if members else None
            return o, (isinstance(o, PObj) and it.getattr_(o, "_desc") is D)
        return th

    for extra in (1, 2):
        name = f"C02.compat[grouped record member with {extra} extra trailing metadata field(s)]"
        pack.add(Obligation(name, lambda tier, name=name, extra=extra: prove_paths(name, th_unpack_grouped_member(extra), judge_unpacked(), lambda m_, p: {"x": model_value(m_, x), "s": model_value(m_, sv)}, allow_raise=None),
                            replay=lambda w, extra=extra: {"call": "c02_compat", "args": {"extra": extra, "grouped": True}}, functions=FU, mode="finite case analysis over 1..2 extra fields"))
    pack.add(Obligation("C02.compat[no version field]", lambda tier: prove_paths("C02.compat[no version field]", th_unpack_record(INR, version=False), judge_unpacked(version=False), lambda m_, p: {}, allow_raise=None),
                        replay=lambda w: {"call": "c02_compat", "args": {"extra": -1}}, functions=FU))
    pack.add(Obligation("C02.compat[identifier is a bare name]", lambda tier: prove_paths("C02.compat[identifier is a bare name]", th_unpack_record(INR, ident_form="name"), judge_unpacked(), lambda m_, p: {}, allow_raise=None),
                        replay=lambda w: {"call": "c02_compat", "args": {"extra": 0, "bare": True}}, functions=FU))

    # ---- the registry of a reader / writer forgets nothing: a stream may announce any number of types, each only once
    def th_registry_keeps():
        D = it.call(RD, ["c02/rec", list(FIELDS)], {})
        N = it.call(RD, ["c02/new", [("varint", "n")]], {})
        p = it.call(pk.g["RecordPacker"], [], {})
        old_keys = [(f"c02/t{i:04d}", i) for i in range(3000)] + [f"c02/t{i:04d}" for i in range(3000)]
        reg = it.getattr_(p, "descriptors")
        for k in old_keys:
            reg[k] = D
        saved_limit, it.loop_limit = it.loop_limit, 20000  # (concrete loops over the registry, if any, are run to their end)
        try:
            it.call(it.getattr_(p, "register"), [N], {})
        finally:
            it.loop_limit = saved_limit
        reg = it.getattr_(p, "descriptors")
        missing = [k for k in old_keys if k not in reg]
        return len(missing), missing[:2], it.getattr_(N, "identifier") in reg

    pack.add(Obligation("C02.registry[6000 entries: registering one more type keeps every earlier one]", lambda tier: prove_paths("C02.registry[6000 entries: registering one more type keeps every earlier one]", th_registry_keeps,
                        lambda p: (p.value[0] == 0 and p.value[2] is True, f"after register() {p.value[0]} of 6000 earlier registry entries are gone (e.g. {p.value[1]}); new type registered: {p.value[2]}")),
                        replay=lambda w: {"call": "c02_registry_keeps", "args": {}}, functions=FU, mode="frame condition of RecordPacker.register on a large concrete registry"))

    def th_bare_name_latest():
        """records of earlier releases name their type without a hash: they belong to the definition of that name announced LAST before them"""
        D1 = it.call(RD, ["c02/evolve", [("varint", "n")]], {})
        D2 = it.call(RD, ["c02/evolve", [("varint", "n"), ("string", "s")]], {})
        p = packer_with(D1, D2)
        gen = W.datetime_utc_tree(blob, 2020, 1, 2, 3, 4, 5, 6)
        o = unpack(p, W.ext(blob, W.SUB_RECORD, W.arr(W.leaf("c02/evolve"), W.arr(W.leaf(7), W.leaf("seven"), W.leaf(None), W.leaf(None), gen, W.leaf(1)))))
        return (isinstance(o, PObj) and it.getattr_(o, "_desc") is D2), it.unbase(o.attrs.get("s")) if isinstance(o, PObj) else None

    pack.add(Obligation("C02.compat[bare name, the type was announced twice: the later definition applies]", lambda tier: prove_paths("C02.compat[bare name, the type was announced twice: the later definition applies]", th_bare_name_latest,
                        lambda p: (p.value == (True, "seven"), f"a record that names its type without a hash was decoded with the earlier definition of that name (s={p.value[1]!r})"), lambda m_, p: {}, allow_raise=None),
                        replay=lambda w: {"call": "c02_bare_name_latest", "args": {}}, functions=FU, mode="concrete two-definition history"))

    def th_unpack_descriptor():
        p = packer_with()
        d = unpack(p, W.descriptor_tree(blob, "c02/rec", FIELDS))
        return isinstance(d, PObj) and d.cls.name == "RecordDescriptor" and it.getattr_(d, "name") == "c02/rec" and [tuple(f) for f in it.call(it.getattr_(d, "get_field_tuples"), [], {})] == FIELDS and it.getattr_(d, "identifier") == ("c02/rec", W.descriptor_hash("c02/rec", FIELDS))

    pack.add(Obligation("C02.unpack[descriptor]", lambda tier: prove_paths("C02.unpack[descriptor]", th_unpack_descriptor, lambda p: (p.value is True, "a descriptor frame of the format is not decoded to that descriptor / identifier")), replay=lambda w: {"call": "c02_golden", "args": {}}, functions=FU))

    for nm, d in DTS.items():
        name = f"C02.unpack[timestamp, {nm}]"

        def th(d=d):
            o = unpack(packer_with(), dt_tree(d))
            b_ = it.unbase(o)
            want = d if d.tzinfo is not None else d.replace(tzinfo=_dt.timezone.utc)
            return it.type_name(o) == "datetime" and b_ == want and b_.utcoffset() == want.utcoffset() and b_.replace(tzinfo=None) == want.replace(tzinfo=None)

        pack.add(Obligation(name, lambda tier, name=name, th=th: prove_paths(name, th, lambda p: (p.value is True, "a timestamp of the format is not decoded to that instant and offset")), replay=lambda w: {"call": "c02_golden", "args": {}}, functions=FU, mode="representative timestamps"))

    def th_unpack_grouped():
        A = it.call(RD, ["c02/a", [("varint", "n")]], {})
        B = it.call(RD, ["c02/b", [("string", "s")]], {})
        it.assume(INR)
        tail = [W.leaf(None), W.leaf(None), dt_tree(GEN), W.leaf(1)]
        t = W.grouped_tree(blob, "c02/grp", [("c02/a", W.descriptor_hash("c02/a", [("varint", "n")]), [("leaf", SInt(x))] + tail), ("c02/b", W.descriptor_hash("c02/b", [("string", "s")]), [("leaf", SStr(sv))] + tail)])
        g = unpack(packer_with(A, B), t)
        recs = it.getattr_(g, "records")
        return g.cls.name, it.getattr_(g, "name"), [(it.getattr_(r, "_desc") is D_) for r, D_ in zip(recs, (A, B))], recs

    def judge_unpack_grouped(p):
        cn, nm, descs, recs = p.value
        if cn != "GroupedRecord" or nm != "c02/grp" or descs != [True, True]:
            return False, f"grouped record decoded as {cn} {nm!r} {descs}"
        return z3.And(it.zint(recs[0].attrs["n"]) == x, it.zstr(recs[1].attrs["s"]) == sv), "member values differ"

    pack.add(Obligation("C02.unpack[grouped]", lambda tier: prove_paths("C02.unpack[grouped]", th_unpack_grouped, judge_unpack_grouped, lambda m_, p: {}), replay=lambda w: {"call": "c02_golden", "args": {}}, functions=FU))

    # ---------------------------------------------------------------- descriptor identifier
    HASH_DESCS = [("a", []), ("c02/rec", FIELDS), ("x/y/z", [("uint16", "port"), ("net.ipaddress", "ip"), ("string[]", "tags")]), ("é", [("string", "s")]), ("t", [("stringlist", "a"), ("string", "b")]), ("t", [("string", "a"), ("string", "listb")])]
    for nm, fields in HASH_DESCS:
        if nm == "é":
            continue
        name = f"C02.hash[{nm},{len(fields)} fields]"

        def th(nm=nm, fields=fields):
            D = it.call(RD, [nm, list(fields)], {})
            return it.getattr_(D, "identifier")

        pack.add(Obligation(name, lambda tier, name=name, th=th, nm=nm, fields=fields: prove_paths(name, th, lambda p: (p.value == (nm, W.descriptor_hash(nm, fields)), f"identifier {p.value!r}, the format gives {(nm, W.descriptor_hash(nm, fields))!r}")),
                            replay=lambda w: {"call": "c02_golden", "args": {}}, functions=FU, mode="representative descriptors (finite case analysis)"))

    na, fa, ta = z3.String("name"), z3.String("f1"), z3.String("f2")

    def th_hash_input():
        """The hash input for symbolic names: sha256 is uninterpreted, so equality of the result with the format's term needs the same input string."""
        f = base.g["RecordDescriptor"].d["calc_descriptor_hash"]
        return it.call(f, [SStr(na), ((("string"), SStr(fa)), ("varint", SStr(ta)))], {})

    def judge_hash_input(p):
        from pyvc.models.misc import sha256_of
        from pyvc.models.strings import enc_bytes
        from pyvc.models.ints import from_bytes_big
        from pyvc.models.misc import bytes_prefix

        want = from_bytes_big(bytes_prefix(sha256_of(enc_bytes(z3.Concat(na, fa, z3.StringVal("string"), ta, z3.StringVal("varint")))), 4))
        return it.zint(p.value) == want, "the descriptor hash is not the first four bytes of SHA-256 over name ++ fieldname ++ type ..."

    pack.add(Obligation("C02.hash.input", lambda tier: prove_paths("C02.hash.input", th_hash_input, judge_hash_input, lambda m_, p: {}), replay=lambda w: {"call": "c02_golden", "args": {}}, functions=FU, mode="symbolic names; sha256 uninterpreted"))

    # ---------------------------------------------------------------- canary / conformance / bounded
    def run_canary(tier):
        def th():
            it.assume(x > W.INT_MAX)
            D = it.call(RD, ["c02/rec", list(FIELDS)], {})
            r = mkrec(D, SInt(x), "v")
            got = pack_with_fresh_packer(it, pk, r)
            name, h = ident(D)
            return got.tree, W.record_tree(blob, name, h, rec_values(int_value_tree(x), "v"))  # deliberately wrong: a big integer is not a native msgpack int
        return prove_paths("C02.canary", th, judge_tree, lambda m_, p: {})

    pack.add(Obligation("C02.canary", run_canary, kind="canary"))

    def run_cross(tier):
        res = native_replay({"call": "c04_model_conformance", "args": {"seed": seed}})
        return Result("C02.cross", "proved" if res.get("ok") else "refuted", str(res.get("detail") or res.get("error") or "")[:300], paths=res.get("cases", 0))

    pack.add(Obligation("C02.cross", run_cross, kind="cross"))

    def bounded(name, call, args, note):
        def run(tier):
            a = dict(args, n=args.get("n", 0) * (1 if tier == "quick" else 10)) if "n" in args else args
            res = native_replay({"call": call, "args": a}, timeout=3000)
            r = Result(name, "refuted" if res.get("violates") else ("proved" if "error" not in res else "error"), str(res.get("detail") or res.get("error") or "")[:300], paths=res.get("cases", 0))
            r.native, r.confirmed, r.request, r.witness = res, bool(res.get("violates")), {"call": call, "args": a}, res.get("witness")
            return r
        pack.add(Obligation(name, run, kind="bounded", note=note, functions=FU))

    bounded("C02.golden", "c02_golden", {}, "frozen corpus of streams written at the pinned revision (spec/golden.json): the writer reproduces the bytes, the reader returns the recorded observations; a corpus is a test, not a proof")
    bounded("C02.reference_codec", "c02_reference_sweep", {"seed": seed, "n": 150}, "generated records (all serialisable field types, boundary values): the real writer's bytes are decoded by /verif's independent codec, and bytes "
            "encoded by the independent codec are decoded by the real reader; bound: 150 (quick) / 1500 (thorough) records")
    bounded("C02.history_codec", "c02_history_sweep", {"seed": seed, "n": 60}, "generated write histories over same-name descriptors, nested and grouped records: every record of the written stream is decodable by the independent codec "
            "with a descriptor that precedes it; bound: 60 (quick) / 600 (thorough) histories of up to 5 records")
    pack.assumptions += ["the msgpack package implements the msgpack specification at byte level (sampled by C02.cross: encoder, decoder, prefix-freeness)", "SHA-256 is an uninterpreted function in C02.hash.input; concrete descriptors use hashlib",
                         "datetime: isoformat()/timetuple() of the standard library (concrete representative timestamps)"]
    pack.not_covered = ["byte-level behaviour of the msgpack C extension for all inputs (assumed to follow its specification)", "field types other than varint/string/bytes/datetime/string[] inside the record envelope: their packed shapes are C01's lemmas"]
    pack.case_analyses += ["6 representative timestamps (UTC, naive, two offsets, year 1, year 9999)", "5 representative descriptors for the identifier", "1..3 extra trailing metadata fields"]
    return pack

"""C18 - SQLite export keeps every record, independent of batch size.

Contracts on the real adapter/sqlite.py with sqlite3 replaced by its ghost-state contract (pyvc/models/ext.py: committed tables shared by all connections, a
private working copy while a transaction is open, COMMIT publishes, close() discards an open transaction; only the statement shapes the adapter emits are parsed):

  schema     one table per record type name, one column per slot (declared fields then metadata) with the mapped column type; a type of the same name with more
             fields adds the missing columns - within one writer and when the table was left by an earlier writer session; identifiers are quoted, so '/' and SQL
             keywords in names are harmless; the column list and the placeholders of every INSERT match
  rows       one row per record, in write order, one value per slot in slot order: text / 64-bit integers / floats / bytes / None as themselves, timestamps as
             value.isoformat(), every other type as str(value)                                                      (symbolic integers and text)
  batches    inductive step from an ARBITRARY counter (symbolic count, batch sizes 1, 2, 3, 1000): after write() a transaction is open and holds the new row; a
             commit happened exactly when the record's type was new (before the insert) or count + 1 is a multiple of the batch size; an independent connection sees
             only committed rows; after close() everything is committed; the final content does not depend on the batch size
  reading    SqliteReader returns every table (also tables whose name starts with "sqlite" but is not SQLite's own), the same number of rows per table in order, values
             mapped back by column type
"""
import datetime as _dt

import z3

from pyvc.models.dt import ISOText
from pyvc.models.ext import SqlCon, SqlDb

from .streamlib import *  # noqa

UTC = _dt.timezone.utc
GEN = _dt.datetime(2020, 1, 2, 3, 4, 5, 6, tzinfo=UTC)
TS = _dt.datetime(1999, 12, 31, 23, 59, 58, 123456, tzinfo=_dt.timezone(_dt.timedelta(hours=2)))
FIELDS = [("varint", "n"), ("string", "s"), ("bytes", "b"), ("float", "f"), ("boolean", "t"), ("datetime", "ts"), ("path", "p"), ("net.ipaddress", "ip"), ("string[]", "l"), ("uint32", "u")]
COLTYPES = {"n": "BIGINT", "s": "TEXT", "b": "BLOB", "f": "REAL", "t": "INTEGER", "ts": "TIMESTAMPTZ", "p": "TEXT", "ip": "TEXT", "l": "TEXT", "u": "INTEGER", "_source": "TEXT", "_classification": "TEXT", "_generated": "TIMESTAMPTZ", "_version": "BIGINT"}


def build(tier="quick", seed=0):
    it, L, base, pk, st = mods()
    sq = L.import_module("flow.record.adapter.sqlite")
    pack = new_pack("C18", "SQLite export keeps every record, independent of batch size")
    RD = base.g["RecordDescriptor"]
    FU = ("flow.record.adapter.sqlite:create_descriptor_table", "flow.record.adapter.sqlite:update_descriptor_columns", "flow.record.adapter.sqlite:prepare_insert_sql", "flow.record.adapter.sqlite:db_insert_record",
          "flow.record.adapter.sqlite:SqliteWriter.__init__", "flow.record.adapter.sqlite:SqliteWriter.write", "flow.record.adapter.sqlite:SqliteWriter.tx_cycle", "flow.record.adapter.sqlite:SqliteWriter.flush",
          "flow.record.adapter.sqlite:SqliteWriter.close", "flow.record.adapter.sqlite:SqliteReader.table_names", "flow.record.adapter.sqlite:SqliteReader.read_table", "flow.record.adapter.sqlite:SqliteReader.__iter__")
    x, y, cnt = z3.Int("x"), z3.Int("y"), z3.Int("count")
    sv = z3.String("s")
    PATH = "/abs/c18.sqlite"

    def fresh(db=None):
        it.vfs, it.vfs_auto, it.vfs_events = {PATH: db or SqlDb()}, False, []
        return it.vfs[PATH]

    def writer(batch=None):
        return it.call(sq.g["SqliteWriter"], [PATH], {} if batch is None else {"batch_size": batch})

    def full_record(D):
        it.assume(z3.And(x >= -(2**63), x < 2**63))
        return it.call(D, [], {"n": SInt(x), "s": SStr(sv), "b": b"\x00\xff", "f": 1.5, "t": True, "ts": TS, "p": "/a/b", "ip": "1.2.3.4", "l": ["a", "b"], "u": 7, "_generated": GEN})

    # ------------------------------------------------------------------ schema + row of one record
    def th_row():
        db = fresh()
        D = it.call(RD, ["c18/all", list(FIELDS)], {})
        r = full_record(D)
        w = writer()
        it.call(it.getattr_(w, "write"), [r], {})
        it.call(it.getattr_(w, "close"), [], {})
        t = db.tables.get("c18/all")
        return t, [st_[0] for st_ in []]

    def judge_row(p):
        t, _ = p.value
        if t is None:
            return False, "no table named like the record type was created / committed"
        cols = t["cols"]
        want_cols = [(n, COLTYPES[n]) for _, n in FIELDS] + [(n, COLTYPES[n]) for n in ("_source", "_classification", "_generated", "_version")]
        if cols != want_cols:
            return False, f"columns {cols}, expected one per slot with the mapped type: {want_cols}"
        if len(t["rows"]) != 1:
            return False, f"{len(t['rows'])} rows for one record"
        row = t["rows"][0]
        u = [it.unbase(v) for v in row]
        fixed = (u[2] == b"\x00\xff" and u[3] == 1.5 and u[4] in (True, 1) and u[5] == TS.isoformat() and u[6] == "/a/b" and u[7] == "1.2.3.4" and u[8] == "['a', 'b']" and u[9] == 7 and u[10] is None and u[11] is None and u[12] == GEN.isoformat() and u[13] == 1)
        if not fixed:
            return False, f"row values {u!r}: expected native values, timestamps as isoformat(), other types as text"
        return z3.And(it.zint(row[0]) == x, it.zstr(row[1]) == sv), "integer / text column differs from the record"

    pack.add(Obligation("C18.row[all column kinds]", lambda tier: prove_paths("C18.row[all column kinds]", th_row, judge_row, lambda m_, p: {"x": model_value(m_, x), "s": model_value(m_, sv)}), replay=lambda w: {"call": "c18_row", "args": {"x": w.get("x") if isinstance(w.get("x"), int) else 0, "s": w.get("s") if isinstance(w.get("s"), str) else ""}}, functions=FU))

    def th_range():
        db = fresh()
        D = it.call(RD, ["c18/r", [("varint", "n")]], {})
        w = writer()
        it.call(it.getattr_(w, "write"), [it.call(D, [], {"n": SInt(x)})], {})
        it.call(it.getattr_(w, "close"), [], {})
        return db.tables["c18/r"]["rows"]

    def judge_range(p):
        if p.kind == "raise":
            return z3.Or(x < -(2**63), x >= 2**63), f"a 64-bit integer was refused: {exc_text(p)}"
        return z3.And(x >= -(2**63), x < 2**63, it.zint(p.value[0][0]) == x), "an integer outside 64 bits was stored (or stored wrongly)"

    pack.add(Obligation("C18.row[integer range]", lambda tier: prove_paths("C18.row[integer range]", th_range, judge_range, lambda m_, p: {"x": model_value(m_, x)}, allow_raise=None), replay=lambda w: {"call": "c18_row", "args": {"x": w.get("x") if isinstance(w.get("x"), int) else 0, "s": ""}}, functions=FU))

    # ------------------------------------------------------------------ names: quoting
    for tname, fname in (("a/b", "select"), ("sqlite/table", "order"), ("x", "group"), ("table", "from"), ("a/b/c_d", "Index")):
        name = f"C18.sql[table {tname!r}, column {fname!r}]"

        def th(tname=tname, fname=fname):
            db = fresh()
            D = it.call(RD, [tname, [("varint", fname), ("string", "s")]], {})
            w = writer()
            it.call(it.getattr_(w, "write"), [it.call(D, [], {fname: 5, "s": "v"})], {})
            it.call(it.getattr_(w, "close"), [], {})
            rd = it.call(sq.g["SqliteReader"], [PATH], {})
            back = list(it.iterate(rd))
            return [c[0] for c in db.tables.get(tname, {"cols": []})["cols"]][:2], [(it.getattr_(it.getattr_(b, "_desc"), "name"), it.unbase(b.attrs.get(fname)), it.unbase(b.attrs.get("s"))) for b in back]

        pack.add(Obligation(name, lambda tier, name=name, th=th, tname=tname, fname=fname: prove_paths(name, th, lambda p: (p.value == ([fname, "s"], [(tname, 5, "v")]), f"table / column names {p.value[0]}, read back {p.value[1]}")), replay=lambda w, tname=tname, fname=fname: {"call": "c18_names", "args": {"table": tname, "field": fname}},
                            functions=FU, mode="representative names ('/' separated, SQL keywords, prefix 'sqlite')"))

    # a field may be called like SQLite's implicit row id: every row is read back, in write order, whatever the field holds
    for fname in ("rowid", "oid", "ROWID"):
        name = f"C18.sql[column {fname!r} holding NULL, 0, duplicates and negative numbers]"
        ROWS = [(None, "a"), (0, "b"), (7, "c"), (7, "d"), (-1, "e"), (3, "f")]

        def th(fname=fname, ROWS=ROWS):
            db = fresh()
            D = it.call(RD, ["c18/ids", [("varint", fname), ("string", "s")]], {})
            w = writer()
            for v, s_ in ROWS:
                it.call(it.getattr_(w, "write"), [it.call(D, [], {fname: v, "s": s_})], {})
            it.call(it.getattr_(w, "close"), [], {})
            rd = it.call(sq.g["SqliteReader"], [PATH], {})
            return [(it.unbase(b.attrs.get(fname)), it.unbase(b.attrs.get("s"))) for b in it.iterate(rd)]

        pack.add(Obligation(name, lambda tier, name=name, th=th, ROWS=ROWS: prove_paths(name, th, lambda p, ROWS=ROWS: (p.value == ROWS, f"rows written {ROWS}, read back {p.value}")), replay=lambda w, fname=fname: {"call": "c18_rowid_column", "args": {"field": fname}},
                            functions=FU, mode="the names that SQLite also uses for its implicit row id"))

    # ------------------------------------------------------------------ descriptor evolution
    def th_evolve(sessions):
        def th():
            db = fresh()
            D1 = it.call(RD, ["c18/ev", [("varint", "a")]], {})
            D2 = it.call(RD, ["c18/ev", [("varint", "a"), ("string", "b"), ("bytes", "c")]], {})
            w = writer()
            it.call(it.getattr_(w, "write"), [it.call(D1, [], {"a": SInt(x)})], {})
            if sessions == 2:  # the table is left behind by an earlier writer session
                it.call(it.getattr_(w, "close"), [], {})
                w = writer()
            it.call(it.getattr_(w, "write"), [it.call(D2, [], {"a": SInt(y), "b": "bb", "c": b"c"})], {})
            it.call(it.getattr_(w, "write"), [it.call(D1, [], {"a": 3})], {})
            it.call(it.getattr_(w, "close"), [], {})
            t = db.tables.get("c18/ev")
            return t
        return th

    def judge_evolve(p):
        t = p.value
        if t is None:
            return False, "table missing"
        names = [c[0] for c in t["cols"]]
        if names != ["a", "_source", "_classification", "_generated", "_version", "b", "c"]:
            return False, f"columns after a same-name type gained fields: {names}"
        if len(t["rows"]) != 3:
            return False, f"{len(t['rows'])} rows for three records"
        r0, r1, r2 = t["rows"]
        if it.unbase(r0[5]) is not None or it.unbase(r1[5]) != "bb" or it.unbase(r1[6]) != b"c" or it.unbase(r2[0]) != 3 or it.unbase(r2[5]) is not None:
            return False, f"rows {t['rows']!r}"
        it.assume(z3.And(x >= -(2**63), x < 2**63, y >= -(2**63), y < 2**63))
        return z3.And(it.zint(r0[0]) == x, it.zint(r1[0]) == y), "values differ"

    for sessions in (1, 2):
        name = f"C18.evolve[same name gains fields, {sessions} writer session(s)]"
        pack.add(Obligation(name, lambda tier, name=name, sessions=sessions: prove_paths(name, th_evolve(sessions), judge_evolve, lambda m_, p: {}, allow_raise=("OverflowError",)), replay=lambda w, sessions=sessions: {"call": "c18_evolve", "args": {"sessions": sessions}}, functions=FU))

    # ------------------------------------------------------------------ batches: inductive step
    def th_batch_step(batch, new_type):
        def th():
            db = fresh()
            D = it.call(RD, ["c18/b", [("varint", "n")]], {})
            E = it.call(RD, ["c18/other", [("varint", "n")]], {})
            w = writer(batch)
            it.call(it.getattr_(w, "write"), [it.call(D, [], {"n": 0})], {})  # the table exists, its type is known to the writer
            it.assume(cnt >= 1)
            w.attrs["count"] = SInt(cnt)  # arbitrary position in the stream of records
            committed_before = {k: len(v["rows"]) for k, v in db.tables.items()}
            pending_before = {k: len(v["rows"]) for k, v in it.getattr_(w, "con").work.items()}
            ncommits = len(db.log)
            it.call(it.getattr_(w, "write"), [it.call(E if new_type else D, [], {"n": SInt(x)})], {})
            con = it.getattr_(w, "con")
            other = SqlCon(it, db)  # an independent connection
            tn = "c18/other" if new_type else "c18/b"
            try:
                visible = len(other.execute(f'SELECT * FROM "{tn}"').fetchall())
            except PyRaise:
                visible = None
            return {"in_tx": con.in_transaction, "count": w.attrs["count"], "commits": len(db.log) - ncommits, "committed_before": committed_before, "pending_before": pending_before,
                    "committed_now": {k: len(v["rows"]) for k, v in db.tables.items()}, "pending_now": {k: len(v["rows"]) for k, v in (con.work or {}).items()}, "visible": visible, "tn": tn}
        return th

    def judge_batch_step(batch, new_type):
        def judge(p):
            r = p.value
            it.assume(z3.And(x >= -(2**63), x < 2**63))
            if not r["in_tx"]:
                return False, "no transaction is open after write(): the next record would be committed on its own (or lost on close)"
            tn = r["tn"]
            if r["pending_now"].get(tn, 0) != r["pending_before"].get(tn, 0) + 1:
                return False, f"the open transaction does not hold exactly one more row of {tn}: {r['pending_before']} -> {r['pending_now']}"
            cz = it.zint(r["count"])
            at_boundary = (cnt + 1) % batch == 0
            # commits: one for a new type (before the insert, publishing everything pending), one when the batch is full (publishing the new row as well)
            full_commit = r["committed_now"].get(tn, 0) == r["pending_now"].get(tn, 0)
            conj = [cz == cnt + 1]
            if full_commit:
                conj.append(at_boundary)
            else:
                conj.append(z3.Not(at_boundary))
                if r["visible"] not in (None, r["committed_now"].get(tn, 0)) or (r["visible"] is not None and r["visible"] > r["pending_now"].get(tn, 0) - 1 and not new_type):
                    return False, f"another connection sees {r['visible']} rows while {r['committed_now'].get(tn, 0)} are committed"
            # (whether the writer commits when it meets a new record type is not demanded here: the statement wants whole batches only, the code commits
            #  there - see C18.batch.strict and the known finding)
            return z3.And(*conj), f"batch size {batch}: commit happened {'but should not' if full_commit else 'not although the batch is full'} (count before the write: symbolic), or the counter is wrong"
        return judge

    for batch in (1, 2, 3, 1000):
        for new_type in (False, True):
            name = f"C18.batch.step[batch size {batch}, {'new' if new_type else 'known'} record type, arbitrary count]"
            pack.add(Obligation(name, lambda tier, name=name, batch=batch, new_type=new_type: prove_paths(name, th_batch_step(batch, new_type), judge_batch_step(batch, new_type), lambda m_, p: {"count": model_value(m_, cnt)}, allow_raise=("OverflowError",)),
                                replay=lambda w, batch=batch: {"call": "c18_batches", "args": {"n": min(max((w.get("count") or 1) if isinstance(w.get("count"), int) else 1, 1), 40) + 2, "batch": batch}}, functions=FU,
                                mode="invariant step: symbolic record counter, one write; batch sizes 1, 2, 3, 1000"))

    def th_close(batch, n):
        def th():
            db = fresh()
            D = it.call(RD, ["c18/b", [("varint", "n"), ("string", "s")]], {})
            E = it.call(RD, ["c18/e", [("varint", "n")]], {})
            w = writer(batch)
            seen = []
            for i in range(n):
                r = it.call(E, [], {"n": i}) if i == 2 else it.call(D, [], {"n": i, "s": f"r{i}"})
                it.call(it.getattr_(w, "write"), [r], {})
                other = SqlCon(it, db)
                seen.append(sum(len(v["rows"]) for v in db.tables.values()))
            it.call(it.getattr_(w, "close"), [], {})
            return {k: [tuple(it.unbase(c) for c in row[:2]) for row in v["rows"]] for k, v in db.tables.items()}, seen
        return th

    def run_close(tier):
        total, ref = 0, None
        for batch in (1, 2, 3, 1000):
            for n in (0, 1, 2, 3, 5):
                res = it.explore(th_close(batch, n))
                total += len(res)
                for p in res:
                    if p.kind != "return":
                        return Result("x", "refuted", f"batch size {batch}, {n} records: raised {exc_text(p)}", paths=total, witness={"n": n, "batch": batch})
                    content, seen = p.value
                    want_d = [(i, f"r{i}") for i in range(n) if i != 2]
                    if content.get("c18/b", []) != want_d or (n > 2 and [r[0] for r in content.get("c18/e", [])] != [2]):
                        return Result("x", "refuted", f"batch size {batch}, {n} records: after close() the database holds {content!r}", paths=total, witness={"n": n, "batch": batch})
                    # commit points: before the first record of a new type and after every batch-th record
                    exp, committed = [], 0
                    types_seen = set()
                    for i in range(n):
                        tname = "e" if i == 2 else "b"
                        if tname not in types_seen:
                            types_seen.add(tname)
                            committed = i
                        if (i + 1) % batch == 0:
                            committed = i + 1
                        exp.append(committed)
                    strict = [((i + 1) // batch) * batch for i in range(n)]  # what the statement says: whole batches only
                    if seen != exp and seen != strict:
                        return Result("x", "refuted", f"batch size {batch}: rows visible to another connection after each write {seen}; whole batches give {strict} (with the commit in front of a new record type, see the known finding: {exp})", paths=total, witness={"n": n, "batch": batch})
        return Result("x", "proved", paths=total)

    # ---- the commit in close() fails once (another connection holds a lock: "database is locked"), the caller survives and closes again: everything is committed then
    def th_close_busy(batch, n, busy):
        def th():
            db = fresh()
            D = it.call(RD, ["c18/b", [("varint", "n"), ("string", "s")]], {})
            w = writer(batch)
            for i in range(n):
                it.call(it.getattr_(w, "write"), [it.call(D, [], {"n": i, "s": f"r{i}"})], {})
            db.busy_commits = busy
            errors = 0
            for attempt in range(busy + 1):
                try:
                    it.call(it.getattr_(w, "close"), [], {})
                    break
                except PyRaise as e:
                    errors += 1
                    if e.cls_name != "OperationalError":
                        raise
            return [tuple(it.unbase(c) for c in row[:2]) for row in db.tables.get("c18/b", {"rows": []})["rows"]], errors

        return th

    for batch, n, busy in ((1000, 3, 1), (4, 6, 1), (2, 1, 1)):
        name = f"C18.close.retry[batch size {batch}, {n} records, the commit of close() is refused {busy} time(s), the caller closes again]"
        pack.add(Obligation(name, lambda tier, name=name, batch=batch, n=n, busy=busy: prove_paths(name, th_close_busy(batch, n, busy), lambda p, n=n: (p.value[0] == [(i, f"r{i}") for i in range(n)], f"after close() finally succeeded the database holds {p.value[0]!r} ({p.value[1]} refused attempt(s)); written r0..r{n - 1}"), lambda m_, p: {}),
                            replay=lambda w, batch=batch, n=n, busy=busy: {"call": "c18_close_busy", "args": {"batch": batch, "n": n, "busy": busy}}, functions=FU, mode="concrete histories, fault injected into the connection model (assumed sqlite3 contract: a refused COMMIT leaves the transaction open)"))

    pack.add(Obligation("C18.batch.close[N in 0..5 x batch sizes 1, 2, 3, 1000]", run_close, replay=lambda w: {"call": "c18_batches", "args": {"n": w.get("n", 3), "batch": w.get("batch", 2)}}, functions=FU,
                        mode="concrete histories (a second record type in third position): content after close(), rows visible to an independent connection after every write"))

    def th_evolve_colliding(order):
        """two versions of one type name whose identifiers coincide (same unseparated field text): each gets its columns, each record its row"""
        def th():
            db = fresh()
            D1 = it.call(RD, ["c18/col", [("string", "host"), ("string", "name")]], {})
            D2 = it.call(RD, ["c18/col", [("string", "hoststringname")]], {})
            recs = [it.call(D1, [], {"host": "h", "name": "n"}), it.call(D2, [], {"hoststringname": "x"})]
            w = writer()
            out = []
            for r in (recs if order == "12" else recs[::-1]):
                try:
                    it.call(it.getattr_(w, "write"), [r], {})
                    out.append("written")
                except PyRaise as e:
                    out.append(f"raised {e.cls_name}")
            it.call(it.getattr_(w, "close"), [], {})
            t = db.tables.get("c18/col", {"cols": [], "rows": []})
            return out, sorted(c[0] for c in t["cols"] if not c[0].startswith("_")), len(t["rows"])
        return th

    for order in ("12", "21"):
        name = f"C18.evolve.colliding[two versions of one name with coinciding identifiers, order {order}]"
        pack.add(Obligation(name, lambda tier, name=name, order=order: prove_paths(name, th_evolve_colliding(order), lambda p: (p.value == (["written", "written"], ["host", "hoststringname", "name"], 2), f"writes {p.value[0]}, columns {p.value[1]}, rows {p.value[2]}")),
                            replay=lambda w, order=order: {"call": "c18_evolve_colliding", "args": {"order": order}}, functions=FU, mode="the representative colliding pair, both orders"))

    def th_refused(batch):
        def th():
            db = fresh()
            D = it.call(RD, ["c18/b", [("varint", "n"), ("string", "s")]], {})
            w = writer(batch)
            accepted = []
            for i, v in enumerate([0, 1, 2**80, 3, 4, -(2**70), 5]):
                try:
                    it.call(it.getattr_(w, "write"), [it.call(D, [], {"n": v, "s": f"r{i}"})], {})
                    accepted.append(v)
                except PyRaise:
                    pass
            it.call(it.getattr_(w, "close"), [], {})
            return accepted, [it.unbase(row[0]) for row in db.tables.get("c18/b", {"rows": []})["rows"]]
        return th

    for batch in (1, 2, 3, 1000):
        name = f"C18.batch.refused[batch size {batch}: records the database refuses between accepted ones]"
        pack.add(Obligation(name, lambda tier, name=name, batch=batch: prove_paths(name, th_refused(batch), lambda p: (p.value[0] == [0, 1, 3, 4, 5] and p.value[1] == [0, 1, 3, 4, 5], f"accepted n={p.value[0]}, stored after close n={p.value[1]}")),
                            replay=lambda w, batch=batch: {"call": "c18_refused", "args": {"batch": batch}}, functions=FU, mode="concrete history with two refused records, batch sizes 1, 2, 3, 1000"))

    def run_strict(tier):
        """the statement itself: another connection never sees part of a batch - also not when a new record type arrives in the middle of one"""
        res = it.explore(th_close(1000, 5))
        for p in res:
            if p.kind != "return":
                return Result("x", "refuted", f"raised {exc_text(p)}", paths=len(res))
            content, seen = p.value
            if seen != [0, 0, 0, 0, 0]:
                return Result("x", "refuted", f"batch size 1000, five records, the third one of a new type: rows visible to another connection after each write {seen} - a part of the batch is visible", paths=len(res), witness={"n": 5, "batch": 1000, "strict": True})
        return Result("x", "proved", paths=len(res))

    pack.add(Obligation("C18.batch.strict[a new record type arrives in the middle of a batch]", run_strict, replay=lambda w: {"call": "c18_batches", "args": {"n": 5, "batch": 1000, "strict": True}}, functions=FU, mode="the concrete history of the finding"))

    # ------------------------------------------------------------------ reading
    def th_read():
        db = fresh()
        db.tables = {"c18/all": {"cols": [(n, COLTYPES[n]) for _, n in FIELDS] + [(n, COLTYPES[n]) for n in ("_source", "_classification", "_generated", "_version")],
                                 "rows": [(SInt(x), SStr(sv), b"\x00\xff", 1.5, 1, TS.isoformat(), "/a/b", "1.2.3.4", "['a', 'b']", 7, None, None, GEN.isoformat(), 1), (None,) * 14]},
                     "sqlite/table": {"cols": [("n", "BIGINT")], "rows": [(1,), (2,)]}, "sqlite3x": {"cols": [("n", "BIGINT")], "rows": [(3,)]}}
        it.assume(z3.And(x >= -(2**63), x < 2**63))
        rd = it.call(sq.g["SqliteReader"], [PATH], {"batch_size": 1})
        return list(it.iterate(rd))

    def judge_read(p):
        out = p.value
        names = [it.getattr_(it.getattr_(o, "_desc"), "name") for o in out]
        if names != ["c18/all", "c18/all", "sqlite/table", "sqlite/table", "sqlite3x"]:
            return False, f"records read per table: {names}"
        a = out[0].attrs
        kinds = [it.type_name(a[k]) for k in ("n", "s", "b", "f", "ts")]
        if kinds != ["varint", "string", "bytes", "float", "datetime"] or it.unbase(a["b"]) != b"\x00\xff" or it.unbase(a["f"]) != 1.5 or it.unbase(a["ts"]) != TS or it.unbase(a["ts"]).utcoffset() != TS.utcoffset() or it.unbase(a["p"]) != "/a/b" or it.unbase(a["_generated"]) != GEN:
            return False, f"first row read back as kinds {kinds}: {a!r:.200}"
        if any(it.unbase(v) is not None for k, v in out[1].attrs.items() if k in ("n", "s", "b", "f", "ts")):
            return False, "a row of NULLs is not read as unset fields"
        if [it.unbase(o.attrs["n"]) for o in out[2:]] != [1, 2, 3]:
            return False, "row order"
        return z3.And(it.zint(a["n"]) == x, it.zstr(a["s"]) == sv), "integer / text value differs"

    pack.add(Obligation("C18.read[column kinds, NULL row, tables named sqlite...]", lambda tier: prove_paths("C18.read[column kinds, NULL row, tables named sqlite...]", th_read, judge_read, lambda m_, p: {"x": model_value(m_, x), "s": model_value(m_, sv)}),
                        replay=lambda w: {"call": "c18_names", "args": {"table": "sqlite/table", "field": "n"}}, functions=FU))

    # ------------------------------------------------------------------ canary / conformance / bounded
    def run_canary(tier):
        return prove_paths("C18.canary", th_batch_step(2, False), lambda p: (it.zint(p.value["count"]) == cnt, "canary: claims the counter does not move"), lambda m_, p: {}, allow_raise=("OverflowError",))

    pack.add(Obligation("C18.canary", run_canary, kind="canary"))

    def run_cross(tier):
        res = native_replay({"call": "c10_model_conformance", "args": {}})
        return Result("C18.cross", "proved" if res.get("ok") else "refuted", str(res.get("detail") or res.get("error") or "")[:300], paths=res.get("cases", 0))

    pack.add(Obligation("C18.cross", run_cross, kind="cross"))

    def run_sweep(tier):
        args = {"seed": seed, "n": 60 if tier == "quick" else 1200}
        res = native_replay({"call": "c18_sweep", "args": args}, timeout=3000)
        r = Result("C18.sqlite_sweep", "refuted" if res.get("violates") else ("proved" if "error" not in res else "error"), str(res.get("detail") or res.get("error") or "")[:300], paths=res.get("cases", 0))
        r.native, r.confirmed, r.request, r.witness = res, bool(res.get("violates")), {"call": "c18_sweep", "args": args}, res.get("witness")
        return r

    pack.add(Obligation("C18.sqlite_sweep", run_sweep, kind="bounded", note="native run with the real sqlite3 engine: random record sequences over SQLite-mappable values and valid type / field names (SQL keywords, '/', names starting with 'sqlite') x batch sizes x descriptor evolution "
                        "(also across writer sessions); an independent connection after every write (rows visible == commit points) and after close; read back by SqliteReader and by plain SQL; bound 60 (quick) / 1200 (thorough) histories", functions=FU))
    pack.assumptions += ["sqlite3 ghost-state model (pyvc/models/ext.py), sampled against the real engine by C18.cross: explicit transactions with isolation_level=None, visibility at COMMIT, close() discards the open transaction"]
    pack.not_covered = ["the SQLite engine itself (type affinity, storage of floats / large blobs)", "field and type names are representative (quoting is uniform: every identifier goes through the same f-string)", "batch sizes other than 1, 2, 3, 1000 in the inductive step (the modulus must be a constant for the solver)"]
    return pack

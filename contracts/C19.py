"""C19 - Avro export preserves supported values and never corrupts silently.

Contracts on the real adapter/avro.py with fastavro replaced by its ghost-state contract (schema-validated records, block buffer, header):

  schema        descriptor_to_schema maps every field through AVRO_TYPE_MAP (timestamps to a nullable timestamp-micros long) or raises for a type that is not mapped;
                the descriptor is embedded in `doc` and schema_to_descriptor(descriptor_to_schema(d)) has the name and field list of d (also for zero fields);
                a schema without an embedded descriptor is mapped field by field
  round trip    AvroWriter -> abstract container -> AvroReader: the same type name, field list and values per mapped type (symbolic 64-bit integers, 32-bit range for
                uint16/uint32, symbolic text; bytes / booleans / floats representative; timestamps as the same instant in UTC), unset fields stay unset
  refusal       an unmapped field type, an integer outside the schema's range, a second record type (also one of the same name) in one file: write() raises and
                the container holds nothing of that record - it is never written as a different value
"""
import datetime as _dt

import z3

from pyvc.models.ext import AvroBlock, AvroHeader

from .streamlib import *  # noqa

UTC = _dt.timezone.utc
MAPPED = {"boolean": "boolean", "datetime": "long", "filesize": "long", "uint16": "int", "uint32": "int", "float": "float", "string": "string", "unix_file_mode": "long", "varint": "long", "wstring": "string", "uri": "string", "bytes": "bytes"}
UNMAPPED = ["path", "command", "net.ipaddress", "net.ipnetwork", "string[]", "varint[]", "stringlist", "dictlist", "dynamic", "record", "net.tcp.Port", "net.ipv4.Address"]
TSV = [_dt.datetime(2020, 1, 2, 3, 4, 5, 6, tzinfo=UTC), _dt.datetime(1969, 12, 31, 23, 59, 59, 999999, tzinfo=UTC), _dt.datetime(9999, 12, 31, 23, 59, 59, 999999, tzinfo=UTC), _dt.datetime(1, 1, 1, tzinfo=UTC),
       _dt.datetime(1970, 1, 1, 0, 0, 1, tzinfo=UTC), _dt.datetime(2021, 7, 1, 12, 0, tzinfo=_dt.timezone(_dt.timedelta(hours=2)))]


def build(tier="quick", seed=0):
    it, L, base, pk, st = mods()
    av = L.import_module("flow.record.adapter.avro")
    pack = new_pack("C19", "Avro export preserves supported values and never corrupts silently")
    RD = base.g["RecordDescriptor"]
    FU = ("flow.record.adapter.avro:descriptor_to_schema", "flow.record.adapter.avro:schema_to_descriptor", "flow.record.adapter.avro:avro_type_to_flow_type", "flow.record.adapter.avro:AvroWriter.write", "flow.record.adapter.avro:AvroWriter.flush",
          "flow.record.adapter.avro:AvroWriter.close", "flow.record.adapter.avro:AvroReader.__init__", "flow.record.adapter.avro:AvroReader.__iter__", "flow.record.base:Record._packdict")
    x, y = z3.Int("x"), z3.Int("y")
    sv = z3.String("s")

    def fields_of(D):
        return [tuple(f) for f in it.call(it.getattr_(D, "get_field_tuples"), [], {})]

    # ------------------------------------------------------------------ constants + schema
    def th_map():
        return dict(av.g["AVRO_TYPE_MAP"])

    pack.add(Obligation("C19.typemap", lambda tier: prove_paths("C19.typemap", th_map, lambda p: ({k: v for k, v in p.value.items() if k != "digest"} == MAPPED, f"AVRO_TYPE_MAP differs from the documented mapping: {p.value}")), functions=FU, mode="structural",
                        replay=lambda w: {"call": "c19_sweep", "args": {"seed": 0, "n": 5}}))

    SHAPES = [[], [("varint", "n")], [("string", "s"), ("datetime", "ts"), ("bytes", "b")], [(t, f"f{i}") for i, t in enumerate(sorted(MAPPED))]]
    for fields in SHAPES:
        name = f"C19.schema[{len(fields)} fields: {', '.join(t for t, _ in fields)[:60]}]"

        def th(fields=fields):
            D = it.call(RD, ["c19/ns/rec", list(fields)], {})
            schema = it.call(av.g["descriptor_to_schema"], [D], {})
            D2 = it.call(av.g["schema_to_descriptor"], [schema], {})
            plain = dict(schema)
            plain.pop("doc", None)
            D3 = it.call(av.g["schema_to_descriptor"], [plain], {})  # a container written by another tool: no embedded descriptor
            return schema, it.getattr_(D2, "name"), fields_of(D2), it.getattr_(D3, "name"), fields_of(D3)

        def judge(p, fields=fields):
            schema, n2, f2, n3, f3 = p.value
            want_names = [n for _, n in fields] + ["_source", "_classification", "_generated", "_version"]
            sf = schema.get("fields", [])
            if [f["name"] for f in sf] != want_names or schema.get("type") != "record" or schema.get("name") != "rec" or schema.get("namespace") != "c19/ns":
                return False, f"schema {schema!r:.300}"
            for (t, n), f in zip(fields + [("string", "_source"), ("string", "_classification"), ("datetime", "_generated"), ("varint", "_version")], sf):
                want = [{"type": "long", "logicalType": "timestamp-micros"}, {"type": "null"}] if t == "datetime" else [MAPPED[t], "null"]
                if f["type"] != want:
                    return False, f"field {n} ({t}) has Avro type {f['type']!r}, the mapping gives {want!r}"
            if (n2, f2) != ("c19/ns/rec", fields):
                return False, f"the embedded descriptor is read back as {n2!r} {f2!r}"
            back = {"long": "varint", "int": "varint", "string": "string", "bytes": "bytes", "float": "float", "boolean": "boolean"}
            want3 = [("datetime" if t == "datetime" else back[MAPPED[t]], n) for t, n in fields]
            return (n3, f3) == ("c19/ns/rec", want3), f"a schema without an embedded descriptor maps to {n3!r} {f3!r}, expected {want3!r}"

        pack.add(Obligation(name, lambda tier, name=name, th=th, judge=judge: prove_paths(name, th, judge, lambda m_, p: {}), replay=lambda w, fields=fields: {"call": "c19_schema", "args": {"fields": [list(f) for f in fields]}}, functions=FU, mode="representative descriptor shapes incl. zero fields and one field of every mapped type"))

    # ------------------------------------------------------------------ round trip per mapped type
    def roundtrip(records):
        fp = AbsFile(it, mode="wb")
        w = it.call(av.g["AvroWriter"], [fp], {})
        for r in records:
            it.call(it.getattr_(w, "write"), [r], {})
        it.call(it.getattr_(w, "close"), [], {})
        rd = it.call(av.g["AvroReader"], [AbsFile(it, fp.content())], {})
        return list(it.iterate(rd)), fp

    def one(t, value_fn):
        def th():
            D = it.call(RD, ["c19/t", [(t, "x"), ("varint", "n")]], {})
            r = it.call(D, [], {"x": value_fn(), "n": 7})
            out, fp = roundtrip([r, r])
            return r, out
        return th

    def judge_same(p):
        r, out = p.value
        if len(out) != 2:
            return False, f"2 records written, {len(out)} read"
        conj = []
        for o in out:
            if fields_of(it.getattr_(o, "_desc")) != fields_of(it.getattr_(r, "_desc")) or it.getattr_(it.getattr_(o, "_desc"), "name") != "c19/t":
                return False, "type name / field list differ"
            for k in ("x", "n", "_source", "_classification", "_version"):
                g, why = obs_eq(deep_obs(it, r.attrs[k]), deep_obs(it, o.attrs[k]), k)
                if g is False:
                    return False, why
                if g is not True:
                    conj.append(g)
            a, b = it.unbase(r.attrs["_generated"]), it.unbase(o.attrs["_generated"])
            if a.astimezone(UTC) != b.astimezone(UTC) or b.utcoffset() != _dt.timedelta(0):
                return False, "_generated is not the same instant in UTC"
        return (z3.And(*conj) if conj else True), "a value differs"

    INT_RANGES = {"varint": (-(2**63), 2**63 - 1), "filesize": (-(2**63), 2**63 - 1), "unix_file_mode": (-(2**63), 2**63 - 1), "uint16": (0, 0xFFFF), "uint32": (0, 2**31 - 1)}
    for t, (lo, hi) in INT_RANGES.items():
        name = f"C19.type[{t}, any integer in {lo}..{hi}]"
        pack.add(Obligation(name, lambda tier, name=name, t=t, lo=lo, hi=hi: prove_paths(name, one(t, lambda: (it.assume(z3.And(x >= lo, x <= hi)), SInt(x))[1]), judge_same, lambda m_, p: {"x": model_value(m_, x)}),
                            replay=lambda w, t=t: {"call": "c19_value", "args": {"ftype": t, "src": repr(w.get("x", 0) if isinstance(w.get("x"), int) else 0)}}, functions=FU))
    for t in ("string", "wstring", "uri"):
        name = f"C19.type[{t}, any text]"  # (text that has no UTF-8 form - a lone surrogate - is REFUSED with UnicodeEncodeError: written as it is or refused, see also C19.refuse.carry_on[text ...])
        pack.add(Obligation(name, lambda tier, name=name, t=t: prove_paths(name, one(t, lambda: SStr(sv)), judge_same, lambda m_, p: {"s": model_value(m_, sv)}, allow_raise=("UnicodeEncodeError",)), replay=lambda w, t=t: {"call": "c19_value", "args": {"ftype": t, "src": repr(w.get("s", "") if isinstance(w.get("s"), str) else "")}}, functions=FU))
    for t, srcs in (("bytes", [b"", b"\x00\xff", bytes(range(256))]), ("boolean", [True, False]), ("float", [0.0, 1.5, -2.25, 16777216.0, 16777218.0, 123456.7890625, 0.333333343267440796, 1.17549435e-38]), ("datetime", TSV)):
        for v in srcs:
            name = f"C19.value[{t}, {v!r}]"

            def thv(t=t, v=v):
                D = it.call(RD, ["c19/t", [(t, "x"), ("varint", "n")]], {})
                r = it.call(D, [], {"x": v, "n": 7})
                out, fp = roundtrip([r, r])
                if t == "datetime":
                    ok = all(it.unbase(o.attrs["x"]).utcoffset() == _dt.timedelta(0) and it.unbase(o.attrs["x"]).replace(tzinfo=None) == v.replace(tzinfo=None) - v.utcoffset() and it.type_name(o.attrs["x"]) == "datetime" for o in out)
                    return ok and len(out) == 2, [repr(it.unbase(o.attrs["x"])) for o in out]
                return len(out) == 2 and all(it.type_name(o.attrs["x"]) == it.type_name(r.attrs["x"]) and it.unbase(o.attrs["x"]) == v for o in out), [repr(it.unbase(o.attrs["x"])) for o in out]

            pack.add(Obligation(name, lambda tier, name=name, thv=thv: prove_paths(name, thv, lambda p: (p.value[0] is True, f"read back {p.value[1]}")), replay=lambda w, t=t, v=v: {"call": "c19_value", "args": {"ftype": t, "src": repr(v) if t != "datetime" else f"datetime.datetime.fromisoformat({v.isoformat()!r})"}},
                                functions=FU, mode="representative value"))
    # text that is not plain ASCII - valid UTF-8 and text made from undecodable bytes (surrogate escapes): written as it is, or refused; never replaced
    for t in ("string", "wstring", "uri"):
        for v in ("caf\udce9.txt", "\u00e9\u20ac \U0001f600", "\udcff", "plain"):
            name = f"C19.value[{t}, {v!r}]"

            def thv(t=t, v=v):
                D = it.call(RD, ["c19/t", [(t, "x"), ("varint", "n")]], {})
                r = it.call(D, [], {"x": v, "n": 7})
                out, fp = roundtrip([r, r])
                return len(out) == 2 and all(it.unbase(o.attrs["x"]) == v for o in out), [repr(it.unbase(o.attrs["x"])) for o in out]

            pack.add(Obligation(name, lambda tier, name=name, thv=thv: prove_paths(name, thv, lambda p: (p.value[0] is True, f"read back {p.value[1]}"), lambda m_, p: {}, allow_raise=("UnicodeEncodeError",)), replay=lambda w, t=t, v=v: {"call": "c19_value", "args": {"ftype": t, "src": repr(v), "may_refuse": True}},
                                functions=FU, mode="representative value"))
    for t in MAPPED:
        name = f"C19.unset[{t}]"
        pack.add(Obligation(name, lambda tier, name=name, t=t: prove_paths(name, one(t, lambda: None), judge_same, lambda m_, p: {}), replay=lambda w, t=t: {"call": "c19_value", "args": {"ftype": t, "src": "None"}}, functions=FU, mode="representative value"))

    # ------------------------------------------------------------------ refusal
    def container_records(fp):
        return sum(len(s_.records) for s_ in fp.content() if isinstance(s_, AvroBlock))

    for t in UNMAPPED + ["digest"]:
        name = f"C19.refuse[field type {t}]"

        def thr(t=t):
            D = it.call(RD, ["c19/t", [(t, "x"), ("varint", "n")]], {})
            r = it.call(D, [], {"n": 7})
            fp = AbsFile(it, mode="wb")
            w = it.call(av.g["AvroWriter"], [fp], {})
            try:
                it.call(it.getattr_(w, "write"), [r], {})
                outcome = "written"
            except PyRaise as e:
                outcome = "raised " + e.cls_name
            try:
                it.call(it.getattr_(w, "close"), [], {})
            except PyRaise:
                pass
            return outcome, container_records(fp)

        pack.add(Obligation(name, lambda tier, name=name, thr=thr, t=t: prove_paths(name, thr, lambda p: (p.value[0].startswith("raised") and p.value[1] == 0, f"a record with a {t} field: {p.value[0]}, {p.value[1]} record(s) in the container")),
                            replay=lambda w, t=t: {"call": "c19_refuse", "args": {"ftype": t}}, functions=FU, mode="every field type outside the Avro mapping"))

    def th_range(t, cond):
        def th():
            D = it.call(RD, ["c19/t", [(t, "x")]], {})
            it.assume(cond)
            r = it.call(D, [], {"x": SInt(x)})
            fp = AbsFile(it, mode="wb")
            w = it.call(av.g["AvroWriter"], [fp], {})
            try:
                it.call(it.getattr_(w, "write"), [r], {})
                outcome = "written"
            except PyRaise as e:
                outcome = "raised " + e.cls_name
            it.call(it.getattr_(w, "close"), [], {})
            return outcome, container_records(fp)
        return th

    for t, cond, what in (("varint", z3.Or(x < -(2**63), x > 2**63 - 1), "outside 64 bits"), ("uint32", z3.And(x > 2**31 - 1, x <= 0xFFFFFFFF), "above the Avro int range"), ("filesize", x > 2**63 - 1, "above 64 bits")):
        name = f"C19.refuse[{t} {what}]"
        pack.add(Obligation(name, lambda tier, name=name, t=t, cond=cond: prove_paths(name, th_range(t, cond), lambda p: (p.value[0].startswith("raised") and p.value[1] == 0, f"{p.value[0]}, {p.value[1]} record(s) in the container"), lambda m_, p: {"x": model_value(m_, x)}),
                            replay=lambda w, t=t: {"call": "c19_refuse", "args": {"ftype": t, "value": w.get("x") if isinstance(w.get("x"), int) else 2**70}}, functions=FU))

    def th_carry_on(t, cond, pos):
        """an accepted record, a record refused at field number `pos`, an accepted record: the container must hold exactly the two accepted records"""
        def th():
            D = it.call(RD, ["c19/t", [("string", "s"), (t, "x")] if pos == 1 else [(t, "x"), ("string", "s")]], {})
            it.assume(cond)
            fp = AbsFile(it, mode="wb")
            w = it.call(av.g["AvroWriter"], [fp], {})
            it.call(it.getattr_(w, "write"), [it.call(D, [], {"s": "first", "x": 1})], {})
            try:
                it.call(it.getattr_(w, "write"), [it.call(D, [], {"s": "refused", "x": SInt(x)})], {})
                outcome = "written"
            except PyRaise as e:
                outcome = "raised"
            it.call(it.getattr_(w, "write"), [it.call(D, [], {"s": "third", "x": 3})], {})
            it.call(it.getattr_(w, "close"), [], {})
            try:
                rd = it.call(av.g["AvroReader"], [AbsFile(it, fp.content())], {})
                back = [(it.unbase(o.attrs["s"]), it.unbase(o.attrs["x"])) for o in it.iterate(rd)]
            except PyRaise as e:
                back = f"reading raised {e.cls_name}"
            return outcome, back
        return th

    for t, cond, what in (("varint", z3.Or(x < -(2**63), x > 2**63 - 1), "outside 64 bits"), ("uint32", z3.And(x > 2**31 - 1, x <= 0xFFFFFFFF), "above the Avro int range")):
        for pos in (0, 1):
            name = f"C19.refuse.carry_on[{t} {what}, field {pos}]"
            pack.add(Obligation(name, lambda tier, name=name, t=t, cond=cond, pos=pos: prove_paths(name, th_carry_on(t, cond, pos), lambda p: (p.value == ("raised", [("first", 1), ("third", 3)]), f"refused record between two accepted ones: {p.value[0]}, read back {p.value[1]}"), lambda m_, p: {"x": model_value(m_, x)}),
                                replay=lambda w, t=t, pos=pos: {"call": "c19_carry_on", "args": {"ftype": t, "pos": pos, "value": w.get("x") if isinstance(w.get("x"), int) else 2**70 if t == "varint" else 2**31}}, functions=FU))

    def th_carry_on_text(pos):
        """the same with a record whose TEXT cannot be encoded (a lone surrogate passes every type check; Avro text is UTF-8)"""
        def th():
            D = it.call(RD, ["c19/t", [("varint", "x"), ("string", "s"), ("uri", "u")] if pos == 1 else [("string", "s"), ("varint", "x"), ("uri", "u")]], {})
            fp = AbsFile(it, mode="wb")
            w = it.call(av.g["AvroWriter"], [fp], {})
            it.call(it.getattr_(w, "write"), [it.call(D, [], {"s": "first", "x": 1, "u": "http://a"})], {})
            try:
                it.call(it.getattr_(w, "write"), [it.call(D, [], {"s": "bad \ud800" if pos != 2 else "fine", "x": 2, "u": "http://b/\udfff" if pos == 2 else "http://b"})], {})
                outcome = "written"
            except PyRaise as e:
                outcome = "raised"
            it.call(it.getattr_(w, "write"), [it.call(D, [], {"s": "third", "x": 3, "u": "http://c"})], {})
            it.call(it.getattr_(w, "close"), [], {})
            try:
                rd = it.call(av.g["AvroReader"], [AbsFile(it, fp.content())], {})
                back = [(it.unbase(o.attrs["s"]), it.unbase(o.attrs["x"])) for o in it.iterate(rd)]
            except PyRaise as e:
                back = f"reading raised {e.cls_name}"
            return outcome, back
        return th

    for pos in (0, 1, 2):
        name = f"C19.refuse.carry_on[text with a lone surrogate, {'in the last (uri) field' if pos == 2 else 'field %d' % pos}]"
        pack.add(Obligation(name, lambda tier, name=name, pos=pos: prove_paths(name, th_carry_on_text(pos), lambda p: (p.value == ("raised", [("first", 1), ("third", 3)]), f"refused record between two accepted ones: {p.value[0]}, read back {p.value[1]}"), lambda m_, p: {}),
                            replay=lambda w, pos=pos: {"call": "c19_carry_on_text", "args": {"pos": pos}}, functions=FU))

    def th_ts_unrepresentable(iso):
        """a timestamp whose UTC form lies outside years 1..9999 has no timestamp-micros reading: it must be refused, the container stays readable"""
        def th():
            D = it.call(RD, ["c19/t", [("string", "s"), ("datetime", "ts")]], {})
            fp = AbsFile(it, mode="wb")
            w = it.call(av.g["AvroWriter"], [fp], {})
            it.call(it.getattr_(w, "write"), [it.call(D, [], {"s": "first", "ts": _dt.datetime(2020, 1, 2, tzinfo=UTC)})], {})
            try:
                it.call(it.getattr_(w, "write"), [it.call(D, [], {"s": "refused", "ts": _dt.datetime.fromisoformat(iso)})], {})
                outcome = "written"
            except PyRaise as e:
                outcome = "raised"
            it.call(it.getattr_(w, "close"), [], {})
            try:
                rd = it.call(av.g["AvroReader"], [AbsFile(it, fp.content())], {})
                back = [it.unbase(o.attrs["s"]) for o in it.iterate(rd)]
            except PyRaise as e:
                back = f"reading raised {e.cls_name}"
            return outcome, back
        return th

    for iso in ("0001-01-01T00:30:00+01:00", "9999-12-31T23:30:00-01:00", "0001-01-01T00:00:00.000001+00:00:01"):
        name = f"C19.refuse[timestamp {iso}, no UTC form within years 1..9999]"
        pack.add(Obligation(name, lambda tier, name=name, iso=iso: prove_paths(name, th_ts_unrepresentable(iso), lambda p: (p.value == ("raised", ["first"]), f"timestamp without a UTC form: {p.value[0]}, read back {p.value[1]}")),
                            replay=lambda w, iso=iso: {"call": "c19_ts_unrepresentable", "args": {"iso": iso}}, functions=FU, mode="boundary values"))

    # the container goes to standard output: close() alone (no with-block, no flush) still hands every buffered record to the stream (which stays open)
    def th_stdout():
        D = it.call(RD, ["c19/t", [("string", "s"), ("varint", "n")]], {})
        out_text, out_bin = AbsFile(it, mode="w", name="<stdout>"), AbsFile(it, mode="wb", name="<stdout.buffer>")
        out_text.buffer = out_bin
        L.module_models["sys"].stdout = out_text
        try:
            w = it.call(av.g["AvroWriter"], ["-"], {})
            for i in range(3):
                it.call(it.getattr_(w, "write"), [it.call(D, [], {"s": f"r{i}", "n": i})], {})
            it.call(it.getattr_(w, "close"), [], {})
        finally:
            del L.module_models["sys"].stdout
        try:
            rd = it.call(av.g["AvroReader"], [AbsFile(it, out_bin.content())], {})
            back = [it.unbase(o.attrs["s"]) for o in it.iterate(rd)]
        except PyRaise as e:
            back = f"reading raised {e.cls_name}"
        return back, out_bin.closed

    pack.add(Obligation("C19.stdout[three records, close() without flush]", lambda tier: prove_paths("C19.stdout[three records, close() without flush]", th_stdout, lambda p: (p.value == (["r0", "r1", "r2"], False), f"an Avro container written to standard output and closed holds {p.value[0]} (stdout closed: {p.value[1]})")),
                        replay=lambda w: {"call": "c19_stdout", "args": {}}, functions=FU, mode="concrete history"))

    def th_mixed(same_name):
        def th():
            A = it.call(RD, ["c19/a", [("varint", "n")]], {})
            B = it.call(RD, ["c19/a" if same_name else "c19/b", [("varint", "n"), ("string", "s")] if same_name else [("varint", "n")]], {})
            fp = AbsFile(it, mode="wb")
            w = it.call(av.g["AvroWriter"], [fp], {})
            it.call(it.getattr_(w, "write"), [it.call(A, [], {"n": 1})], {})
            outcomes = []
            for attempt in range(3):  # the caller carries on after the refusal and offers records of the second type again
                try:
                    it.call(it.getattr_(w, "write"), [it.call(B, [], {"n": 2 + attempt})], {})
                    outcomes.append("written")
                except PyRaise as e:
                    outcomes.append("raised " + e.cls_name)
            it.call(it.getattr_(w, "close"), [], {})
            return ("raised Exception" if all(o == "raised Exception" for o in outcomes) else str(outcomes)), container_records(fp)
        return th

    for same in (False, True):
        name = f"C19.refuse[second record type, {'same name other fields' if same else 'other name'}]"
        pack.add(Obligation(name, lambda tier, name=name, same=same: prove_paths(name, th_mixed(same), lambda p: (p.value == ("raised Exception", 1), f"a second record type in one file: {p.value[0]}, {p.value[1]} record(s) in the container")),
                            replay=lambda w, same=same: {"call": "c19_mixed", "args": {"same_name": same}}, functions=FU))

    # ------------------------------------------------------------------ canary / conformance / bounded
    def run_canary(tier):
        return prove_paths("C19.canary", one("uint32", lambda: (it.assume(z3.And(x >= 0, x <= 0xFFFFFFFF)), SInt(x))[1]), judge_same, lambda m_, p: {}, allow_raise=())  # deliberately too wide: values above 2**31-1 are refused

    pack.add(Obligation("C19.canary", run_canary, kind="canary"))

    def run_cross(tier):
        res = native_replay({"call": "c10_model_conformance", "args": {}})
        return Result("C19.cross", "proved" if res.get("ok") else "refuted", str(res.get("detail") or res.get("error") or "")[:300], paths=res.get("cases", 0))

    pack.add(Obligation("C19.cross", run_cross, kind="cross"))

    def run_sweep(tier):
        args = {"seed": seed, "n": 80 if tier == "quick" else 1500}
        res = native_replay({"call": "c19_sweep", "args": args}, timeout=3000)
        r = Result("C19.avro_sweep", "refuted" if res.get("violates") else ("proved" if "error" not in res else "error"), str(res.get("detail") or res.get("error") or "")[:300], paths=res.get("cases", 0))
        r.native, r.confirmed, r.request, r.witness = res, bool(res.get("violates")), {"call": "c19_sweep", "args": args}, res.get("witness")
        return r

    pack.add(Obligation("C19.avro_sweep", run_sweep, kind="bounded", note="native run with the real fastavro: random descriptors over the Avro-mapped types x boundary / random values incl. None: a standard Avro reader opens the container, the descriptor and the values come back "
                        "(floats to single precision, timestamps as UTC instants); unmappable types / out-of-range integers / mixed types raise and nothing of the refused record is in the file; bound 80 (quick) / 1500 (thorough) cases", functions=FU))
    pack.assumptions += ["fastavro ghost-state model (pyvc/models/ext.py): schema validation of every value (int / long ranges, string, bytes, boolean, float, timestamp-micros), records buffered until flush, reader yields what was flushed; "
                         "timestamp-micros returns the same instant as an aware UTC datetime; sampled against the real package by C19.cross and the bounded sweep", "json tree model for the embedded descriptor"]
    pack.not_covered = ["single-precision rounding of floats and the binary container layout (fastavro's)", "codecs (snappy / deflate)"]
    return pack

"""C07 - both selector engines compute the Python meaning of the expression.

Interpreter correctness by structural induction, on the real flow/record/selector.py:

  RecordContextMatcher.eval(child)   induction hypothesis:  result == sem(child)      (the contract that replaces the recursive call)
  RecordContextMatcher._eval(node)   per node kind K:       result == sem_K(node)     (truth value for and/or)
  AST_OPERATORS / AST_COMPARATORS    every entry is the `operator` function the language reference assigns to the AST class
  CompiledSelector.match             evaluates the expression with Python itself in a namespace of exactly the helpers, `net`, `r`, `Type`

`sem` is Python's own meaning of the node: the same abstract node evaluated by pyvc's expression semantics (language reference:
left-to-right, short-circuit and/or, chained comparison, data-model dispatch) over the same abstract leaf values.  Leaves are *opaque* values
(uninterpreted py_cmp / py_bin / py_truth / py_getattr), so one obligation covers operands of every type and value, and - by the induction
hypothesis - arbitrarily nested sub-expressions.  Operator choice and arity (1..3 links, 2..4 and/or operands, 0..3 elements) are a finite
case analysis.  Whole expressions over a record with symbolic field values are additionally proved equivalent in both engines.
"""
import ast
import operator

import z3

from .common import *  # noqa

CMP_OPS = {"==": ast.Eq, "!=": ast.NotEq, "<": ast.Lt, "<=": ast.LtE, ">": ast.Gt, ">=": ast.GtE, "in": ast.In, "not in": ast.NotIn, "is": ast.Is, "is not": ast.IsNot}
BIN_OK = {"+": ast.Add, "*": ast.Mult, "/": ast.Div, "%": ast.Mod, "&": ast.BitAnd, "|": ast.BitOr}
BIN_REJECT = {"-": ast.Sub, "//": ast.FloorDiv, "**": ast.Pow, "<<": ast.LShift, ">>": ast.RShift, "^": ast.BitXor, "@": ast.MatMult}
EXPECTED_OPERATORS = {"Add": operator.add, "Mult": operator.mul, "Div": operator.truediv, "And": operator.and_, "Or": operator.or_, "Not": operator.not_, "Mod": operator.mod, "BitAnd": operator.and_, "BitOr": operator.or_}
EXPECTED_COMPARATORS = {"Eq": operator.eq, "NotEq": operator.ne, "Gt": operator.gt, "Lt": operator.lt, "GtE": operator.ge, "LtE": operator.le, "Is": operator.is_, "IsNot": operator.is_not}

FIELDS = [("varint", "n"), ("varint", "m"), ("string", "s"), ("string", "t"), ("boolean", "flag"), ("string[]", "sl"), ("float", "f"), ("string", "unset"), ("uint16", "port"), ("net.ipaddress", "ip"), ("net.ipnetwork", "net"), ("bytes", "b")]

# whole expressions over symbolic field values: interpreted engine == compiled engine == Python (expression text, all sub-expressions defined)
EXPRESSIONS = [
    "r.n < r.m", "r.n <= r.m", "r.n == r.m", "r.n != r.m", "r.n > r.m", "r.n >= r.m", "1 < r.n < 3", "r.n < r.m < 10", "0 <= r.n <= r.m <= 100", "r.n == r.m != 5", "r.n < r.m > 3", "r.n in [1, 2, r.m]",
    "r.n not in (1, 2)", "r.n + r.m == 10", "r.n * 2 > r.m", "r.n % 3 == 1", "r.n & 4 == 4", "(r.n | 1) == r.m", "r.n / 2 > 1", "not r.n == 1", "not (r.n < r.m)", "r.n == 1 and r.m == 2", "r.n == 1 or r.m == 2",
    "r.n == 1 and r.m == 2 or r.s == 'x'", "r.n == 1 and (r.m == 2 or r.s == 'x')", "r.n and r.m", "r.n or r.m", "r.s == 'abc'", "r.s != r.t", "'ab' in r.s", "r.s in ['a', 'b', r.t]", "r.s == r.t", "r.flag", "not r.flag",
    "r.flag and r.n > 0", "r.flag == True", "r.unset == None", "r.unset is None", "r.unset is not None", "r.n is None", "r.sl == ['a', 'b']", "'a' in r.sl", "r.f > 1.0", "r.port == 80 or r.port == 443", "r.port in (80, 443)",
    "name(r) == 'c07/rec'", "'c07/rec' in names(r)", "has_field(r, 'n')", "has_field(r, 'zz')", "upper(r.s) == 'X'", "lower(r.s) == lower(r.t)", "r.ip == '1.2.3.4'", "r.ip in r.net", "'10.0.0.1' in r.net",
    "field_equals(r, ['s', 't'], ['abc'], nocase=False)", "field_contains(r, ['s'], ['b'], nocase=False)", "any(x == 'a' for x in r.sl)", "all(x != 'z' for x in r.sl)", "any(x == r.s for x in r.sl)",
    "any(x + y == 'ab' for x in r.sl for y in r.sl)", "any(x == 'b' for x in r.sl if x != 'b')", "all(x == 'a' for x in r.sl if x == 'a')", "any(x + y == 'ba' for x in r.sl if x == 'a' for y in r.sl if y != x)", "any(x == r.s for x in r.sl if r.n > 1)", "str(r.n) == '5'", "repr(r.s) == repr(r.t)", "r.n == 1 and not (r.m == 2) or r.n != 1 and r.m == 2", "(r.n, r.m) == (1, 2)", "[r.n, r.m] == [1, 2]", "(r.n,) == (1,)", "r.b == b'ab'",
    "Type.varint == 5", "Type.varint > r.n", "Type.string == 'abc'", "'ab' in Type.string", "Type.varint <= 5", "Type.varint >= 5", "Type.varint != 5", "Type.uint16 == 80", "net.ipaddress('1.2.3.4') == r.ip", "string('x') == r.s", "varint(5) == r.n",
    "str(path('/a/b')) == '/a/b'", "uint16(80) == r.port", "filesize(5) > 1", "uri('http://h/p') == 'http://h/p'", "net.ipnetwork('10.0.0.0/8') == r.net", "wstring('x') == r.s", "uint32(80) == r.port", "boolean(1) == r.flag",
    "True", "False", "None", "1", "0", "'x'", "''", "[]", "[0]", "()", "1 == 1", "1 < 2 < 3", "3 > 2 > 2",
    # the text of a literal is taken as it is written: runs of blanks, tabs, line breaks and no-break spaces inside quotes belong to the value
    # the reserved fields are fields like any other; an unset field holds None, which takes part in typed matching like any other value
    "r._version == 1", "r._source == None", "r._classification is None", "r._source != 'x'", "r._version >= r.n", "Type.string == None", "Type.string != 'abc'", "None in [Type.string]",
    "Type.string in ['abc', 'x']", "Type.string not in ['abc']", "Type.varint in (5, 6)", "Type.varint not in [5]", "not (Type.string in ['abc'])",
    # the VALUE of and / or is the operand that decides it: it matters wherever the result is compared, added to or handed to a helper
    "(r.s or r.t) == 'x'", "(r.n or 7) + 1 == 8", "(r.s and r.t) == r.t", "(r.n and r.m) == 0", "(r.n or r.m) > 5", "upper(r.s or r.t) == 'X'", "(r.unset or r.s) == r.s", "(r.flag and r.n) in [0, 1, 2]", "[r.n or 1] == [1]",
    "r.s == 'a  b'", "'  ' in r.s", "r.s == 'a\tb'", "r.s   ==   'a b'", "r.s == '''a\nb'''", "r.s == 'a\xa0b'", "r.s in ['x  y', ' z ']",
]
REJECTED = ["lambda: 1", "{1: 2}", "{1, 2}", "r.n if r.m else 1", "r.sl[0] == 'a'", "f'{r.n}'", "[x for x in r.sl]", "{x for x in r.sl}", "(y := 1)", "r.n - 1", "r.n // 2", "r.n ** 2", "r.n << 1", "r.n >> 1", "r.n ^ 1", "-r.n", "+r.n", "~r.n", "*r.sl", "r.n.__class__"]


def build(tier="quick", seed=0):
    it, L = engine()
    sel = L.import_module("flow.record.selector")
    base = L.import_module("flow.record.base")
    pack = new_pack("C07", "Both selector engines compute the Python meaning of the expression")
    RCM = sel.g["RecordContextMatcher"]
    RD = base.g["RecordDescriptor"]
    FU = ("flow.record.selector:RecordContextMatcher._eval", "flow.record.selector:RecordContextMatcher.eval", "flow.record.selector:RecordContextMatcher.matches", "flow.record.selector:Selector.match",
          "flow.record.selector:CompiledSelector.match", "flow.record.selector:CompiledSelector.__init__", "flow.record.selector:WrappedRecord.__getattr__", "flow.record.selector:AST_OPERATORS", "flow.record.selector:AST_COMPARATORS",
          "flow.record.selector:resolve_attr_path", "flow.record.selector:TypeMatcher.__getattr__", "flow.record.selector:TypeMatcherInstance.__getattr__", "flow.record.selector:TypeMatcherInstance._op", "flow.record.selector:TypeMatcherInstance._values",
          "flow.record.selector:lower", "flow.record.selector:upper", "flow.record.selector:name", "flow.record.selector:names", "flow.record.selector:has_field", "flow.record.selector:field_equals", "flow.record.selector:field_contains")
    SEM = {}
    py_call = z3.Function("py_call", PyVal, PySeq, PyVal)

    def c_eval(it_, fn, args, kwargs):
        """Contract of RecordContextMatcher.eval used inside _eval obligations: abstract leaves evaluate to their (opaque) meaning."""
        self_, node = args
        if isinstance(node, ast.Name) and node.id in SEM:
            return SEM[node.id]
        return it_.call(it_.getattr_(self_, "_eval"), [node], {})

    def leaf(nme):
        o = Opaque("sem_" + nme, z3.Const("sem_" + nme, PyVal))
        o.inst_facts["*"] = True  # a plain value: not an instance of any repository class (in particular not the missing-field sentinel: that is C08)
        return o

    def abstract_fn(nme):
        f = z3.Const("fn_" + nme, PyVal)

        def call(*a, **k):
            units = [z3.Unit(it.pyval(x)) for x in list(a) + [v for _, v in sorted(k.items())]]
            seq = z3.Empty(PySeq) if not units else units[0] if len(units) == 1 else z3.Concat(*units)
            return Opaque("call", py_call(f, seq))

        return call

    def truthterm(v):
        if isinstance(v, SBool):
            return v.t
        if isinstance(v, Opaque):
            return py_truth(v.t)
        return z3.BoolVal(bool(it.truth(v)))

    def same_value(a, b):
        """z3 Bool: the two interpreter values are the same Python value (type, structure, contents)."""
        if isinstance(a, Opaque) and isinstance(b, Opaque):
            return a.t == b.t
        if isinstance(a, (SBool, bool)) and isinstance(b, (SBool, bool)):
            return it.zbool(a) == it.zbool(b)
        if isinstance(a, (list, tuple)) or isinstance(b, (list, tuple)):
            if type(a) is not type(b) or len(a) != len(b):
                return z3.BoolVal(False)
            return z3.And([same_value(x, y) for x, y in zip(a, b)]) if a else z3.BoolVal(True)
        if isinstance(a, Sym) or isinstance(b, Sym):
            pa, pb = it.pyval(a), it.pyval(b)
            return pa == pb
        return z3.BoolVal(type(a) is type(b) and a == b)

    def node_obligation(name, src, names, mode="value", fns=()):
        node = ast.parse(src, mode="eval").body

        def th():
            SEM.clear()
            for nme in names:
                SEM[nme] = leaf(nme)
            it.contracts["RecordContextMatcher.eval"] = c_eval
            try:
                m = PObj(RCM)
                m.attrs.update({"data": {}, "functions": {f: abstract_fn(f) for f in fns}, "rec": None, "expression_str": src, "selector_backtrace_verbosity": 3, "selector_backtrace": []})
                try:
                    impl = ("val", it.call(it.getattr_(m, "_eval"), [node], {}))
                except PyRaise as e:
                    impl = ("raise", e.cls_name)
                env = dict(SEM)
                env.update(m.attrs["functions"])
                try:
                    spec = ("val", it.eval(node, env, sel))
                except PyRaise as e:
                    spec = ("raise", e.cls_name)
                return impl, spec
            finally:
                it.contracts.pop("RecordContextMatcher.eval", None)

        def judge(p):
            impl, spec = p.value
            if impl[0] != spec[0]:
                return False, f"{src!r}: implementation {impl}, Python {spec}"
            if impl[0] == "raise":
                return True
            if mode == "truth":
                return truthterm(impl[1]) == truthterm(spec[1]), f"{src!r}: implementation gives {impl[1]!r}, Python gives {spec[1]!r}"
            return same_value(impl[1], spec[1]), f"{src!r}: implementation gives {impl[1]!r}, Python gives {spec[1]!r}"

        def run(tier):
            return prove_paths(name, th, judge, lambda m, p: {"src": src, "names": list(names), "path": [str(c)[:120] for c in p.pc][:8]})

        return Obligation(name, run, replay=lambda w: {"call": "c07_shape", "args": {"src": w["src"], "names": w["names"], "seed": seed}}, functions=FU[:2], mode="induction step, abstract operands")

    letters = "abcd"
    # Compare: one, two and three links
    ops = list(CMP_OPS)
    for o1 in ops:
        pack.add(node_obligation(f"C07.node[Compare,{o1}]", f"a {o1} b", "ab"))
    for o1 in ops:
        for o2 in ops:
            pack.add(node_obligation(f"C07.node[Compare,{o1},{o2}]", f"a {o1} b {o2} c", "abc", mode="truth"))
    for o1, o2, o3 in [("<", "<", "<"), ("<=", "<", "=="), ("==", "!=", "in"), (">", ">=", "is"), ("in", "not in", "<"), ("!=", "==", ">")]:
        pack.add(node_obligation(f"C07.node[Compare,{o1},{o2},{o3}]", f"a {o1} b {o2} c {o3} d", "abcd", mode="truth"))
    for op in ("and", "or"):
        for k in (2, 3, 4):
            pack.add(node_obligation(f"C07.node[BoolOp,{op},{k}]", f" {op} ".join(letters[:k]), letters[:k]))  # the value, not only its truth: the induction hypothesis of the enclosing node
    pack.add(node_obligation("C07.node[BoolOp,mixed]", "a and b or c and d", "abcd"))
    pack.add(node_obligation("C07.node[UnaryOp,not]", "not a", "a", mode="truth"))
    for sym in BIN_OK:
        pack.add(node_obligation(f"C07.node[BinOp,{sym}]", f"a {sym} b", "ab"))
    for k in range(4):
        pack.add(node_obligation(f"C07.node[List,{k}]", "[" + ", ".join(letters[:k]) + "]", letters[:k]))
        pack.add(node_obligation(f"C07.node[Tuple,{k}]", "(" + ", ".join(letters[:k]) + ("," if k == 1 else "") + ")", letters[:k]))
    for c in ("1", "'x'", "None", "True", "1.5", "b'x'", "..."):
        pack.add(node_obligation(f"C07.node[Constant,{c}]", c, ""))
    pack.add(node_obligation("C07.node[Attribute]", "a.attr", "a"))
    pack.add(node_obligation("C07.node[Attribute,chain]", "a.x.y", "a"))
    for src in ("f0()", "f0(a)", "f0(a, b)", "f0(a, k=b)", "f0(a, b, k=c, j=d)"):
        pack.add(node_obligation(f"C07.node[Call,{src}]", src, [x for x in "abcd" if x in src.replace("f0", "")], fns=("f0",)))
    pack.case_analyses.append("node kinds {Constant, List, Tuple, Attribute, BoolOp, BinOp, UnaryOp, Compare, Call}; Compare with every operator (1 link), every operator pair (2 links) and 6 operator triples; and/or with 2..4 operands; "
                              "0..3 elements; 0..4 call arguments: finite case analysis over shape, operand values and types abstract (opaque)")

    # operator tables
    def run_table(tier):
        bad = []
        for tbl, exp in ((sel.g["AST_OPERATORS"], EXPECTED_OPERATORS), (sel.g["AST_COMPARATORS"], EXPECTED_COMPARATORS)):
            for k, v in tbl.items():
                if k.__name__ in exp and v is not exp[k.__name__]:
                    bad.append(f"{k.__name__} -> {getattr(v, '__name__', v)}")
            for nme in exp:
                if nme not in {k.__name__ for k in tbl}:
                    bad.append(f"{nme} missing")
        extra = {k.__name__ for k in sel.g["AST_OPERATORS"]} - set(EXPECTED_OPERATORS) | {k.__name__ for k in sel.g["AST_COMPARATORS"]} - set(EXPECTED_COMPARATORS) - {"In", "NotIn"}
        if extra:
            bad.append(f"entries outside the documented language: {sorted(extra)}")
        return Result("C07.table", "refuted" if bad else "proved", "; ".join(bad), paths=len(sel.g["AST_OPERATORS"]) + len(sel.g["AST_COMPARATORS"]), witness={"bad": bad} if bad else None)

    pack.add(Obligation("C07.table", run_table, replay=lambda w: {"call": "c07_table", "args": {}}, functions=("flow.record.selector:AST_OPERATORS", "flow.record.selector:AST_COMPARATORS"), mode="structural"))

    # whole expressions: both engines agree with Python on symbolic field values
    n, mm, sv, tv, fl = z3.Int("n"), z3.Int("m"), z3.String("s"), z3.String("t"), z3.Bool("flag")

    def mkrec(concrete=None):
        D = it.call(RD, ["c07/rec", list(FIELDS)], {})
        vals = {"n": SInt(n), "m": SInt(mm), "s": SStr(sv), "t": SStr(tv), "flag": SBool(fl), "sl": ["a", "b"], "f": 1.5, "port": 80, "ip": "1.2.3.4", "net": "10.0.0.0/8", "b": b"ab"}
        if concrete:
            vals.update(concrete)
        return it.call(D, [], vals)

    class SpecTypeValues:
        """Reference meaning of `Type.<typename>`: the values of the record's fields of that type; a comparison holds when it holds for ANY of them
        (documented in the TypeMatcher docstring).  Written against the documentation, independent of the TypeMatcher classes."""

        def __init__(self, rec, typename):
            self.values = [rec.attrs[f] for t, f in FIELDS if t == typename]

        def _any(self, op, other, swap=False):
            for v in self.values:
                if it.truth(it.compare(op, other, v) if swap else it.compare(op, v, other)):
                    return True
            return False

        __eq__ = lambda self, o: self._any("Eq", o)
        __ne__ = lambda self, o: self._any("NotEq", o)
        __lt__ = lambda self, o: self._any("Lt", o)
        __le__ = lambda self, o: self._any("LtE", o)
        __gt__ = lambda self, o: self._any("Gt", o)
        __ge__ = lambda self, o: self._any("GtE", o)
        __contains__ = lambda self, o: self._any("In", o, swap=True)
        __hash__ = None

    class SpecType:
        def __init__(self, rec):
            self.rec = rec

        def __getattr__(self, typename):
            return SpecTypeValues(self.rec, typename)

    def py_meaning(expr, rec):
        """Python's meaning of the expression: evaluated by pyvc's expression semantics in the documented namespace."""
        ns = {f.name: f for f in sel.g["FUNCTION_WHITELIST"]}
        ns.update({"r": rec, "Type": SpecType(rec), "net": base.g["net"], "str": str, "repr": repr, "any": any, "all": all, "None": None, "True": True, "False": False})
        # the field type constructors named in an expression denote the whitelisted field type classes themselves (spec side: resolved by fieldtype(), not
        # through the selector's DynamicFieldtypeModule)
        for w in L.import_module("flow.record.whitelist").g["WHITELIST"]:
            if "." not in w and w not in ("record", "dynamic"):
                ns[w] = it.call(base.g["fieldtype"], [w], {})
        return it.eval(ast.parse(expr, mode="eval").body, ns, sel)

    def expr_obligation(expr, may_refuse=False):
        name = f"C07.expr[{expr}]" + (" (refusal allowed)" if may_refuse else "")

        def th():
            rec = mkrec()
            out = []
            for cls in ("Selector", "CompiledSelector"):
                s = it.call(sel.g[cls], [expr], {})
                try:
                    out.append(("val", it.truth(it.call(it.getattr_(s, "match"), [rec], {}))))  # truth decided on the path (forks when symbolic)
                except PyRaise as e:
                    out.append(("raise", e.cls_name))
            try:
                out.append(("val", it.truth(py_meaning(expr, rec))))
            except PyRaise as e:
                out.append(("raise", e.cls_name))
            return out

        def judge(p):
            i, c, s = p.value
            if s[0] == "raise":
                return True  # a sub-expression is undefined on this path: outside the property's precondition
            if may_refuse and i == ("raise", "InvalidOperation") and c[0] == "val":
                # the interpreted engine may REFUSE an expression it does not support; what it must not do is answer differently from Python
                return truthterm(c[1]) == truthterm(s[1]), f"{expr!r}: compiled {c[1]!r}, Python {s[1]!r}"
            if i[0] == "raise" or c[0] == "raise":
                return False, f"{expr!r}: interpreted {i}, compiled {c}, Python {s}"
            return z3.And(truthterm(i[1]) == truthterm(s[1]), truthterm(c[1]) == truthterm(s[1])), f"{expr!r}: interpreted {i[1]!r}, compiled {c[1]!r}, Python {s[1]!r}"

        def wit(m, p):
            return {"expr": expr, "n": model_value(m, n), "m": model_value(m, mm), "s": model_value(m, sv), "t": model_value(m, tv), "flag": model_value(m, fl)} if m is not None else {"expr": expr, "n": 0, "m": 0, "s": "", "t": "", "flag": False}

        return Obligation(name, lambda tier: prove_paths(name, th, judge, wit), replay=lambda w: {"call": "c07_expr", "args": w}, functions=FU, mode="paths, symbolic field values")

    for e in EXPRESSIONS:
        pack.add(expr_obligation(e))
    # generator expressions one after the other may use the same loop variable name: Python's meaning, no refusal
    for e in ["any(x == 'a' for x in r.sl) and any(x == 'b' for x in r.sl)", "all(any(x == y for x in r.sl) for y in r.sl) and any(y == 'a' for y in r.sl)",
              "any(x == 'a' for x in r.sl) or any(x == r.s for x in r.sl)", "not any(x == 'b' for x in r.sl) and all(x != r.t for x in r.sl)"]:
        pack.add(expr_obligation(e))
    # a generator expression that shadows a loop variable that is still live: refusing is allowed (the interpreted engine has one flat namespace), a wrong answer is not
    for e in ["any(any(x == 'b' for x in r.sl) and x == 'a' for x in r.sl)", "any(x == 'b' for x in r.sl for x in r.sl)"]:
        pack.add(expr_obligation(e, may_refuse=True))

    # a Selector object handed to make_selector(force_compiled=True) gives a compiled selector of the same expression - and stays what it was: both answer as Python does, in either order
    for e in ["r.n in [1, 2, r.m]", "'ab' not in r.s", "r.s in ['a', 'b', r.t] and r.n not in (1, 2)", "any(x in r.s for x in r.sl)", "r.n == r.m"]:
        name = f"C07.history[Selector({e!r}) handed to make_selector(force_compiled=True), both used afterwards]"

        def th_hist(e=e):
            rec = mkrec()
            s_ = it.call(sel.g["Selector"], [e], {})
            out = []
            try:
                out.append(("val", it.truth(it.call(it.getattr_(s_, "match"), [rec], {}))))
            except PyRaise as ex:
                out.append(("raise", ex.cls_name))
            c_ = it.call(sel.g["make_selector"], [s_], {"force_compiled": True})
            for obj in (c_, s_, c_):
                try:
                    out.append(("val", it.truth(it.call(it.getattr_(obj, "match"), [rec], {}))))
                except PyRaise as ex:
                    out.append(("raise", ex.cls_name))
            try:
                out.append(("val", it.truth(py_meaning(e, rec))))
            except PyRaise as ex:
                out.append(("raise", ex.cls_name))
            return out

        def judge_hist(p, e=e):
            *got, spec = p.value
            if spec[0] == "raise":
                return True
            if any(g[0] == "raise" for g in got):
                return False, f"{e!r}: interpreted before / compiled / interpreted after / compiled again: {got}, Python {spec}"
            return z3.And(*[truthterm(g[1]) == truthterm(spec[1]) for g in got]), f"{e!r}: interpreted before / compiled / interpreted after / compiled again: {[g[1] for g in got]!r}, Python {spec[1]!r}"

        pack.add(Obligation(name, lambda tier, name=name, th_hist=th_hist, judge_hist=judge_hist, e=e: prove_paths(name, th_hist, judge_hist, lambda m, p, e=e: {"expr": e, "n": model_value(m, n) if m is not None else 0, "m": model_value(m, mm) if m is not None else 0, "s": model_value(m, sv) if m is not None else "", "t": model_value(m, tv) if m is not None else ""}),
                            replay=lambda w: {"call": "c07_history_compile", "args": {"expr": w.get("expr"), "n": w.get("n") or 0, "m": w.get("m") or 0, "s": w.get("s") or "", "t": w.get("t") or ""}}, functions=FU + ("flow.record.selector:make_selector",), mode="history: interpreted, compiled from the Selector object, interpreted again"))

    # the helper functions on a grouped record: both engines give the documented answer (names() are the member type names, name() is the group's)
    for expr, want in (('"c07/ma" in names(r)', True), ('"c07/mb" in names(r)', True), ('"c07/grp" in names(r)', False), ('name(r) == "c07/grp"', True), ("has_field(r, 'b2')", True), ("field_equals(r, ['a1', 'b2'], ['bee'])", True)):
        name = f"C07.grouped[{expr}]"

        def th_grp(expr=expr):
            A = it.call(RD, ["c07/ma", [("string", "a1")]], {})
            B = it.call(RD, ["c07/mb", [("string", "b2")]], {})
            g = it.call(base.g["GroupedRecord"], ["c07/grp", [it.call(A, [], {"a1": "ay"}), it.call(B, [], {"b2": "bee"})]], {})
            out = []
            for cls in ("Selector", "CompiledSelector"):
                try:
                    out.append(bool(it.truth(it.call(it.getattr_(it.call(sel.g[cls], [expr], {}), "match"), [g], {}))))
                except PyRaise as e:
                    out.append("raise " + e.cls_name)
            return out

        pack.add(Obligation(name, lambda tier, name=name, th_grp=th_grp, want=want, expr=expr: prove_paths(name, th_grp, lambda p, want=want: (p.value == [want, want], f"{expr!r} on a grouped record: interpreted / compiled give {p.value}, the documented answer is {want}")),
                            replay=lambda w, expr=expr, want=want: {"call": "c07_grouped", "args": {"expr": expr, "want": want}}, functions=FU, mode="helper functions over one grouped record"))

    # typed field matchers look into nested records (record / record[] fields) for every operator, membership included
    for expr, want in (('Type.string in ["x"]', True), ('Type.string in ["z", "q"]', True), ('Type.string not in ["x"]', False), ('Type.string in ["nowhere"]', False), ('Type.string == "x"', True), ('"z" in [Type.string]', True),
                       ('Type.string == "needle"', True), ('"needle" in Type.string', True), ('Type.string in ["needle2"]', True), ('Type.string == "needle3"', True), ('Type.string == "nowhere"', False), ('Type.varint >= 7', True), ('Type.varint > 7', False)):
        name = f"C07.nested[{expr}]"

        def th_nested(expr=expr):
            A = it.call(RD, ["c07/na", [("string", "s")]], {})
            M = it.call(RD, ["c07/nm", [("record", "inner"), ("record[]", "inners"), ("varint", "k")]], {})  # values two and three levels down
            B = it.call(RD, ["c07/nb", [("string", "t"), ("record", "sub"), ("record[]", "subs"), ("record", "deep")]], {})
            deep = it.call(M, [], {"inner": it.call(A, [], {"s": "needle"}), "inners": [it.call(M, [], {"inner": it.call(A, [], {"s": "needle3"}), "inners": [], "k": 7})], "k": 1})
            b = it.call(B, [], {"t": "y", "sub": it.call(A, [], {"s": "x"}), "subs": [it.call(A, [], {"s": "z"}), it.call(M, [], {"inner": it.call(A, [], {"s": "needle2"}), "inners": [], "k": 2})], "deep": deep})
            out = []
            for cls in ("Selector", "CompiledSelector"):
                try:
                    out.append(bool(it.truth(it.call(it.getattr_(it.call(sel.g[cls], [expr], {}), "match"), [b], {}))))
                except PyRaise as e:
                    out.append("raise " + e.cls_name)
            return out

        pack.add(Obligation(name, lambda tier, name=name, th_nested=th_nested, want=want, expr=expr: prove_paths(name, th_nested, lambda p, want=want: (p.value == [want, want], f"{expr!r} on a record holding nested records (t='y', sub.s='x', subs[0].s='z', deep.inner.s='needle', subs[1].inner.s='needle2', deep.inners[0].inner.s='needle3', deep.inners[0].k=7): interpreted / compiled give {p.value}, the documented answer is {want}")),
                            replay=lambda w, expr=expr, want=want: {"call": "c07_nested", "args": {"expr": expr, "want": want}}, functions=FU, mode="typed matchers over one record with nested records"))

    # outside the language: rejected with an error, never evaluated to a value (interpreted engine)
    for e in REJECTED:
        name = f"C07.reject[{e}]"

        def run(tier, e=e, name=name):
            def th():
                rec = mkrec()
                s = it.call(sel.g["Selector"], [e], {})
                return it.call(it.getattr_(s, "match"), [rec], {})

            return prove_paths(name, th, lambda p: (p.kind == "raise", f"{e!r} evaluated to {p.value!r}"), lambda m, p: {"expr": e}, allow_raise=None)

        pack.add(Obligation(name, run, replay=lambda w: {"call": "c07_reject", "args": w}, functions=FU[:1]))

    # compiled engine: namespace and record access
    def run_ns(tier):
        def th():
            rec = mkrec()
            s = it.call(sel.g["CompiledSelector"], ["r.n"], {})
            captured = {}
            import builtins

            orig = it.models[builtins.eval]
            it.models[builtins.eval] = lambda it_, code, g=None, l=None: (captured.update(g=g), orig(it_, code, g, l))[1]
            try:
                v = it.call(it.getattr_(s, "match"), [rec], {})
            finally:
                it.models[builtins.eval] = orig
            return v, captured.get("g"), rec, s

        def judge(p):
            v, g, rec, s = p.value
            want = {f.name for f in sel.g["FUNCTION_WHITELIST"]} | {"net", "r", "Type"} | set(L.import_module("flow.record.whitelist").g["WHITELIST_TREE"])  # helpers, net, r, Type, field type constructors
            # (names that begin with a double underscore are private helpers of the engine: no expression of the documented language can mention them)
            keys = {k for k in g if not k.startswith("__")}
            ok = keys == want and all(g[f.name] is f for f in sel.g["FUNCTION_WHITELIST"]) and isinstance(g["r"], PObj) and g["r"].cls is sel.g["WrappedRecord"] and any(v_ is rec for v_ in g["r"].attrs.values())
            ok = ok and v is rec.attrs["n"] and g is not s.attrs["ns"]
            return ok, f"namespace keys {sorted(keys)} (expected {sorted(want)}), r.n is the field value: {v is rec.attrs['n']}"

        return prove_paths("C07.compiled.namespace", th, judge)

    pack.add(Obligation("C07.compiled.namespace", run_ns, functions=("flow.record.selector:CompiledSelector.match", "flow.record.selector:CompiledSelector.__init__", "flow.record.selector:WrappedRecord.__getattr__")))

    # results do not depend on records matched before (a selector object is reused for a whole stream)
    for e in ["Type.varint > 100", "Type.string == 'b'", "any(f.name == 'm' for f in fields('varint'))", "r.n > 5", "name(r) == 'c07/rec'", "'a' in Type.string"]:
        for cls in ("Selector", "CompiledSelector"):
            if cls == "CompiledSelector" and "fields(" in e:
                continue
            name = f"C07.sequence[{cls},{e}]"

            def run(tier, e=e, cls=cls, name=name):
                def th():
                    r1 = mkrec({"n": 500, "s": "b"})
                    D2 = it.call(RD, ["c07/other", [("varint", "n"), ("string", "q")]], {})
                    r0 = it.call(D2, [], {"n": 700, "q": "b"})
                    r2 = mkrec()
                    s = it.call(sel.g[cls], [e], {})
                    def outcome(sel_obj, r):
                        try:
                            return ("val", it.truth(it.call(it.getattr_(sel_obj, "match"), [r], {})))
                        except PyRaise as ex:
                            return ("raise", ex.cls_name)

                    outcome(s, r0), outcome(s, r1)
                    return outcome(s, r2), outcome(it.call(sel.g[cls], [e], {}), r2)

                return prove_paths(name, th, lambda p: (p.value[0] == p.value[1], f"{e!r}: after other records {p.value[0]!r}, on a fresh selector {p.value[1]!r}"),
                                   lambda m, p: {"expr": e, "engine": cls, "n": model_value(m, n) if m is not None else 0, "m": model_value(m, mm) if m is not None else 0, "s": model_value(m, sv) if m is not None else "", "t": model_value(m, tv) if m is not None else ""})

            pack.add(Obligation(name, run, replay=lambda w: {"call": "c07_sequence", "args": w}, functions=FU))

    # canary + CPython conformance of the expression semantics itself
    pack.add(Obligation("C07.canary", lambda tier: prove_paths("C07.canary", lambda: it.call(it.getattr_(it.call(sel.g["Selector"], ["r.n < r.m"], {}), "match"), [mkrec()], {}), lambda p: truthterm(p.value) == (n <= mm), lambda m, p: {}), kind="canary"))

    CONCRETE = {"n": 5, "m": 7, "s": "abc", "t": "ABC", "flag": True}
    allx = EXPRESSIONS + REJECTED + ["r.n < 'x'", "r.s + 1 == 2", "r.unset < 1", "r.zz == 1", "1 in r.n"]
    CH = 24

    def make_cross(chunk, idx):
        def run(tier):
            mine, reqs = [], []
            for e in chunk:
                for cls in ("Selector", "CompiledSelector"):
                    def th(e=e, cls=cls):
                        rec = mkrec(CONCRETE)
                        return it.call(it.getattr_(it.call(sel.g[cls], [e], {}), "match"), [rec], {})

                    try:
                        p = it.explore(th)[0]
                        mine.append("raise" if p.kind == "raise" else repr(bool(it.truth(p.value))))
                    except Unsupported as ex:
                        mine.append(f"unsupported:{ex}")
                    except SyntaxError:
                        mine.append("raise")
                    reqs.append({"call": "c07_eval", "args": {"expr": e, "engine": cls}})
            native = native_batch(reqs)
            bad = [(r["args"], a, b.get("outcome", b)) for r, a, b in zip(reqs, mine, native) if a != b.get("outcome")]
            return Result(f"C07.cross[{idx}]", "proved" if not bad else "refuted", f"{len(bad)} disagreement(s): {bad[:4]}" if bad else "", paths=len(reqs))

        return run

    for i in range(0, len(allx), CH):
        pack.add(Obligation(f"C07.cross[{i // CH}]", make_cross(allx[i:i + CH], i // CH), kind="cross"))

    # bounded stand-in: grammar-generated expressions, both engines against Python's own eval on concrete records
    def run_diff(tier):
        args = {"seed": seed, "n": 400 if tier == "quick" else 6000}
        res = native_replay({"call": "c07_differential", "args": args})
        r = Result("C07.differential", "refuted" if res.get("violates") else ("proved" if "error" not in res else "error"), str(res.get("detail") or res.get("error") or "")[:300], paths=res.get("cases", 0))
        r.native, r.confirmed, r.request, r.witness = res, bool(res.get("violates")), {"call": "c07_differential", "args": args}, res.get("witness")
        return r

    pack.add(Obligation("C07.differential", run_diff, kind="bounded", note="native differential run: grammar-generated expressions (depth <= 3; comparisons, chains, and/or/not, arithmetic, membership, lists/tuples, helpers, field-type constructors, Type matchers, any/all generators) "
                        "on generated records, Selector and CompiledSelector against eval() of the same text; bound: 400 (quick) / 6000 (thorough) expression-record pairs", functions=FU))
    pack.not_covered = ["GeneratorExp / comprehension nodes and the Type matcher classes are covered by whole-expression obligations (symbolic field values) and the bounded differential run, not by an induction step over abstract operands",
                        "expressions whose sub-expressions are undefined (exceptions, missing fields: C08)", "floating point arithmetic (uninterpreted)"]
    pack.assumptions += ["Python's expression semantics as encoded in pyvc.interp.eval/compare/binop/truth (language reference); sampled against CPython by C07.cross on every run",
                         "abstract operands are plain values: not instances of flow.record classes (the missing-field sentinel is C08's subject)"]
    return pack

"""C10 - reading with a selector equals filtering afterwards; matching is pure.

Contracts on the real reader loops (stream.py, adapter/jsonfile.py, adapter/avro.py, adapter/csvfile.py, adapter/sqlite.py) and on selector.py:

  <Reader>.__iter__   with the selector an ABSTRACT object (match(rec) answers an arbitrary boolean per record) and the source an abstract sequence:
                      yielded == [rec_i | match(rec_i)], the object tested is the object yielded, match is called exactly once per record, in source order;
                      without a selector every record is yielded                                   (all five readers, both branches of the JSON reader)
  make_selector       falsy -> None; text -> Selector (CompiledSelector when forced); selector objects pass through
  Selector.match / CompiledSelector.match
                      history independence: match(r2) after match(r1) on the same selector object == match(r2) on a fresh one, for records of different
                      descriptors with symbolic field values, over expressions covering every node kind, the helper functions, fields(), Type matchers, missing fields
                      frame: match writes nothing on the record, its field values or its descriptor (descriptor caches excepted)
"""
import z3

from pyvc.models.ext import AvroBlock, AvroHeader, SqlDb

from .streamlib import *  # noqa

CACHE_ATTRS = {"_desc_hash", "_fields", "_all_fields"}
EXPRS = ["r.n == 1", "r.s in ['a', 'b']", "'x' in r.s", "lower(r.s) == 'a'", "field_equals(r, ['s'], ['a'])", "name(r) == 'c10/a'", "has_field(r, 'n')", "fields('varint')", "any(f.name == 'n' for f in fields('varint'))",
         "Type.string == 'a'", "'a' in Type.string", "r.missing == 1", "r.n > 1 and r.s != 'a' or not r.n", "r.n + 1 >= 2", "upper(r.s) in ('A', 'B')", "field_contains(r, ['s'], ['a'])", "r.s", "not r.other"]
COMPILED_OK = [e for e in EXPRS if "fields(" not in e]


class AbsSelector:
    """A selector about which nothing is known: match() answers a fresh boolean per call (and keeps a log of what it was asked)."""

    FALSY, TRUTHY = (0, "", None, [], 0.0), (1, "x", ["a"], 2.5, -1)

    def __init__(self, it, values=False, raises_at=None):
        self.it, self.calls, self.answers, self.values, self.raises_at = it, [], [], values, raises_at

    def match(self, rec):
        self.calls.append(rec)
        if self.raises_at is not None and len(self.calls) - 1 == self.raises_at:
            # the selector cannot be evaluated on this record (r.size > 1024 where size is text): testing it afterwards raises here
            raise PyRaise(TypeError("'>' not supported between instances of 'str' and 'int'"))
        b = z3.Bool(f"match!{len(self.calls)}")
        d = self.it.branch(b)
        self.answers.append(d)
        if self.values:
            # what a selector hands back is the VALUE of its expression (a bare field, a bit test, an and / or of operands): only its truth counts
            pool = self.TRUTHY if d else self.FALSY
            return pool[(len(self.calls) - 1) % len(pool)]
        return d


def build(tier="quick", seed=0):
    it, L, base, pk, st = mods()
    sel = L.import_module("flow.record.selector")
    jf = L.import_module("flow.record.adapter.jsonfile")
    av = L.import_module("flow.record.adapter.avro")
    cs = L.import_module("flow.record.adapter.csvfile")
    sq = L.import_module("flow.record.adapter.sqlite")
    pack = new_pack("C10", "Reading with a selector equals filtering afterwards; matching is pure")
    RD = base.g["RecordDescriptor"]
    FU = ("flow.record.stream:RecordStreamReader.__iter__", "flow.record.adapter.jsonfile:JsonfileReader.__iter__", "flow.record.adapter.avro:AvroReader.__iter__", "flow.record.adapter.csvfile:CsvfileReader.__iter__",
          "flow.record.adapter.sqlite:SqliteReader.__iter__", "flow.record.adapter.sqlite:SqliteReader.read_table", "flow.record.selector:make_selector", "flow.record.selector:Selector.match", "flow.record.selector:CompiledSelector.match",
          "flow.record.selector:RecordContextMatcher.matches", "flow.record.selector:RecordContextMatcher._eval", "flow.record.selector:WrappedRecord.__getattr__", "flow.record.selector:TypeMatcher.__getattr__")
    x, y = z3.Int("x"), z3.Int("y")
    sv = z3.String("s")

    # ------------------------------------------------------------------ sources for each reader (three items each)
    def src_stream(selector):
        A = it.call(RD, ["c10/a", [("varint", "n"), ("string", "s")]], {})
        B = it.call(RD, ["c10/b", [("string", "s")]], {})
        recs = [it.call(A, [], {"n": 1, "s": "a"}), it.call(B, [], {"s": "b"}), it.call(A, [], {"n": 3, "s": "a  b"})]
        segs = []
        fp = AbsFile(it, mode="wb")
        w = it.call(st.g["RecordStreamWriter"], [fp], {})
        for r in recs:
            it.call(it.getattr_(w, "write"), [r], {})
        return it.call(st.g["RecordStreamReader"], [AbsFile(it, fp.content())], {"selector": selector}), 3

    def src_json(selector):
        A = it.call(RD, ["c10/a", [("varint", "n"), ("string", "s")]], {})
        fp = AbsFile(it, mode="w")
        w = it.call(jf.g["JsonfileWriter"], [fp], {})
        for r in [it.call(A, [], {"n": 1, "s": "a"}), it.call(A, [], {"n": 2, "s": "a  b"})]:
            it.call(it.getattr_(w, "write"), [r], {})
        lines = fp.content() + ['{"plain": 1, "other": "x"}\n']  # a plain JSON line: the reader's fallback branch
        return it.call(jf.g["JsonfileReader"], [AbsFile(it, lines, mode="r")], {"selector": selector}), 3

    def src_avro(selector):
        A = it.call(RD, ["c10/a", [("varint", "n"), ("string", "s")]], {})
        schema = it.call(av.g["descriptor_to_schema"], [A], {})
        items = [{"n": i, "s": "a  b" if i == 2 else "v%d" % i, "_source": None, "_classification": None, "_generated": None, "_version": 1} for i in range(3)]
        fp = AbsFile(it, [], mode="rb")
        fp.segs = [(AvroHeader(schema, "null"), 64), (AvroBlock(items[:2]), 18), (AvroBlock(items[2:]), 17)]
        return it.call(av.g["AvroReader"], [fp], {"selector": selector}), 3

    def src_csv(selector):
        fp = AbsFile(it, [], mode="r")
        fp.csv_rows = [["n", "s"], ["1", "a"], ["2", "b"], ["3", "a  b"]]
        it.vfs = {"/abs/c10.csv": fp}
        return it.call(cs.g["CsvfileReader"], ["/abs/c10.csv"], {"selector": selector}), 3

    def src_sqlite(selector):
        db = SqlDb()
        db.tables = {"c10/a": {"cols": [("n", "BIGINT"), ("s", "TEXT"), ("_source", "TEXT"), ("_classification", "TEXT"), ("_generated", "TIMESTAMPTZ"), ("_version", "BIGINT")], "rows": [(1, "a", None, None, None, 1), (2, "a  b", None, None, None, 1), (3, "c", None, None, None, 1)]},
                     "c10/b": {"cols": [("s", "TEXT")], "rows": [("z",)]}}
        it.vfs = {"/abs/c10.db": db}
        # (batch size 1: the first table spans three batches, so a batch without any matching row is followed by further batches)
        return it.call(sq.g["SqliteReader"], ["/abs/c10.db"], {"selector": selector, "batch_size": 1}), 4

    SOURCES = {"stream": src_stream, "json": src_json, "avro": src_avro, "csv": src_csv, "sqlite": src_sqlite}

    def th_loop(kind, with_selector):
        def th():
            s = AbsSelector(it, values=(with_selector == "values")) if with_selector else None
            rd, n = SOURCES[kind](s)
            out = list(it.iterate(rd))
            if s is None:
                return len(out) == n, None, f"without a selector {len(out)} of {n} records were yielded"
            ok_calls = len(s.calls) == n
            kept = [r for r, a in zip(s.calls, s.answers) if a]
            # the object tested is the object yielded, or a copy that cannot be told apart from it
            same = len(kept) == len(out) and all(a is b or obs_eq(deep_obs(it, a), deep_obs(it, b))[0] is True for a, b in zip(kept, out))
            return ok_calls and same, None, f"match() was called {len(s.calls)} times for {n} records (answers {s.answers}); yielded {len(out)}; the yielded objects are the tested objects in order: {same}"
        return th

    for kind in SOURCES:
        for with_selector in (True, "values", False):
            name = f"C10.loop[{kind}, {'abstract selector answering with values that are not booleans' if with_selector == 'values' else 'abstract selector' if with_selector else 'no selector'}]"
            pack.add(Obligation(name, lambda tier, name=name, kind=kind, ws=with_selector: prove_paths(name, th_loop(kind, ws), lambda p: (p.value[0] is True, p.value[2]), lambda m_, p: {}),
                                replay=lambda w, kind=kind: {"call": "c10_reader", "args": {"kind": kind}}, functions=FU, mode="abstract selector (arbitrary boolean per record, all 2^3 answer vectors), source of three items"))
    # a selector that cannot be evaluated on one record RAISES there when the records are tested afterwards: reading with it gives the records kept in front of that
    # record and then the same error - it does not drop the record and read on as if nothing had happened
    def th_loop_raise(kind, at):
        def th():
            s = AbsSelector(it, raises_at=at)
            rd, n = SOURCES[kind](s)
            out, end = drain(it, it.iterate(rd))
            kept = [r for r, a in zip(s.calls, s.answers) if a]
            return len(out) == len(kept), end if isinstance(end, str) else end[:2], len(s.calls)
        return th

    for kind in SOURCES:
        for at in (0, 1):
            name = f"C10.loop[{kind}, abstract selector that raises TypeError on record {at}]"
            pack.add(Obligation(name, lambda tier, name=name, kind=kind, at=at: prove_paths(name, th_loop_raise(kind, at), lambda p, at=at: (p.value[0] and p.value[1] == ("raise", "TypeError") and p.value[2] == at + 1, f"the reader ended {p.value[1]} after asking the selector {p.value[2]} time(s) (kept records yielded: {p.value[0]}); testing afterwards raises TypeError at record {at}"), lambda m_, p: {}),
                                replay=lambda w, kind=kind: {"call": "c10_selector_raises", "args": {"kind": kind}}, functions=FU, mode="abstract selector raising at a chosen record"))
    pack.case_analyses.append("reader loops: sources of three items (two plus one fallback line for JSON; two tables for SQLite, batch size 2); the loop bodies do not depend on the position, the selector is arbitrary")

    # ------------------------------------------------------------------ real selectors: reading with the selector == reading everything and testing each record with a fresh selector
    REAL = ["not (r.n == 1)", "r.n == 1 or name(r) == 'c10/b'", "r.s == 'a'", "r.level == 'x' or not has_field(r, 'level')", "r.nosuch != 1",
            "r.s", "lower(r.s)", "r.s == 'a  b'", "r.s not in ['a b', 'a\tb']"]  # (a selector given as text is the expression as it is written: blanks inside a literal belong to the value)

    def th_equiv(kind, expr, form):
        def th():
            mk = (lambda: expr) if form == "text" else (lambda: it.call(sel.g["Selector" if form == "Selector" else "CompiledSelector"], [expr], {}))
            rd_all, n = SOURCES[kind](None)
            everything = list(it.iterate(rd_all))
            want = []
            for r in everything:
                fresh = it.call(sel.g["CompiledSelector" if form == "CompiledSelector" else "Selector"], [expr], {})
                if it.truth(it.call(it.getattr_(fresh, "match"), [r], {})):
                    want.append(deep_obs(it, r))
            rd_sel, _ = SOURCES[kind](mk())
            got = [deep_obs(it, r) for r in it.iterate(rd_sel)]
            return [g[:3] + (tuple(x for x in g[3] if x[0] != "_generated"),) for g in got], [w[:3] + (tuple(x for x in w[3] if x[0] != "_generated"),) for w in want]
        return th

    for kind in SOURCES:
        for expr in REAL:
            for form in ("text", "CompiledSelector"):
                name = f"C10.equiv[{kind}, {expr}, {form}]"
                pack.add(Obligation(name, lambda tier, name=name, kind=kind, expr=expr, form=form: prove_paths(name, th_equiv(kind, expr, form), lambda p: (p.value[0] == p.value[1], f"reading with the selector yields {len(p.value[0])} record(s), reading everything and filtering afterwards keeps {len(p.value[1])}"), lambda m_, p: {}),
                                    replay=lambda w, kind=kind, expr=expr, form=form: {"call": "c10_equiv", "args": {"kind": kind, "expr": expr, "form": form}}, functions=FU, mode="representative selectors (negation, disjunction with a non-field operand, missing fields) x five readers x selector forms"))

    # ------------------------------------------------------------------ the path-based entry point (RecordReader(<path>, selector=<text>)): a selector given as TEXT is the interpreted
    #                                                                    selector there too - also for records on which the two engines are known to differ (an unset field under and / or)
    def th_entry(expr):
        def th():
            A = it.call(RD, ["c10/a", [("varint", "n"), ("string", "s")]], {})
            recs = [it.call(A, [], {"n": 5, "s": "a"}), it.call(A, [], {"n": None, "s": "b"}), it.call(A, [], {"n": 7, "s": ""}), it.call(A, [], {"n": 9, "s": "d"})]
            fp = AbsFile(it, mode="wb")
            w = it.call(st.g["RecordStreamWriter"], [fp], {})
            for r in recs:
                it.call(it.getattr_(w, "write"), [r], {})
            it.vfs, it.vfs_auto = {"/abs/c10e.records": AbsFile(it, fp.content(), name="/abs/c10e.records", mode="rb")}, False
            want = []
            for r in recs:
                fresh = it.call(sel.g["Selector"], [expr], {})
                if it.truth(it.call(it.getattr_(fresh, "match"), [r], {})):
                    want.append(it.unbase(r.attrs["s"]))
            rd = it.call(base.g["RecordReader"], ["/abs/c10e.records"], {"selector": expr})
            out, end = drain(it, it.iterate(rd))
            return [it.unbase(r.attrs["s"]) for r in out], end if isinstance(end, str) else end[:2], want
        return th

    for expr in ("r.n > 6 and r.s", "r.n > 6 or r.s == 'b'", "not (r.n < 6) and r.s != 'zz'"):
        name = f"C10.entry[RecordReader(<path>, selector=<text>), {expr}, a record with the field unset]"
        pack.add(Obligation(name, lambda tier, name=name, expr=expr: prove_paths(name, th_entry(expr), lambda p: (p.value[0] == p.value[2] and p.value[1] == "stop", f"reading by path with the text selector yields {p.value[0]} (ended {p.value[1]}), testing each record afterwards keeps {p.value[2]}")),
                            replay=lambda w, expr=expr: {"call": "c10_entry", "args": {"expr": expr}}, functions=FU + ("flow.record.base:RecordAdapter", "flow.record.base:RecordReader"), mode="path-based entry point, text selector"))

    # ------------------------------------------------------------------ `record in selector` is the same test as selector.match(record), for both engines
    def th_contains(eng, expr):
        def th():
            A = it.call(RD, ["c10/a", [("varint", "n"), ("string", "s")]], {})
            recs = [it.call(A, [], {"n": 5, "s": "a"}), it.call(A, [], {"n": None, "s": "b"}), it.call(A, [], {"n": 7, "s": ""}), it.call(A, [], {"n": 9, "s": "d"})]
            s1, s2 = it.call(sel.g[eng], [expr], {}), it.call(sel.g[eng], [expr], {})
            def outcome(f):
                try:
                    return bool(it.truth(f()))
                except PyRaise as e:  # (an unset field compared by the compiled engine raises - in both forms alike)
                    return f"raise {e.cls_name}"

            return [outcome(lambda: it.contains(s1, r)) for r in recs], [outcome(lambda: it.call(it.getattr_(s2, "match"), [r], {})) for r in recs]
        return th

    for eng in ("Selector", "CompiledSelector"):
        for expr in ("r.n > 6 or r.s == 'b'", "r.s"):
            name = f"C10.entry[record in {eng}({expr!r}) is match(record)]"
            pack.add(Obligation(name, lambda tier, name=name, eng=eng, expr=expr: prove_paths(name, th_contains(eng, expr), lambda p: (p.value[0] == p.value[1], f"`record in selector` gives {p.value[0]}, selector.match(record) gives {p.value[1]}")),
                                replay=lambda w, eng=eng, expr=expr: {"call": "c10_contains", "args": {"eng": eng, "expr": expr}}, functions=FU + (f"flow.record.selector:{eng}.__contains__",), mode="membership form of the test, four records"))

    # ------------------------------------------------------------------ make_selector
    def th_make():
        mk = sel.g["make_selector"]
        S, CS = sel.g["Selector"], sel.g["CompiledSelector"]
        out = []
        out.append(it.call(mk, [None], {}) is None and it.call(mk, [""], {}) is None)
        a = it.call(mk, ["r.n == 1"], {})
        out.append(isinstance(a, PObj) and a.cls is S and it.getattr_(a, "expression_str") == "r.n == 1")
        b = it.call(mk, ["r.n == 1"], {"force_compiled": True})
        out.append(isinstance(b, PObj) and b.cls is CS and it.getattr_(b, "expression") == "r.n == 1")
        out.append(it.call(mk, [a], {}) is a and it.call(mk, [b], {}) is b)
        c = it.call(mk, [a], {"force_compiled": True})
        out.append(isinstance(c, PObj) and c.cls is CS and it.getattr_(c, "expression") == "r.n == 1")
        return out

    pack.add(Obligation("C10.make_selector", lambda tier: prove_paths("C10.make_selector", th_make, lambda p: (all(p.value), f"make_selector normalisation: {p.value}")), replay=lambda w: {"call": "c10_make", "args": {}}, functions=FU))

    # ------------------------------------------------------------------ purity: history independence and frame
    def two_records():
        A = it.call(RD, ["c10/a", [("varint", "n"), ("string", "s"), ("varint", "other")]], {})
        B = it.call(RD, ["c10/b", [("string", "s"), ("string", "t")]], {})
        it.assume(z3.InRe(sv, z3.Star(z3.Range("a", "z"))))
        return A, B, it.call(A, [], {"n": SInt(x), "s": SStr(sv), "other": SInt(y)}), it.call(B, [], {"s": SStr(sv), "t": "a"})

    def truthy(v):
        """the truth value a reader loop derives from a match result, as z3 Bool / bool"""
        t = it.truth(v)
        return t

    def th_history(expr, cls_name, order):
        def th():
            A, B, ra, rb = two_records()
            if "same name" in order:
                # an older generation of the SAME record type name with other fields (schema evolution, plain JSON / CSV readers): it lacks n and other
                A0 = it.call(RD, ["c10/a", [("string", "s"), ("string", "t")]], {})
                rb = it.call(A0, [], {"s": SStr(sv), "t": "a"})
            first, second = (ra, rb) if order.startswith("a then") else (rb, ra)
            C = sel.g[cls_name]
            s1 = it.call(C, [expr], {})
            try:
                it.call(it.getattr_(s1, "match"), [first], {})
            except PyRaise:
                pass
            try:
                after = ("ok", truthy(it.call(it.getattr_(s1, "match"), [second], {})))
            except PyRaise as e:
                after = ("raise", e.cls_name)
            try:
                fresh = ("ok", truthy(it.call(it.getattr_(it.call(C, [expr], {}), "match"), [second], {})))
            except PyRaise as e:
                fresh = ("raise", e.cls_name)
            return after, fresh
        return th

    for cls_name, exprs in (("Selector", EXPRS), ("CompiledSelector", COMPILED_OK)):
        for expr in exprs:
            for order in ("a then b", "b then a", "a then same name older", "same name older then a"):
                name = f"C10.history[{cls_name}, {expr}, {order}]"
                pack.add(Obligation(name, lambda tier, name=name, expr=expr, cls_name=cls_name, order=order: prove_paths(name, th_history(expr, cls_name, order), lambda p: (p.value[0] == p.value[1], f"match after another record {p.value[0]} differs from a fresh selector {p.value[1]}"), lambda m_, p: {"x": model_value(m_, x), "s": model_value(m_, sv)}),
                                    replay=lambda w, expr=expr, cls_name=cls_name, order=order: {"call": "c10_history", "args": {"expr": expr, "cls": cls_name, "order": order, "x": w.get("x") if isinstance(w.get("x"), int) else 0, "s": w.get("s") if isinstance(w.get("s"), str) else ""}},
                                    functions=FU, mode="paths are explored in lock step: the same decisions drive both evaluations, so equal outcomes on every path is equality of the match result"))

    # grouped records with the same group name and the same flat fields but OTHER member types: names(r) is answered per record, in any order
    for cls_name in ("Selector", "CompiledSelector"):
        for order in ("ab then cd", "cd then ab"):
            name = f"C10.history.grouped[{cls_name}, 'c10/ma' in names(r), {order}]"

            def th(cls_name=cls_name, order=order):
                mk = lambda tn, fn: it.call(it.call(RD, [tn, [("string", fn)]], {}), [], {fn: "v"})
                GRc = base.g["GroupedRecord"]
                g_ab = it.call(GRc, ["c10/grp", [mk("c10/ma", "x"), mk("c10/mb", "y")]], {})
                g_cd = it.call(GRc, ["c10/grp", [mk("c10/mc", "x"), mk("c10/md", "y")]], {})
                s1 = it.call(sel.g[cls_name], ['"c10/ma" in names(r)'], {})
                seq = [g_ab, g_cd] if order.startswith("ab") else [g_cd, g_ab]
                out = {}
                for g in seq + seq:
                    out.setdefault("ab" if g is g_ab else "cd", []).append(bool(it.truth(it.call(it.getattr_(s1, "match"), [g], {}))))
                return out

            pack.add(Obligation(name, lambda tier, name=name, th=th: prove_paths(name, th, lambda p: (p.value == {"ab": [True, True], "cd": [False, False]}, f"'\"c10/ma\" in names(r)' over two grouped records of one group name: {p.value}")),
                                replay=lambda w, cls_name=cls_name, order=order: {"call": "c10_history_grouped", "args": {"cls": cls_name, "order": order}}, functions=FU, mode="two grouped records whose flat descriptors are equal"))

    # matching leaves list-valued fields as they are, also when the list itself is handed to a helper function
    for cls_name in ("Selector", "CompiledSelector"):
        for expr in ("field_equals(r, ['s'], r.tags)", "field_contains(r, ['s'], r.tags)", "lower(r.s) in r.tags", "any(lower(x) == 'root' for x in r.tags)", "field_contains(r, ['tags'], ['root'])", "field_equals(r, ['tags', 'sl'], ['x'])"):
            name = f"C10.frame.list[{cls_name}, {expr}]"

            def th(expr=expr, cls_name=cls_name):
                T = it.call(RD, ["c10/tags", [("string", "s"), ("string[]", "tags"), ("stringlist", "sl")]], {})
                rec = it.call(T, [], {"s": "root", "tags": ["Wheel", "ROOT", "adm"], "sl": ["Mixed", "CASE"]})
                s1 = it.call(sel.g[cls_name], [expr], {})
                try:
                    it.call(it.getattr_(s1, "match"), [rec], {})
                except PyRaise:
                    pass
                return [it.unbase(x) for x in rec.attrs["tags"].base], [it.unbase(x) for x in it.unbase(rec.attrs["sl"])]

            pack.add(Obligation(name, lambda tier, name=name, th=th, expr=expr: prove_paths(name, th, lambda p: (p.value == (["Wheel", "ROOT", "adm"], ["Mixed", "CASE"]), f"after matching {expr!r} the record's list fields hold {p.value}"), lambda m_, p: {}),
                                replay=lambda w, expr=expr, cls_name=cls_name: {"call": "c10_frame_list", "args": {"expr": expr, "cls": cls_name}}, functions=FU, mode="list fields handed to the helper functions"))

    # the result for a record is given by the record alone: concrete two-record histories judged against the stated value (not against a second selector,
    # which a module-level cache would poison in the same way)
    REF_CASES = [
        # (expression, fields of first record, values, fields of second record, values, result for the second record)
        ("(r.n, r.s) in [(r.other, 'a'), (1, 'b')]", [("varint", "n"), ("string", "s"), ("varint", "other")], {"n": 5, "s": "a", "other": 5}, [("varint", "n"), ("string", "s"), ("varint", "other")], {"n": 5, "s": "a", "other": 6}, False),
        ("(r.n, r.s) in [(r.other, 'a'), (1, 'b')]", [("varint", "n"), ("string", "s"), ("varint", "other")], {"n": 5, "s": "a", "other": 7}, [("varint", "n"), ("string", "s"), ("varint", "other")], {"n": 6, "s": "a", "other": 6}, True),
        ("r.n in [0, (r.other,), r.other]", [("varint", "n"), ("varint", "other")], {"n": 1, "other": 1}, [("varint", "n"), ("varint", "other")], {"n": 1, "other": 2}, False),
        ("str(lower(r.v)) == '1'", [("boolean", "v")], {"v": True}, [("varint", "v")], {"v": 1}, True),
        ("str(upper(r.v)) == 'True'", [("varint", "v")], {"v": 1}, [("boolean", "v")], {"v": True}, True),
        ("str(lower(r.v)) == '1.0'", [("varint", "v")], {"v": 1}, [("float", "v")], {"v": 1.0}, True),
        ("lower(r.v) == 'ab'", [("string", "v")], {"v": "AB"}, [("string", "v")], {"v": "Ab"}, True),
        ("upper(r.v) in ['X', r.w]", [("string", "v"), ("string", "w")], {"v": "q", "w": "Q"}, [("string", "v"), ("string", "w")], {"v": "q", "w": "Z"}, False),
    ]
    for cls_name in ("Selector", "CompiledSelector"):
        for k_, (expr, f1, v1, f2, v2, want) in enumerate(REF_CASES):
            name = f"C10.history.value[{cls_name}, {expr}, record {v2} after {v1}]"

            def th(expr=expr, f1=f1, v1=v1, f2=f2, v2=v2, cls_name=cls_name):
                R1 = it.call(RD, ["c10/h1", list(f1)], {})
                R2 = it.call(RD, ["c10/h2" if f1 != f2 else "c10/h1", list(f2)], {})
                s1 = it.call(sel.g[cls_name], [expr], {})
                try:
                    it.call(it.getattr_(s1, "match"), [it.call(R1, [], dict(v1))], {})
                except PyRaise:
                    pass
                return bool(it.truth(it.call(it.getattr_(s1, "match"), [it.call(R2, [], dict(v2))], {})))

            pack.add(Obligation(name, lambda tier, name=name, th=th, want=want, expr=expr: prove_paths(name, th, lambda p, want=want: (p.value is want, f"{expr!r}: the second record matches {p.value}, its own values give {want}"), lambda m_, p: {}),
                                replay=lambda w, k_=k_, cls_name=cls_name: {"call": "c10_history_value", "args": {"case": k_, "cls": cls_name}}, functions=FU, mode="concrete two-record histories with the stated result"))

    def global_state():
        """module-level mutable containers of selector.py / base.py (a match must not leave anything behind in them)"""
        out = {}
        for mname, mod in (("selector", sel), ("base", base)):
            for k, v in mod.g.items():
                if isinstance(v, (dict, list, set)) and not k.startswith("__"):
                    out[(mname, k)] = (type(v).__name__, len(v), tuple(sorted(map(repr, v)))[:50] if not isinstance(v, list) else tuple(map(repr, v))[:50])
        return out

    def th_frame(expr, cls_name):
        def th():
            A, B, ra, rb = two_records()
            g0 = global_state()
            s1 = it.call(sel.g[cls_name], [expr], {})
            shared = [ra, rb, A, B] + [v for v in list(ra.attrs.values()) + list(rb.attrs.values()) if isinstance(v, PObj)]
            before = len(it.writes)
            for r in (ra, rb, ra):
                try:
                    it.call(it.getattr_(s1, "match"), [r], {})
                except PyRaise:
                    pass
            g1 = global_state()
            leaked = [k for k in g1 if g1[k] != g0.get(k)]
            return [(o.cls.name, a) for (o, a) in it.writes[before:] if isinstance(o, PObj) and any(o is s_ for s_ in shared) and a not in CACHE_ATTRS] + [("module state", k) for k in leaked]
        return th

    for cls_name, exprs in (("Selector", EXPRS), ("CompiledSelector", COMPILED_OK)):
        for expr in exprs:
            name = f"C10.frame[{cls_name}, {expr}]"
            pack.add(Obligation(name, lambda tier, name=name, expr=expr, cls_name=cls_name: prove_paths(name, th_frame(expr, cls_name), lambda p: (p.value == [], f"matching wrote to the record / its values / its descriptor, or left module-level state behind: {p.value}"), lambda m_, p: {}),
                                replay=lambda w, expr=expr, cls_name=cls_name: {"call": "c10_frame", "args": {"expr": expr, "cls": cls_name}}, functions=FU))
    pack.case_analyses.append(f"{len(EXPRS)} expressions covering every node kind of the interpreted engine, the helper functions, fields(), Type matchers and missing fields x both engines x both record orders")

    # ------------------------------------------------------------------ canary / bounded
    def run_canary(tier):
        def th():
            s = AbsSelector(it)
            rd, n = src_stream(s)
            out = list(it.iterate(rd))
            return len(out) == n  # deliberately false: "every record is yielded whatever the selector answers"
        return prove_paths("C10.canary", th, lambda p: (p.value is True, "canary"), lambda m_, p: {})

    pack.add(Obligation("C10.canary", run_canary, kind="canary"))

    def run_cross(tier):
        res = native_replay({"call": "c10_model_conformance", "args": {}})
        return Result("C10.cross", "proved" if res.get("ok") else "refuted", str(res.get("detail") or res.get("error") or "")[:300], paths=res.get("cases", 0))

    pack.add(Obligation("C10.cross", run_cross, kind="cross"))

    def run_sweep(tier):
        args = {"seed": seed, "n": 40 if tier == "quick" else 600}
        res = native_replay({"call": "c10_sweep", "args": args}, timeout=3000)
        r = Result("C10.reader_sweep", "refuted" if res.get("violates") else ("proved" if "error" not in res else "error"), str(res.get("detail") or res.get("error") or "")[:300], paths=res.get("cases", 0))
        r.native, r.confirmed, r.request, r.witness = res, bool(res.get("violates")), {"call": "c10_sweep", "args": args}, res.get("witness")
        return r

    pack.add(Obligation("C10.reader_sweep", run_sweep, kind="bounded", note="native run on real files: random record sequences x selectors from a grammar (text, Selector and CompiledSelector objects) x the five reader adapters: reading with the selector equals "
                        "reading everything and testing each record with a FRESH selector; records observed before / after match(); bound 40 (quick) / 600 (thorough) cases", functions=FU))
    pack.assumptions += ["fastavro / csv / sqlite3 / open are ghost-state models (pyvc/models/ext.py); their conformance to the real engines is sampled by C10.cross", "msgpack and json tree models"]
    pack.not_covered = ["determinism of record construction itself (CSV and plain-JSON records are stamped with the read time)", "selectors outside the expression battery (arbitrary expressions are covered by the per-node obligations of C07 and the bounded sweep)"]
    return pack

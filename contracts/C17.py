"""C17 - writers lose nothing: close, split and rotation keep every record once.

Typestate contracts on the real writer adapters with ghost state (abstract files on a virtual file system, the fastavro block buffer, the sqlite3 transaction):

  close / with-exit   for StreamWriter, JsonfileWriter, AvroWriter, SqliteWriter and every history (write | flush)* ending in close, with-exit, or a double close:
                      what is durable afterwards, read back with the matching real reader, is exactly the sequence written (symbolic values)
  empty               open + close without records leaves an output the matching reader accepts as empty
  split               SplitWriter.write from an ARBITRARY counter state (symbolic `written`, symbolic `count`): the current part receives the record; the part is closed
                      (flushed) and a new part opened exactly when written + 1 >= count, so no part ever holds more than `count` records and no record is dropped or
                      duplicated (inductive step for all N and all limits); part paths for consecutive part numbers and suffix lengths are pairwise distinct;
                      concrete histories: the parts are readable on their own and their concatenation is the history
  rotation            PathTemplateWriter: each record goes to the file its template names; an existing file is renamed away first and the rename never replaces
                      an existing file - also when two rotations happen within the same second (clock model)
"""
import datetime as _dt
import itertools

import z3

from pyvc.models.ext import SqlDb

from .streamlib import *  # noqa

UTC = _dt.timezone.utc
GEN = _dt.datetime(2020, 1, 2, 3, 4, 5, tzinfo=UTC)


def build(tier="quick", seed=0):
    it, L, base, pk, st = mods()
    jf = L.import_module("flow.record.adapter.jsonfile")
    av = L.import_module("flow.record.adapter.avro")
    sq = L.import_module("flow.record.adapter.sqlite")
    sa = L.import_module("flow.record.adapter.stream")
    sp = L.import_module("flow.record.adapter.split")
    pack = new_pack("C17", "Writers lose nothing: close, split and rotation keep every record once")
    RD = base.g["RecordDescriptor"]
    FU = ("flow.record.adapter:AbstractWriter.__enter__", "flow.record.adapter:AbstractWriter.__exit__", "flow.record.adapter.stream:StreamWriter.write", "flow.record.adapter.stream:StreamWriter.flush", "flow.record.adapter.stream:StreamWriter.close",
          "flow.record.stream:RecordStreamWriter.write", "flow.record.stream:RecordStreamWriter.flush", "flow.record.stream:RecordStreamWriter.close", "flow.record.adapter.jsonfile:JsonfileWriter.write", "flow.record.adapter.jsonfile:JsonfileWriter.flush",
          "flow.record.adapter.jsonfile:JsonfileWriter.close", "flow.record.adapter.avro:AvroWriter.write", "flow.record.adapter.avro:AvroWriter.flush", "flow.record.adapter.avro:AvroWriter.close", "flow.record.adapter.sqlite:SqliteWriter.write",
          "flow.record.adapter.sqlite:SqliteWriter.flush", "flow.record.adapter.sqlite:SqliteWriter.close", "flow.record.adapter.sqlite:SqliteWriter.tx_cycle", "flow.record.adapter.split:SplitWriter.write", "flow.record.adapter.split:SplitWriter._next_path",
          "flow.record.adapter.split:SplitWriter.flush", "flow.record.adapter.split:SplitWriter.close", "flow.record.stream:PathTemplateWriter.write", "flow.record.stream:PathTemplateWriter.record_stream_for_path",
          "flow.record.stream:PathTemplateWriter.rotate_existing_file", "flow.record.stream:PathTemplateWriter.close", "flow.record.base:RecordAdapter", "flow.record.base:open_path")
    vs = [z3.Int(f"v{i}") for i in range(4)]

    def fresh_fs():
        it.vfs, it.vfs_auto, it.vfs_events, it.vfs_dirs, it.clock = {}, True, [], set(), []

    def desc():
        return it.call(RD, ["c17/rec", [("varint", "n"), ("string", "s")]], {})

    # ---- the four writers: (make writer on path, read back what is durable)
    def mk_stream(path):
        return it.call(sa.g["StreamWriter"], [path], {})

    def rd_stream(path):
        f = it.vfs.get(path)
        rd = it.call(sa.g["StreamReader"], [path], {})
        return list(it.iterate(rd))

    def mk_json(path):
        return it.call(jf.g["JsonfileWriter"], [path], {})

    def rd_json(path):
        return list(it.iterate(it.call(jf.g["JsonfileReader"], [path], {})))

    def mk_avro(path):
        return it.call(av.g["AvroWriter"], [path], {})

    def rd_avro(path):
        return list(it.iterate(it.call(av.g["AvroReader"], [path], {})))

    def mk_sqlite(path):
        return it.call(sq.g["SqliteWriter"], [path], {})

    def rd_sqlite(path):
        # an independent connection: sees committed data only
        return list(it.iterate(it.call(sq.g["SqliteReader"], [path], {})))

    WRITERS = {"StreamWriter": (mk_stream, rd_stream, "/abs/out.records"), "JsonfileWriter": (mk_json, rd_json, "/abs/out.json"), "AvroWriter": (mk_avro, rd_avro, "/abs/out.avro"), "SqliteWriter": (mk_sqlite, rd_sqlite, "/abs/out.sqlite")}
    ENDINGS = {"close": ["close"], "with-exit": ["exit"], "close close": ["close", "close"], "with-exit close": ["exit", "close"], "flush close": ["flush", "close"],
               "with-exit after an exception in the block": ["exit_exc"]}

    def run_history(wname, body, ending):
        mk, rd, path = WRITERS[wname]

        def th():
            fresh_fs()
            for v in vs:
                it.assume(z3.And(v >= 0, v < 2**31))
            D = desc()
            w = mk(path)
            if ending.startswith("with-exit"):
                # `with <writer> as w:` - the block works with what __enter__ hands out
                w = it.call(it.getattr_(w, "__enter__"), [], {})
                if not hasattr(w, "cls"):
                    raise PyRaise(AttributeError(f"the with-block got {w!r} instead of a writer"))
            written = []
            k = 0
            for op in list(body) + ENDINGS[ending]:
                if op == "w":
                    r = it.call(D, [], {"n": SInt(vs[k % 4]), "s": f"r{k}", "_generated": GEN})
                    k += 1
                    it.call(it.getattr_(w, "write"), [r], {})
                    written.append(r)
                elif op == "x":
                    # a record the writer cannot store: the write is refused with an error that the caller catches; what was accepted before must stay
                    if wname in ("SqliteWriter", "AvroWriter"):
                        bad = it.call(D, [], {"n": 2**70, "s": "refused", "_generated": GEN})
                    else:
                        bad = it.call(it.call(RD, ["c17/dl", [("dictlist", "dl")]], {}), [], {"dl": [{"k": {1, 2}}], "_generated": GEN})
                    try:
                        it.call(it.getattr_(w, "write"), [bad], {})
                        written.append(bad)
                    except PyRaise:
                        pass
                elif op in ("f", "flush"):
                    it.call(it.getattr_(w, "flush"), [], {})
                elif op == "close":
                    it.call(it.getattr_(w, "close"), [], {})
                elif op == "exit":
                    it.call(it.getattr_(w, "__exit__"), [None, None, None], {})
                elif op == "exit_exc":
                    # the with-block is left by an exception that the caller catches further up: the writer is closed like on any other exit
                    exc = ValueError("the block failed")
                    it.call(it.getattr_(w, "__exit__"), [ValueError, exc, None], {})
            # what was handed to the file object reaches the disk when the file object is flushed or closed (a buffered file keeps the tail in memory until then)
            f = it.vfs.get(path) if getattr(it, "vfs", None) else None
            ops = [e[0] for e in getattr(f, "log", [])]
            pending = None
            if "write" in ops and not any(o in ("flush", "close") for o in ops[len(ops) - ops[::-1].index("write"):]):
                pending = f"the writer is closed but its file {path} was neither flushed nor closed after the last write: what the file object still buffers is not on disk"
            try:
                back = rd(path)
                err = None
            except PyRaise as e:
                back, err = [], f"{e.cls_name}: {e}"
            return written, back, err or pending
        return th

    def judge_history(p):
        written, back, err = p.value
        if err is not None:
            return False, f"the closed output is not readable: {err}"
        if len(back) != len(written):
            return False, f"{len(written)} record(s) written before close, {len(back)} readable afterwards"
        conj = []
        for a, b in zip(written, back):
            if it.unbase(a.attrs["s"]) != it.unbase(b.attrs.get("s")):
                return False, f"record order / content changed: {it.unbase(a.attrs['s'])!r} vs {it.unbase(b.attrs.get('s'))!r}"
            conj.append(it.zint(a.attrs["n"]) == it.zint(b.attrs["n"]))
        return (z3.And(*conj) if conj else True), "a value differs"

    for wname in WRITERS:
        for body in (("w", "x", "w"), ("x", "w"), ("w", "w", "x", "w", "f"), ("w", "x")):
            for ending in ("close", "with-exit"):
                name = f"C17.refused[{wname}, {' '.join(body)} then {ending}]"
                pack.add(Obligation(name, lambda tier, name=name, wname=wname, body=body, ending=ending: prove_paths(name, run_history(wname, body, ending), judge_history, lambda m_, p: {}, allow_raise=("error",)),
                                    replay=lambda w, wname=wname, body=body, ending=ending: {"call": "c17_history", "args": {"writer": wname, "body": "".join(body), "ending": ending}}, functions=FU,
                                    mode="histories with a refused write (x) between accepted ones"))

    # a refused write after ANY number of accepted ones: the writer's own counters (integer attributes, if it keeps any) take arbitrary values before the refused write -
    # a writer that checks records only for a while, or differently after some count, is the same writer in a later state
    STATE = {}

    def th_refused_step(wname):
        mk, rd, path = WRITERS[wname]

        def th():
            fresh_fs()
            STATE.clear()
            for v in vs:
                it.assume(z3.And(v >= 0, v < 2**31))
            D = it.call(RD, ["c17/step", [("string", "s"), ("varint", "n")]], {})  # (the value that is refused is in the SECOND field: an encoder that stops there has the first one in the block)
            w = mk(path)
            written = [it.call(D, [], {"n": SInt(vs[0]), "s": "r0", "_generated": GEN})]
            it.call(it.getattr_(w, "write"), [written[0]], {})
            for k_, v_ in list(w.attrs.items()):
                u_ = it.unbase(v_)
                if isinstance(u_, int) and not isinstance(u_, bool):
                    STATE[k_] = z3.Int(f"c17_state_{k_}")
                    it.assume(STATE[k_] >= u_)
                    w.attrs[k_] = SInt(STATE[k_])
            bad = it.call(D, [], {"n": 2**70, "s": "refused", "_generated": GEN})
            try:
                it.call(it.getattr_(w, "write"), [bad], {})
                written.append(bad)
            except PyRaise:
                pass
            r1 = it.call(D, [], {"n": SInt(vs[1]), "s": "r1", "_generated": GEN})
            it.call(it.getattr_(w, "write"), [r1], {})
            written.append(r1)
            it.call(it.getattr_(w, "close"), [], {})
            try:
                back, err = rd(path), None
            except PyRaise as e:
                back, err = [], f"{e.cls_name}: {e}"
            return written, back, err
        return th

    for wname in ("AvroWriter",):
        name = f"C17.refused.step[{wname}, counters of the writer at arbitrary values, x w then close]"
        pack.add(Obligation(name, lambda tier, name=name, wname=wname: prove_paths(name, th_refused_step(wname), judge_history, lambda m_, p: {k_: model_value(m_, v_) for k_, v_ in STATE.items()}, allow_raise=("error",)),
                            replay=lambda w, wname=wname: {"call": "c17_refused_step", "args": {"writer": wname, "accepted_before": max([1] + [v for v in w.values() if isinstance(v, int) and 0 <= v <= 5000])}}, functions=FU,
                            mode="inductive step: one accepted write, the writer's integer attributes havocked (>= their value), a refused write, an accepted write, close"))

    for wname in WRITERS:
        for nops in range(0, 4):
            for body in itertools.product("wf", repeat=nops):
                for ending in ENDINGS:
                    if tier == "quick" and nops == 3 and ending not in ("close", "with-exit"):
                        continue
                    if ending.startswith("with-exit after") and nops == 3:
                        continue
                    empty = "w" not in body
                    name = f"C17.{'empty' if empty else 'close'}[{wname}, {' '.join(body) or '-'} then {ending}]"
                    pack.add(Obligation(name, lambda tier, name=name, wname=wname, body=body, ending=ending: prove_paths(name, run_history(wname, body, ending), judge_history, lambda m_, p: {}, allow_raise=("error",)),
                                        replay=lambda w, wname=wname, body=body, ending=ending: {"call": "c17_history", "args": {"writer": wname, "body": "".join(body), "ending": ending}}, functions=FU,
                                        mode="bounded-exhaustive history (at most 3 write / flush calls before the ending), symbolic values"))
    pack.case_analyses.append("writer histories: every sequence of at most 3 write / flush calls followed by close, with-exit, close close, with-exit close, flush close (quick tier: the three-call bodies only with close and with-exit)")

    # ------------------------------------------------------------------ split: inductive step from an arbitrary counter state
    kk, cc = z3.Int("written"), z3.Int("count")

    def th_split_step():
        fresh_fs()
        D = desc()
        w = it.call(sp.g["SplitWriter"], ["/abs/parts/out.records"], {"count": 5})
        it.assume(z3.And(cc >= 1, kk >= 0, kk < cc))
        w.attrs["written"], w.attrs["count"] = SInt(kk), SInt(cc)
        first_path = "/abs/parts/out.00.records"
        inner0 = it.getattr_(w, "writer")
        r = it.call(D, [], {"n": SInt(vs[0]), "s": "x", "_generated": GEN})
        it.call(it.getattr_(w, "write"), [r], {})
        inner1 = it.getattr_(w, "writer")
        f0 = it.vfs.get(first_path)
        nrec0 = sum(1 for e in stream_kinds(f0.content()) if e == "record")
        return inner0 is inner1, w.attrs["written"], f0.closed, nrec0, sorted(it.vfs), it.getattr_(w, "file_count")

    def stream_kinds(segs):
        out = []
        for body in segs[1::2]:
            t = getattr(body, "tree", None)
            if t == ("leaf", MAGIC):
                out.append("magic")
            elif t and t[0] == "ext":
                sub = t[2].tree[1][0]
                out.append({("leaf", 1): "record", ("leaf", 2): "descriptor"}.get(sub, "?"))
            else:
                out.append("?")
        return out

    def judge_split_step(p):
        same_writer, written, closed0, nrec0, paths, file_count = p.value
        if nrec0 != 1:
            return False, f"the current part received {nrec0} record frames for one write"
        wz = it.zint(written)
        if same_writer:
            # not rotated: allowed only while the part is still below the limit
            ok = z3.And(kk + 1 < cc, wz == kk + 1, z3.BoolVal(not closed0), z3.BoolVal(file_count == 1))
            return ok, "the part was not closed although it reached the limit (or the counter is wrong)"
        ok = z3.And(kk + 1 >= cc, wz == 0, z3.BoolVal(bool(closed0)), z3.BoolVal(file_count == 2 and "/abs/parts/out.01.records" in paths))
        return ok, "a new part was opened before the limit was reached, or the old part was not closed / the counter not reset"

    pack.add(Obligation("C17.split.step[arbitrary written < count]", lambda tier: prove_paths("C17.split.step[arbitrary written < count]", th_split_step, judge_split_step, lambda m_, p: {"written": model_value(m_, kk), "count": model_value(m_, cc)}, allow_raise=("error",)),
                        replay=lambda w: {"call": "c17_split", "args": {"n": (w.get("written") or 0) + 1 if isinstance(w.get("written"), int) else 3, "count": w.get("count") if isinstance(w.get("count"), int) and 0 < w.get("count") < 50 else 2}}, functions=FU,
                        mode="invariant step: symbolic counter and limit (0 <= written < count), one write"))

    def th_split_paths():
        out = {}
        for target, sl in (("/abs/p/out.records", 2), ("/abs/p/out.records", 1), ("/abs/p/out.records.gz", 2), ("jsonfile:///abs/p/out.json", 3), ("/abs/p/noext", 2)):
            fresh_fs()
            w = it.call(sp.g["SplitWriter"], [target], {"count": 1, "suffix-length": sl})
            paths = ["first"]
            w.attrs["file_count"] = 0
            ps = [it.call(it.getattr_(w, "_next_path"), [], {}) for _ in range(12)]
            out[(target, sl)] = ps
        return out

    def judge_split_paths(p):
        for key, ps in p.value.items():
            if len(set(ps)) != len(ps):
                return False, f"part paths of {key} repeat: {ps}"
            if not all(q.endswith(key[0].rsplit(".", 1)[-1]) or "." not in key[0].rsplit("/", 1)[-1] for q in ps):
                return False, f"part paths of {key} lose the extension: {ps[:3]}"
        return True

    pack.add(Obligation("C17.split.paths[part numbers 0..11, suffix lengths 1..3]", lambda tier: prove_paths("C17.split.paths[part numbers 0..11, suffix lengths 1..3]", th_split_paths, judge_split_paths), replay=lambda w: {"call": "c17_split", "args": {"n": 12, "count": 1}},
                        functions=FU, mode="finite case analysis (12 consecutive part numbers incl. more digits than the suffix length)"))

    def run_split_history(n, count, ending, target="/abs/parts/out.records", reader=None):
        def th():
            fresh_fs()
            D = desc()
            w = it.call(sp.g["SplitWriter"], [target], {"count": str(count)})
            for i in range(n):
                it.call(it.getattr_(w, "write"), [it.call(D, [], {"n": SInt(vs[i % 4]), "s": f"r{i}", "_generated": GEN})], {})
            for op in ENDINGS[ending]:
                it.call(it.getattr_(w, "__exit__" if op == "exit" else op), [None, None, None] if op == "exit" else [], {})
            parts = []
            for path in sorted(it.vfs):
                try:
                    parts.append((path, [it.unbase(r.attrs["s"]) for r in (reader or rd_stream)(path)], None))
                except PyRaise as e:
                    parts.append((path, [], f"{e.cls_name}: {e}"))
            return parts
        return th

    def judge_split_history(n, count):
        def judge(p):
            parts = p.value
            bad = [(q, e) for q, _, e in parts if e]
            if bad:
                return False, f"part {bad[0][0]} is not readable on its own: {bad[0][1]}"
            if any(len(rs) > count for _, rs, _ in parts):
                return False, f"a part holds more than {count} records: {[(q, len(rs)) for q, rs, _ in parts]}"
            allr = [r for _, rs, _ in parts for r in rs]
            return allr == [f"r{i}" for i in range(n)], f"concatenation of the parts {allr} is not the history of {n} records"
        return judge

    for n, count in ((0, 2), (1, 2), (2, 2), (3, 2), (4, 2), (5, 3), (3, 1), (6, 3)):
        for ending in ("close", "with-exit"):
            name = f"C17.split.history[N={n}, count={count}, {ending}]"
            pack.add(Obligation(name, lambda tier, name=name, n=n, count=count, ending=ending: prove_paths(name, run_split_history(n, count, ending), judge_split_history(n, count), lambda m_, p: {}, allow_raise=("error",)),
                                replay=lambda w, n=n, count=count, ending=ending: {"call": "c17_split", "args": {"n": n, "count": count, "ending": ending}}, functions=FU, mode="concrete history (N, count), symbolic values"))

    # the in-order concatenation of the parts AS RAW BYTES (cat part.* > whole) is a stream that reads back as exactly the sequence written, with and without a selector
    def run_split_raw(n, count, selector):
        def th():
            fresh_fs()
            D = desc()
            w = it.call(sp.g["SplitWriter"], ["/abs/parts/out.records"], {"count": str(count)})
            for i in range(n):
                it.call(it.getattr_(w, "write"), [it.call(D, [], {"n": SInt(vs[i % 4]), "s": f"r{i}", "_generated": GEN})], {})
            it.call(it.getattr_(w, "close"), [], {})
            whole = []
            for path in sorted(it.vfs):
                whole += it.vfs[path].content()
            rd = it.call(st.g["RecordStreamReader"], [AbsFile(it, whole)], {"selector": selector})
            out, end = drain(it, it.iterate(rd))
            return [it.unbase(r.attrs["s"]) if isinstance(r, PObj) else repr(r)[:30] for r in out], end if isinstance(end, str) else end[:2]
        return th

    for n, count in ((3, 1), (5, 2), (4, 2)):
        for selector in (None, "r.s != 'nothing'"):
            name = f"C17.split.raw[N={n}, count={count}, parts concatenated as raw bytes, {'selector ' + selector if selector else 'no selector'}]"
            pack.add(Obligation(name, lambda tier, name=name, n=n, count=count, selector=selector: prove_paths(name, run_split_raw(n, count, selector), lambda p, n=n: (p.value == ([f"r{i}" for i in range(n)], "stop"), f"the parts concatenated as raw bytes read back as {p.value[0]}, ended {p.value[1]}; written r0..r{n - 1}"), lambda m_, p: {}, allow_raise=("error",)),
                                replay=lambda w, n=n, count=count, selector=selector: {"call": "c17_split_raw", "args": {"n": n, "count": count, "selector": selector}}, functions=FU + ("flow.record.stream:RecordStreamReader.__iter__",), mode="concrete history (N, count), symbolic values"))

    # targets given as an adapter URI / a bare file name in the working directory are split like any other (only "-" / nothing means standard output)
    for target, reader in (("jsonfile://out.json", "json"), ("out.records", "stream"), ("stream://out.records", "stream"), ("jsonfile://./sub/out.json", "json")):
        name = f"C17.split.target[{target}, N=5, count=2]"
        pack.add(Obligation(name, lambda tier, name=name, target=target, reader=reader: prove_paths(name, run_split_history(5, 2, "close", target, rd_json if reader == "json" else rd_stream), judge_split_history(5, 2), lambda m_, p: {}, allow_raise=("error",)),
                            replay=lambda w, target=target: {"call": "c17_split_target", "args": {"target": target}}, functions=FU, mode="relative and adapter-URI targets"))

    # ------------------------------------------------------------------ rotation
    def th_rotation(same_second):
        def th():
            fresh_fs()
            D = desc()
            t0 = _dt.datetime(2024, 5, 6, 7, 8, 9, tzinfo=UTC)
            it.clock = [t0 + _dt.timedelta(seconds=(0 if same_second else i)) for i in range(12)]
            PTW = st.g["PathTemplateWriter"]
            # timestamps are not monotonic: the third record of a run goes back to the hour (file) of the first one, which this writer itself created
            gens = [_dt.datetime(2017, 12, 6, 22, 10, tzinfo=UTC), _dt.datetime(2017, 12, 6, 23, 1, tzinfo=UTC), _dt.datetime(2017, 12, 6, 22, 50, tzinfo=UTC)]
            for run in range(3):  # three writers in a row onto the same templated paths: each finds the previous file and must move it away
                w = it.call(PTW, ["/abs/arch/{name}-{ts:%Y%m%dT%H}.records"], {"name": "t"})
                for j, g in enumerate(gens):
                    it.call(it.getattr_(w, "write"), [it.call(D, [], {"n": SInt(vs[j]), "s": f"run{run}-{j}", "_generated": g})], {})
                it.call(it.getattr_(w, "close"), [], {})
            found = {}
            for path in sorted(it.vfs):
                found[path] = [it.unbase(r.attrs["s"]) for r in rd_stream(path)]
            return found, [e for e in it.vfs_events if e[0] in ("rename-overwrite", "overwrite")]
        return th

    def judge_rotation(p):
        found, lost = p.value
        if lost:
            return False, f"an existing file was replaced: {[(e[0], e[1], e[2] if e[0] == 'rename-overwrite' else '') for e in lost]}"
        allr = sorted(r for rs in found.values() for r in rs)
        want = sorted(f"run{run}-{j}" for run in range(3) for j in range(3))
        if allr != want:
            return False, f"records on disk {allr}, written {want}"
        for path, rs in found.items():
            hour = "T22" if "T22" in path else "T23"
            if any((r.endswith("-1")) != (hour == "T23") for r in rs):
                return False, f"{path} holds {rs}: a record is not in the file its template names"
        return True

    for same in (False, True):
        name = f"C17.rotate[three runs onto the same paths, {'two rotations within one second' if same else 'one rotation per second'}]"
        pack.add(Obligation(name, lambda tier, name=name, same=same: prove_paths(name, th_rotation(same), judge_rotation, lambda m_, p: {}, allow_raise=("error",)), replay=lambda w, same=same: {"call": "c17_rotate", "args": {"same_second": same}}, functions=FU,
                            mode="concrete history with a modelled clock"))

    # ------------------------------------------------------------------ the template names the file: consecutive records of one path share it, finer templates are honoured
    def th_template(template, minutes, tz=UTC):
        UTC_ = tz

        def th():
            fresh_fs()
            D = desc()
            w = it.call(st.g["PathTemplateWriter"], [template], {"name": "t"})
            expected = {}
            for j, (hh, mm) in enumerate(minutes):
                g = _dt.datetime(2017, 12, 6, hh, mm, tzinfo=UTC_)
                r = it.call(D, [], {"n": SInt(vs[j % 4]), "s": f"r{j}", "_generated": g})
                it.call(it.getattr_(w, "write"), [r], {})
                expected.setdefault(template.format(name="t", record=None, ts=g) if "{record" not in template else template, []).append(f"r{j}")
            it.call(it.getattr_(w, "close"), [], {})
            found = {path: [it.unbase(r.attrs["s"]) for r in rd_stream(path)] for path in sorted(it.vfs)}
            return found, expected, [e for e in it.vfs_events if e[0] in ("rename", "rename-overwrite", "overwrite")]
        return th

    def judge_template(p):
        found, expected, events = p.value
        if events:
            return False, f"one writer, no pre-existing files, no path revisited: files were renamed / replaced: {[(e[0], e[1]) for e in events]}"
        return found == expected, f"files on disk {found}, the template names {expected}"

    for label, template, minutes in (("three records of one hour", "/abs/arch/{name}-{ts:%Y%m%dT%H}.records", [(22, 10), (22, 20), (22, 59)]), ("hour template, hours 22 22 23 23", "/abs/arch/{name}-{ts:%Y%m%dT%H}.records", [(22, 10), (22, 20), (23, 1), (23, 2)]),
                                     ("minute template", "/abs/arch/{name}-{ts:%Y%m%dT%H%M}.records", [(22, 10), (22, 10), (22, 20), (23, 1)]), ("day directory template", "/abs/arch/{ts:%Y/%m/%d}/{name}-{ts:%H%M}.records", [(22, 10), (22, 11)])):
        name = f"C17.template[{label}]"
        pack.add(Obligation(name, lambda tier, name=name, template=template, minutes=minutes: prove_paths(name, th_template(template, minutes), judge_template, lambda m_, p: {}, allow_raise=("error",)),
                            replay=lambda w, template=template, minutes=minutes: {"call": "c17_template", "args": {"template": template.replace("/abs/arch/", ""), "minutes": minutes}}, functions=FU, mode="concrete histories of one writer on an empty directory"))
    # the timestamp that names the file is the record's own (_generated with its own UTC offset), not its UTC form
    for label, template, minutes, off in (("records stamped +05:30, hour template", "/abs/arch/{name}-{ts:%Y%m%dT%H}.records", [(22, 10), (23, 40)], 330), ("records stamped -08:00, day directory template", "/abs/arch/{ts:%Y/%m/%d}/{name}-{ts:%H%M}.records", [(20, 10), (23, 59)], -480)):
        name = f"C17.template[{label}]"
        pack.add(Obligation(name, lambda tier, name=name, template=template, minutes=minutes, off=off: prove_paths(name, th_template(template, minutes, _dt.timezone(_dt.timedelta(minutes=off))), judge_template, lambda m_, p: {}, allow_raise=("error",)),
                            replay=lambda w, template=template, minutes=minutes, off=off: {"call": "c17_template", "args": {"template": template.replace("/abs/arch/", ""), "minutes": minutes, "offset_minutes": off}}, functions=FU, mode="concrete histories of one writer on an empty directory"))

    # a template without a directory part (as the writer's own default template) names files in the working directory
    for label, template in (("file name only, no directory part", "{name}-{ts:%Y%m%dT%H}.records"), ("the default template", None)):
        name = f"C17.template[{label}]"

        def th_rel(template=template):
            fresh_fs()
            D = desc()
            w = it.call(st.g["PathTemplateWriter"], [template] if template else [], {"name": "t"})
            g = _dt.datetime(2017, 12, 6, 22, 10, tzinfo=UTC)
            for j in range(2):
                it.call(it.getattr_(w, "write"), [it.call(D, [], {"n": SInt(vs[j]), "s": f"r{j}", "_generated": g})], {})
            it.call(it.getattr_(w, "close"), [], {})
            return {path: [it.unbase(r.attrs["s"]) for r in rd_stream(path)] for path in sorted(it.vfs)}

        want = {(template or "{name}-{ts:%Y%m%dT%H}.records.gz").format(name="t", ts=_dt.datetime(2017, 12, 6, 22, 10, tzinfo=UTC)): ["r0", "r1"]}
        pack.add(Obligation(name, lambda tier, name=name, th_rel=th_rel, want=want: prove_paths(name, th_rel, lambda p, want=want: (p.value == want, f"files on disk {p.value}, the template names {want}"), lambda m_, p: {}, allow_raise=("error",)),
                            replay=lambda w, template=template: {"call": "c17_template", "args": {"template": template, "minutes": [(22, 10), (22, 10)], "relative": True}}, functions=FU, mode="concrete history of one writer in an empty working directory"))

    # the archiver (RecordArchiver): the same writer under <archive>/YYYY/mm/dd/ of the record's own time; a second run onto the same files renames, never replaces
    def th_archiver():
        fresh_fs()
        D = desc()
        t0 = _dt.datetime(2024, 5, 6, 7, 8, 9, tzinfo=UTC)
        it.clock = [t0 + _dt.timedelta(seconds=i) for i in range(8)]
        gens = [_dt.datetime(2017, 12, 6, 22, 10, tzinfo=UTC), _dt.datetime(2017, 12, 7, 1, 1, tzinfo=UTC), _dt.datetime(2017, 12, 7, 1, 30, tzinfo=UTC)]
        for run in range(2):
            w = it.call(st.g["RecordArchiver"], ["/abs/archive"], {"path_template": "{name}-{ts:%H}.records", "name": "t"})
            for j, g in enumerate(gens):
                it.call(it.getattr_(w, "write"), [it.call(D, [], {"n": SInt(vs[j]), "s": f"run{run}-{j}", "_generated": g})], {})
            it.call(it.getattr_(w, "close"), [], {})
        found = {path: [it.unbase(r.attrs["s"]) for r in rd_stream(path)] for path in sorted(it.vfs)}
        return found, [e for e in it.vfs_events if e[0] in ("rename-overwrite", "overwrite")]

    def judge_archiver(p):
        found, lost = p.value
        if lost:
            return False, f"an existing file was replaced: {[(e[0], e[1]) for e in lost]}"
        current = {"/abs/archive/2017/12/06/t-22.records": ["run1-0"], "/abs/archive/2017/12/07/t-01.records": ["run1-1", "run1-2"]}
        for path, want in current.items():
            if found.get(path) != want:
                return False, f"{path} holds {found.get(path)}, the second run wrote {want} there; files on disk: {sorted(found)}"
        rest = {k: v for k, v in found.items() if k not in current}
        if sorted(rest.values()) != [["run0-0"], ["run0-1", "run0-2"]] or any(not k.startswith(("/abs/archive/2017/12/06/t-22.", "/abs/archive/2017/12/07/t-01.")) for k in rest):
            return False, f"the files of the first run after being moved away: {rest}"
        return True

    pack.add(Obligation("C17.archive[RecordArchiver: day directories of the record's own time, two runs onto the same files]", lambda tier: prove_paths("C17.archive[RecordArchiver: day directories of the record's own time, two runs onto the same files]", th_archiver, judge_archiver, lambda m_, p: {}, allow_raise=("error",)),
                        replay=lambda w: {"call": "c17_archiver", "args": {}}, functions=FU + ("flow.record.stream:RecordArchiver.__init__",), mode="concrete history with a modelled clock"))

    # the copy helper stream(src, dst): every record of the source, in order, is in the destination once the destination is closed
    def th_copy_helper():
        fresh_fs()
        D = desc()
        w = mk_stream("/abs/src.records")
        written = []
        for k in range(3):
            r = it.call(D, [], {"n": SInt(vs[k]), "s": f"r{k}", "_generated": GEN})
            it.call(it.getattr_(w, "write"), [r], {})
            written.append(r)
        it.call(it.getattr_(w, "close"), [], {})
        src = it.call(sa.g["StreamReader"], ["/abs/src.records"], {})
        dst = mk_json("/abs/dst.json")
        it.call(base.g["stream"], [src, dst], {})
        it.call(it.getattr_(dst, "close"), [], {})
        return written, rd_json("/abs/dst.json"), None

    pack.add(Obligation("C17.copy[stream(reader, writer): three records from a record stream into a JSON file]", lambda tier: prove_paths("C17.copy[stream(reader, writer): three records from a record stream into a JSON file]", th_copy_helper, judge_history, lambda m_, p: {}, allow_raise=("error",)),
                        replay=lambda w: {"call": "c17_copy_helper", "args": {}}, functions=FU + ("flow.record.base:stream",), mode="concrete history, symbolic values"))

    # ------------------------------------------------------------------ canary / conformance / bounded
    def run_canary(tier):
        def th():
            fresh_fs()
            D = desc()
            w = mk_sqlite("/abs/out.sqlite")
            r = it.call(D, [], {"n": SInt(vs[0]), "s": "r0", "_generated": GEN})
            it.call(it.getattr_(w, "write"), [r], {})
            return [r], rd_sqlite("/abs/out.sqlite"), None  # deliberately read before close: the open transaction is not visible yet
        return prove_paths("C17.canary", th, judge_history, lambda m_, p: {}, allow_raise=("error",))

    pack.add(Obligation("C17.canary", run_canary, kind="canary"))

    def run_cross(tier):
        res = native_replay({"call": "c10_model_conformance", "args": {}})
        return Result("C17.cross", "proved" if res.get("ok") else "refuted", str(res.get("detail") or res.get("error") or "")[:300], paths=res.get("cases", 0))

    pack.add(Obligation("C17.cross", run_cross, kind="cross"))

    def run_sweep(tier):
        args = {"seed": seed, "n": 60 if tier == "quick" else 1200}
        res = native_replay({"call": "c17_sweep", "args": args}, timeout=3000)
        r = Result("C17.writer_sweep", "refuted" if res.get("violates") else ("proved" if "error" not in res else "error"), str(res.get("detail") or res.get("error") or "")[:300], paths=res.get("cases", 0))
        r.native, r.confirmed, r.request, r.witness = res, bool(res.get("violates")), {"call": "c17_sweep", "args": args}, res.get("witness")
        return r

    pack.add(Obligation("C17.writer_sweep", run_sweep, kind="bounded", note="native run on real files, read back with the matching reader and with independent tools (gzip, fastavro, sqlite3, json): random write / flush / close / with-exit histories per writer adapter and compression; "
                        "split for record counts N x limits x suffix lengths x target URIs (parts readable on their own, concatenation record-wise); rotation with pre-existing files; bound 60 (quick) / 1200 (thorough) cases", functions=FU))
    pack.assumptions += ["file contract: what was handed to a file object is on disk once the file object is flushed or closed afterwards (the close histories check that a flush or close of the file follows the last write); flush() does not change content", "fastavro / sqlite3 ghost-state models (sampled by C17.cross)", "file system model: rename replaces an existing target (POSIX), open for writing truncates",
                         "gzip / bz2 / lz4 / zstd are transparent wrappers in the deductive part (real codecs only in the native sweep)", "the clock is modelled for the rotation stamp (datetime.now)"]
    pack.not_covered = ["OS-level durability (fsync, power loss), races between os.path.exists and os.rename",
                        "__del__ driven closing at interpreter shutdown"]
    return pack

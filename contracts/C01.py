"""C01 - record stream round-trip preserves every record exactly.

read(write(rs)) == rs is composed from contracts that are each discharged on the real code:
  L1 framing and L5 count / order   C04 (writer frames, reader loop invariant: one yield per complete record frame, in order)
  L2 envelopes                      C02 (pack / unpack of record, descriptor, timestamp, big integer, grouped record against the published format)
  L5 descriptor resolution          C03 (definition before first use, registry[identifier])
and, in this pack, on RecordStreamWriter -> abstract file -> RecordStreamReader executed end to end:
  L3 per field type T (every serialisable whitelisted type, scalar and list form):  obs(read(write(record with x: T))) == obs(record)  where obs is the DEEP
     observation (class name at every level, flavour of paths, members of digests / commands, list order, unset vs empty); values are symbolic where the engine
     has a theory for them (integers of any size, text), representative otherwise (finite case analysis, stated); unset (None) per type
  L4 record level: slot order of Record._pack against the positional generated _unpack / __init__, also for the *args/**kwargs template used when a field is
     named like a Python keyword (falsy values 0 / "" / False must survive), metadata fields included
  sequences mixing descriptors, nested records (record, record[]) and grouped records
"""
import importlib.util
import os
import pathlib

import z3

from .streamlib import *  # noqa

_spec = importlib.util.spec_from_file_location("c05_values", os.path.join(os.path.dirname(os.path.dirname(os.path.abspath(__file__))), "replay", "c05_values.py"))
V = importlib.util.module_from_spec(_spec)
_spec.loader.exec_module(V)

INT_TYPES = {"varint": None, "filesize": None, "unix_file_mode": None, "uint16": (0, 0xFFFF), "uint32": (0, 0xFFFFFFFF), "net.tcp.Port": (0, 0xFFFF), "net.udp.Port": (0, 0xFFFF)}
TEXT_TYPES = ["string", "wstring", "uri"]
ENCODABLE = z3.Star(z3.Union(z3.Range(chr(0), chr(0xD7FF)), z3.Range(chr(0xDC80), chr(0xDCFF)), z3.Range(chr(0xE000), chr(0x2FFFF))))
# (text with a surrogate outside the escape range U+DC80..U+DCFF has no encoding: the write is refused - what must not happen is that it comes back as other text)
LONE = ["'\\ud800'", "'a\\udfffb'", "'\\udbff\\udc00'", "'caf\\udce9 \\ud83d'"]
EXTRA_VALUES = {"string": LONE, "wstring": LONE[:1], "uri": LONE[:1], "stringlist": ["['x', '\\ud800']"], "dynamic": LONE[:1] + ["['x', 0]", "['/tmp/a', 1]", "['x', True]", "['c:\\\\x', False]", "[]", "['only one']"], "net.ipaddress": ["'255.255.255.255'", "'0.0.0.0'", "'::ffff:1.2.3.4'", "'2001:db8::1'"], "float": ["-0.0", "float('inf')", "5e-324", "float('nan')", "F64('fff80000deadbeef')", "F64('7ff8000000000123')", "F64('fff8000000000000')", "F64('7ff0000000000001')"], "boolean": ["True", "False"],
                "path": ["'relative/p'", "'C:\\\\Users\\\\x'", "'/'"], "datetime": ["DT(1, 1, 1, tzinfo=TZ(TD(0)))", "DT(9999, 12, 31, 23, 59, 59, 999999, tzinfo=TZ(TD(0)))", "DT(2021, 10, 31, 2, 30, tzinfo=TZ(TD(hours=-3, minutes=-30)))", "DT(2020, 1, 2, 3, 4, 5, 6, tzinfo=TZ(TD(minutes=19, seconds=32)))", "DT(1900, 1, 1, tzinfo=TZ(-TD(hours=4, minutes=56, seconds=2)))"],
                "bytes": ["bytes(range(256))"], "command": ["'x'", "\"''\"", "\"'' -c 'echo hello'\"", "'\"\" /x /y'", "'%COMSPEC% /c dir'"], "dictlist": ["[{'a': [1, 2]}]", "[{'a': {'b': 1}, 'c': None}]", "[{b'k': 1, 'k': 2}]", "[{b'\\xff': b'v'}]", "[{1: 'a', 2.5: None, True: 'b'}]", "[{-7: {2: 'nested'}}]"], "digest": ["('d41d8cd98f00b204e9800998ecf8427e', 'da39a3ee5e6b4b0d3255bfef95601890afd80709', 'e3b0c44298fc1c149afbf4c8996fb92427ae41e4649b934ca495991b7852b855')"]}


def pyvalue(src):
    import struct

    return eval(src, dict(V.NS, PurePosixPath=pathlib.PurePosixPath, PureWindowsPath=pathlib.PureWindowsPath, F64=lambda h: struct.unpack(">d", bytes.fromhex(h))[0]))


def build(tier="quick", seed=0):
    it, L, base, pk, st = mods()
    pack = new_pack("C01", "Record stream round-trip preserves every record exactly")
    RD, GR = base.g["RecordDescriptor"], base.g["GroupedRecord"]
    FU = ("flow.record.stream:RecordStreamWriter.write", "flow.record.stream:RecordStreamReader.__iter__", "flow.record.stream:RecordStreamReader.read", "flow.record.packer:RecordPacker.pack_obj", "flow.record.packer:RecordPacker.unpack_obj",
          "flow.record.base:Record._pack", "flow.record.base:Record.__setattr__", "flow.record.base:_generate_record_class", "flow.record.base:GroupedRecord.__init__", "flow.record.base:GroupedRecord._pack",
          "flow.record.fieldtypes:<every field type>._pack/_unpack/__init__/__new__", "flow.record.fieldtypes:typedlist._pack", "flow.record.fieldtypes:typedlist._unpack", "flow.record.fieldtypes.net.ip:ipaddress._pack",
          "flow.record.fieldtypes.net.ip:ipaddress._unpack", "flow.record.fieldtypes.net.ip:ipnetwork._pack", "flow.record.fieldtypes.net.ip:ipnetwork._unpack", "flow.record.fieldtypes:path._pack", "flow.record.fieldtypes:path._unpack",
          "flow.record.fieldtypes:command._pack", "flow.record.fieldtypes:command._unpack", "flow.record.fieldtypes:digest._pack", "flow.record.fieldtypes:digest._unpack", "flow.record.fieldtypes:datetime.__new__")
    x, y = z3.Int("x"), z3.Int("y")
    sv, sw = z3.String("s"), z3.String("w")

    def roundtrip(records):
        """write with the real writer onto an abstract file, read back with the real reader: list of records read, how the reader ended"""
        fp = AbsFile(it, mode="wb")
        w = it.call(st.g["RecordStreamWriter"], [fp], {})
        for r in records:
            it.call(it.getattr_(w, "write"), [r], {})
        it.call(it.getattr_(w, "flush"), [], {})
        rd = it.call(st.g["RecordStreamReader"], [AbsFile(it, fp.content())], {})
        return drain(it, it.call(it.getattr_(rd, "__iter__"), [], {}))

    def judge_same(p):
        if p.kind == "raise":
            return exc_name(p) in ("UnicodeEncodeError", "error"), f"raised {exc_text(p)}"
        before, (out, end) = p.value
        if end != "stop" or len(out) != len(before):
            return False, f"{len(before)} record(s) written, {len(out)} read, reader ended {end if isinstance(end, str) else end[:2]}"
        conj = []
        for i, (b, o) in enumerate(zip(before, out)):
            g, why = obs_eq(b, deep_obs(it, o), f"record {i}")
            if g is False:
                return False, why
            if g is not True:
                conj.append(g)
        return (z3.And(*conj) if conj else True), "a value differs after the round trip"

    def add(name, th, replay, mode="paths", wit=None):
        pack.add(Obligation(name, lambda tier: prove_paths(name, th, judge_same, wit or (lambda m_, p: {}), allow_raise=None), replay=replay, functions=FU, mode=mode))

    def one_field(typename, value_fn, fname="x"):
        def th():
            D = it.call(RD, ["c01/t", [(typename, fname), ("varint", "n")]], {})
            r = it.call(D, [], {fname: value_fn(), "n": 7})
            before = [deep_obs(it, r)]
            return before, roundtrip([r])
        return th

    # ---- L3: symbolic integers and text, scalar and list form
    for t, rng in INT_TYPES.items():
        for lst in (False, True):
            if lst and t in ("net.udp.Port",):
                continue
            tn = t + ("[]" if lst else "")

            def vf(rng=rng, lst=lst):
                if rng:
                    it.assume(z3.And(x >= rng[0], x <= rng[1], y >= rng[0], y <= rng[1]))
                return [SInt(x), SInt(y), SInt(x)] if lst else SInt(x)

            add(f"C01.type[{tn}, any integer{' in range' if rng else ''}]", one_field(tn, vf), lambda w, tn=tn: {"call": "c01_value", "args": {"ftype": tn, "src": repr([w.get("x", 0), w.get("y", 0), w.get("x", 0)]) if tn.endswith("[]") else repr(w.get("x", 0))}},
                wit=lambda m_, p: {"x": model_value(m_, x), "y": model_value(m_, y)})
    for t in TEXT_TYPES:
        for lst in (False, True):
            tn = t + ("[]" if lst else "")

            def vf(lst=lst):
                it.assume(z3.InRe(sv, ENCODABLE))
                it.assume(z3.InRe(sw, ENCODABLE))
                return [SStr(sv), SStr(sw)] if lst else SStr(sv)

            add(f"C01.type[{tn}, any text]", one_field(tn, vf), lambda w, tn=tn: {"call": "c01_value", "args": {"ftype": tn, "src": repr([w.get("s", ""), w.get("w", "")]) if tn.endswith("[]") else repr(w.get("s", ""))}},
                wit=lambda m_, p: {"s": model_value(m_, sv), "w": model_value(m_, sw)})
    add("C01.type[stringlist, any text]", one_field("stringlist", lambda: (it.assume(z3.InRe(sv, ENCODABLE)), [SStr(sv), "b"])[1]), lambda w: {"call": "c01_value", "args": {"ftype": "stringlist", "src": repr([w.get("s", ""), "b"])}}, wit=lambda m_, p: {"s": model_value(m_, sv)})
    add("C01.type[dynamic, any integer]", one_field("dynamic", lambda: SInt(x)), lambda w: {"call": "c01_value", "args": {"ftype": "dynamic", "src": repr(w.get("x", 0))}}, wit=lambda m_, p: {"x": model_value(m_, x)})
    add("C01.type[dynamic, any text]", one_field("dynamic", lambda: (it.assume(z3.InRe(sv, ENCODABLE)), SStr(sv))[1]), lambda w: {"call": "c01_value", "args": {"ftype": "dynamic", "src": repr(w.get("s", ""))}}, wit=lambda m_, p: {"s": model_value(m_, sv)})

    # ---- L3: addresses of ANY value (assumed ipaddress contract of pyvc/models/ip.py): the address family is part of the identity
    from pyvc.models.ip import SymIP

    for fam, lo, hi, label in ((4, 0, 2 ** 32, "any IPv4 address"), (6, 2 ** 32, 2 ** 128, "any IPv6 address of value 2**32 or more"), (6, 0, 2 ** 32, "any IPv6 address of value below 2**32")):
        for lst in (False, True):
            tn = "net.ipaddress" + ("[]" if lst else "")

            def vf(fam=fam, lo=lo, hi=hi, lst=lst):
                it.assume(z3.And(x >= lo, x < hi, y >= lo, y < hi))
                return [SymIP(fam, SInt(x)), SymIP(fam, SInt(y))] if lst else SymIP(fam, SInt(x))

            def rp(w, fam=fam, lst=lst, tn=tn):
                mk = lambda n: f"IP{fam}({int(n)})"
                return {"call": "c01_value", "args": {"ftype": tn, "src": "[" + ", ".join([mk(w.get("x", 0)), mk(w.get("y", 0))]) + "]" if lst else mk(w.get("x", 0))}}

            add(f"C01.type[{tn}, {label}]", one_field(tn, vf), rp, wit=lambda m_, p: {"x": model_value(m_, x), "y": model_value(m_, y)})

    # ---- L3: representative values of every type (finite case analysis), scalar and list form, and unset
    for t in V.SCALARS:
        srcs = list(dict.fromkeys(V.VALID.get(t, []) + EXTRA_VALUES.get(t, [])))
        for src in srcs:
            add(f"C01.value[{t}, {src}]", one_field(t, lambda src=src: pyvalue(src)), lambda w, t=t, src=src: {"call": "c01_value", "args": {"ftype": t, "src": src}}, mode="representative value")
        if t in V.LISTABLE and srcs:
            lsrc = "[" + ", ".join(srcs[:3]) + "]"
            add(f"C01.value[{t}[], {lsrc}]", one_field(t + "[]", lambda lsrc=lsrc: pyvalue(lsrc)), lambda w, t=t, lsrc=lsrc: {"call": "c01_value", "args": {"ftype": t + "[]", "src": lsrc}}, mode="representative value")
            add(f"C01.value[{t}[], []]", one_field(t + "[]", lambda: []), lambda w, t=t: {"call": "c01_value", "args": {"ftype": t + "[]", "src": "[]"}}, mode="representative value")
        add(f"C01.unset[{t}]", one_field(t, lambda: None), lambda w, t=t: {"call": "c01_value", "args": {"ftype": t, "src": "None"}}, mode="representative value")
        if t in V.LISTABLE:
            add(f"C01.unset[{t}[]]", one_field(t + "[]", lambda: None), lambda w, t=t: {"call": "c01_value", "args": {"ftype": t + "[]", "src": "None"}}, mode="representative value")
    pack.case_analyses.append("field types: every serialisable whitelisted type, scalar and list form; representative values from replay/c05_values.py plus boundary values; symbolic integers / text where stated")

    # ---- L4: keyword-named fields (other class template), falsy values, metadata
    def th_keyword():
        D = it.call(RD, ["c01/kw", [("varint", "from"), ("string", "class"), ("boolean", "is"), ("string[]", "in"), ("varint", "plain")]], {})
        it.assume(z3.InRe(sv, ENCODABLE))
        r = it.call(D, [SInt(x), SStr(sv), False, [], SInt(y)], {})
        return [deep_obs(it, r)], roundtrip([r])

    add("C01.template[keyword field names, any integer / text incl. 0 and '']", th_keyword, lambda w: {"call": "c01_keyword", "args": {"x": w.get("x", 0), "s": w.get("s", ""), "y": w.get("y", 0)}}, wit=lambda m_, p: {"x": model_value(m_, x), "s": model_value(m_, sv), "y": model_value(m_, y)})

    def th_meta():
        D = it.call(RD, ["c01/meta", [("varint", "n")]], {})
        it.assume(z3.InRe(sv, ENCODABLE))
        it.assume(z3.InRe(sw, ENCODABLE))
        r = it.call(D, [], {"n": SInt(x), "_source": SStr(sv), "_classification": SStr(sw), "_generated": pyvalue("DT(2001, 2, 3, 4, 5, 6, 7, tzinfo=TZ(TD(hours=2)))")})
        return [deep_obs(it, r)], roundtrip([r])

    add("C01.metadata[_source, _classification, _generated, _version]", th_meta, lambda w: {"call": "c01_meta", "args": {"x": w.get("x", 0), "s": w.get("s", ""), "w": w.get("w", "")}}, wit=lambda m_, p: {"x": model_value(m_, x), "s": model_value(m_, sv), "w": model_value(m_, sw)})

    def th_meta_unset():
        # _generated set to None after construction ("unset"): unset stays unset
        D = it.call(RD, ["c01/meta", [("varint", "n")]], {})
        r = it.call(D, [], {"n": SInt(x)})
        it.setattr_(r, "_generated", None)
        return [deep_obs(it, r)], roundtrip([r])

    add("C01.metadata[_generated unset (None) after construction]", th_meta_unset, lambda w: {"call": "c01_meta_unset", "args": {"x": w.get("x", 0)}}, wit=lambda m_, p: {"x": model_value(m_, x)})

    def th_widths():
        out = []
        for width in (0, 1, 3):
            D = it.call(RD, [f"c01/w{width}", [("varint", f"f{i}") for i in range(width)]], {})
            out.append(it.call(D, [SInt(x + i) for i in range(width)], {}))
        return [deep_obs(it, r) for r in out], roundtrip(out)

    add("C01.template[widths 0, 1, 3]", th_widths, lambda w: {"call": "c01_sequence", "args": {"x": w.get("x", 0)}}, wit=lambda m_, p: {"x": model_value(m_, x)})

    # ---- the comparison configuration (ignored fields) is about == and hash only: it must not leak into what is written
    def th_ignore_scope():
        A = it.call(RD, ["c01/a", [("varint", "n"), ("string", "s")]], {})
        N = it.call(RD, ["c01/nest", [("record", "r")]], {})
        it.assume(z3.InRe(sv, ENCODABLE))
        rs = [it.call(A, [], {"n": SInt(x), "s": SStr(sv)}), it.call(N, [], {"r": it.call(A, [], {"n": SInt(y), "s": "in"})}), it.call(GR, ["c01/grp", [it.call(A, [], {"n": SInt(y), "s": "g"})]], {})]
        before = [deep_obs(it, r) for r in rs]
        saved = base.g["IGNORE_FIELDS_FOR_COMPARISON"]
        it.call(base.g["set_ignored_fields_for_comparison"], [["_generated"]], {})
        try:
            res = roundtrip(rs)
        finally:
            base.g["IGNORE_FIELDS_FOR_COMPARISON"] = saved
        return before, res

    add("C01.roundtrip[written and read while fields are ignored for comparison]", th_ignore_scope, lambda w: {"call": "c01_ignore_scope", "args": {"x": w.get("x", 0), "s": w.get("s", "")}}, wit=lambda m_, p: {"x": model_value(m_, x), "s": model_value(m_, sv)})

    # ---- a write that is refused (the record cannot be serialised) does not damage the stream: the records accepted before and after it come back
    def th_refused_between():
        A = it.call(RD, ["c01/a", [("varint", "n")]], {})
        DL = it.call(RD, ["c01/dl", [("dictlist", "dl"), ("varint", "n")]], {})
        good = [it.call(A, [], {"n": SInt(x)}), it.call(DL, [], {"dl": [{"k": "v"}], "n": SInt(y)}), it.call(A, [], {"n": SInt(y)})]
        bad_rec = it.call(DL, [], {"dl": [{"k": {1, 2}}], "n": 1})  # an unpackable value inside a dictlist, first record of its type
        fp = AbsFile(it, mode="wb")
        w = it.call(st.g["RecordStreamWriter"], [fp], {})
        it.call(it.getattr_(w, "write"), [good[0]], {})
        try:
            it.call(it.getattr_(w, "write"), [bad_rec], {})
            refused = False
        except PyRaise:
            refused = True
        for r in good[1:]:
            it.call(it.getattr_(w, "write"), [r], {})
        it.call(it.getattr_(w, "flush"), [], {})
        rd = it.call(st.g["RecordStreamReader"], [AbsFile(it, fp.content())], {})
        res = drain(it, it.call(it.getattr_(rd, "__iter__"), [], {}))
        return [deep_obs(it, r) for r in good], (res if refused else ([], "the unpackable record was accepted"))

    add("C01.roundtrip[a refused write between accepted ones]", th_refused_between, lambda w: {"call": "c01_refused_between", "args": {"x": w.get("x", 0)}}, wit=lambda m_, p: {"x": model_value(m_, x)})

    # ---- sequences, nested, grouped
    def th_sequence():
        A = it.call(RD, ["c01/a", [("varint", "n")]], {})
        A2 = it.call(RD, ["c01/a", [("string", "s"), ("varint", "n")]], {})
        it.assume(z3.InRe(sv, ENCODABLE))
        rs = [it.call(A, [], {"n": SInt(x)}), it.call(A2, [], {"s": SStr(sv), "n": SInt(y)}), it.call(A, [], {"n": SInt(y)}), it.call(A2, [], {"s": "", "n": 0})]
        return [deep_obs(it, r) for r in rs], roundtrip(rs)

    add("C01.sequence[two same-name descriptors interleaved]", th_sequence, lambda w: {"call": "c01_sequence", "args": {"x": w.get("x", 0)}}, wit=lambda m_, p: {"x": model_value(m_, x)}, mode="one concrete history shape, symbolic values (count / order for all histories: C04 invariant)")

    def th_alias():
        # the same record type declared with two spellings of a field type (the alias names are whitelisted types of their own): each record keeps ITS field list
        A = it.call(RD, ["c01/alias", [("string", "s"), ("net.ipaddress", "ip"), ("string[]", "l")]], {})
        B = it.call(RD, ["c01/alias", [("wstring", "s"), ("net.IPAddress", "ip"), ("wstring[]", "l")]], {})
        it.assume(z3.InRe(sv, ENCODABLE))
        rs = [it.call(A, [], {"s": SStr(sv), "ip": "1.2.3.4", "l": ["a"]}), it.call(B, [], {"s": SStr(sv), "ip": "1.2.3.4", "l": ["a"]}), it.call(A, [], {"s": "x", "ip": "2001:db8::1", "l": []}), it.call(B, [], {"s": "y", "ip": None, "l": ["b", "c"]})]
        return [deep_obs(it, r) for r in rs], roundtrip(rs)

    add("C01.sequence[one type name declared with alias spellings of its field types]", th_alias, lambda w: {"call": "c01_alias", "args": {"s": w.get("s", "")}}, wit=lambda m_, p: {"s": model_value(m_, sv)}, mode="one concrete history shape, symbolic values")

    def th_same_instant():
        # timestamps that denote the same instant with different UTC offsets (equal and hash-equal as Python values) in one history, as field values, list elements and _generated
        D = it.call(RD, ["c01/ts", [("datetime", "ts"), ("datetime[]", "tl"), ("varint", "n")]], {})
        inst = ["DT(2020, 1, 1, 12, 0, 0, 5, tzinfo=TZ(TD(0)))", "DT(2020, 1, 1, 13, 0, 0, 5, tzinfo=TZ(TD(hours=1)))", "DT(2020, 1, 1, 7, 0, 0, 5, tzinfo=TZ(TD(hours=-5)))", "DT(2020, 1, 1, 17, 30, 0, 5, tzinfo=TZ(TD(hours=5, minutes=30)))"]
        vals = [pyvalue(s_) for s_ in inst]
        rs = [it.call(D, [], {"ts": v, "tl": [vals[(i + 1) % 4], vals[(i + 2) % 4]], "n": SInt(x), "_generated": vals[(i + 3) % 4]}) for i, v in enumerate(vals)]
        rs.append(it.call(D, [], {"ts": vals[0], "tl": [], "n": SInt(y), "_generated": vals[0]}))
        return [deep_obs(it, r) for r in rs], roundtrip(rs)

    add("C01.sequence[timestamps of one instant with different UTC offsets]", th_same_instant, lambda w: {"call": "c01_same_instant", "args": {"x": w.get("x", 0)}}, wit=lambda m_, p: {"x": model_value(m_, x)}, mode="one concrete history shape, symbolic values")

    def th_nested():
        A = it.call(RD, ["c01/a", [("varint", "n")]], {})
        N = it.call(RD, ["c01/nest", [("record", "r"), ("record[]", "rs"), ("varint", "k")]], {})
        a = it.call(A, [], {"n": SInt(x)})
        inner = it.call(N, [], {"r": a, "rs": [], "k": 1})
        n = it.call(N, [], {"r": inner, "rs": [a, inner], "k": SInt(y)})
        return [deep_obs(it, n)], roundtrip([n])

    add("C01.nested[record, record[] two levels]", th_nested, lambda w: {"call": "c01_nested", "args": {"x": w.get("x", 0), "y": w.get("y", 0)}}, wit=lambda m_, p: {"x": model_value(m_, x), "y": model_value(m_, y)})

    def th_grouped():
        A = it.call(RD, ["c01/a", [("varint", "n")]], {})
        B = it.call(RD, ["c01/b", [("string", "s"), ("varint", "n")]], {})
        it.assume(z3.InRe(sv, ENCODABLE))
        g = it.call(GR, ["c01/grp", [it.call(A, [], {"n": SInt(x)}), it.call(B, [], {"s": SStr(sv), "n": SInt(y)})]], {})
        return [deep_obs(it, g)], roundtrip([g])

    add("C01.grouped", th_grouped, lambda w: {"call": "c01_grouped", "args": {"x": w.get("x", 0), "s": w.get("s", ""), "y": w.get("y", 0)}}, wit=lambda m_, p: {"x": model_value(m_, x), "s": model_value(m_, sv), "y": model_value(m_, y)})

    def th_grouped_same_name():
        # a grouped record whose member type shares its NAME with a type written before (other fields): it comes back with its own member types
        A = it.call(RD, ["c01/a", [("varint", "n")]], {})
        A2 = it.call(RD, ["c01/a", [("string", "s"), ("varint", "n")]], {})
        it.assume(z3.InRe(sv, ENCODABLE))
        rs = [it.call(A, [], {"n": SInt(x)}), it.call(GR, ["c01/grp", [it.call(A2, [], {"s": SStr(sv), "n": SInt(y)}), it.call(A, [], {"n": 3})]], {}), it.call(A2, [], {"s": "after", "n": 4})]
        return [deep_obs(it, r) for r in rs], roundtrip(rs)

    add("C01.grouped[a member type shares its name with a type written before]", th_grouped_same_name, lambda w: {"call": "c01_grouped_same_name", "args": {"x": w.get("x", 0), "s": w.get("s", ""), "y": w.get("y", 0)}}, wit=lambda m_, p: {"x": model_value(m_, x), "s": model_value(m_, sv), "y": model_value(m_, y)})

    for kind in ("bytearray", "memoryview"):
        def th_buffer(kind=kind):
            # a bytes field given a MUTABLE buffer (when it is accepted at all): what is written is what the record held when it was created, whatever the caller does to its buffer afterwards
            D = it.call(RD, ["c01/buf", [("bytes", "x"), ("bytes[]", "l")]], {})
            buf = bytearray(b"AAAAAAAA")
            src = buf if kind == "bytearray" else memoryview(buf)
            try:
                r = it.call(D, [], {"x": src, "l": [src]})
            except PyRaise:
                return [], ([], "stop")
            before = [deep_obs(it, r)]
            buf[:] = b"DDDDDDDD"
            return before, roundtrip([r])

        add(f"C01.history[a {kind} given to a bytes field is changed by the caller after the record was created]", th_buffer, lambda w, kind=kind: {"call": "c01_buffer_history", "args": {"kind": kind}}, mode="concrete history")

    # ---- canary / conformance / bounded
    def run_canary(tier):
        def th():
            D = it.call(RD, ["c01/t", [("varint", "x")]], {})
            r = it.call(D, [], {"x": SInt(x)})
            before = [deep_obs(it, it.call(D, [], {"x": SInt(x + 1), "_generated": r.attrs["_generated"]}))]  # deliberately different
            return before, roundtrip([r])
        return prove_paths("C01.canary", th, judge_same, lambda m_, p: {}, allow_raise=None)

    pack.add(Obligation("C01.canary", run_canary, kind="canary"))

    def run_cross(tier):
        reqs = [{"call": "c01_obs", "args": {"ftype": t, "src": src}} for t in V.SCALARS for src in V.VALID.get(t, [])[:2]]
        native = native_batch(reqs)
        bad = []
        for rq, nat in zip(reqs, native):
            t, src = rq["args"]["ftype"], rq["args"]["src"]
            def th(t=t, src=src):
                D = it.call(RD, ["c01/t", [(t, "x"), ("varint", "n")]], {})
                r = it.call(D, [], {"x": pyvalue(src), "n": 7})
                out, end = roundtrip([r])
                return simple_obs(out[0].attrs["x"]) if out else f"end {end}"
            try:
                p = it.explore(th)[0]
                mine = p.value if p.kind == "return" else "raise:" + exc_name(p)
            except Unsupported as e:
                mine = f"unsupported: {e}"
            if mine != nat.get("obs"):
                bad.append((t, src, mine, nat.get("obs")))
        return Result("C01.cross", "proved" if not bad else "refuted", f"{len(bad)} disagreement(s): {bad[:3]}" if bad else "", paths=len(reqs))

    def simple_obs(v):
        """class name and text form after the round trip, comparable with the native harness (c01_obs)"""
        from pyvc.models.strings import str_of
        try:
            s_ = str_of(it, v) if v is not None else "None"
        except Exception as e:
            s_ = f"<{type(e).__name__}>"
        return [it.type_name(v), s_ if isinstance(s_, str) else "<symbolic>"]

    pack.add(Obligation("C01.cross", run_cross, kind="cross"))

    def run_cross_ip(tier):
        """the assumed ipaddress contract (pyvc/models/ip.py) against the real module on boundary values: version by magnitude, int() inverse, text inverse"""
        import ipaddress as _ip
        from pyvc.models.ip import SymIP, IPText

        bad, n_ = [], 0
        for v in (-1, 0, 1, 2 ** 31, 2 ** 32 - 1, 2 ** 32, 2 ** 32 + 1, 2 ** 64, 2 ** 128 - 1, 2 ** 128):
            n_ += 1
            try:
                real = ("IPv%d" % _ip.ip_address(v).version, int(_ip.ip_address(v)))
            except ValueError:
                real = "ValueError"
            def th(v=v):
                it.assume(x == v)
                a = it.call_native(_ip.ip_address, [SInt(x)], {}) if False else it.models[_ip.ip_address](it, SInt(x))
                return ("IPv%d" % a.version, v)
            ps = it.explore(th)
            mine = [("ValueError" if p.kind == "raise" else p.value) for p in ps]
            if mine != [real]:
                bad.append((v, mine, real))
        for fam, v in ((4, 0), (4, 2 ** 32 - 1), (6, 0), (6, 1), (6, 2 ** 32 - 1), (6, 2 ** 128 - 1)):
            n_ += 1
            a = (_ip.IPv4Address if fam == 4 else _ip.IPv6Address)(v)
            back = _ip.ip_address(str(a))
            if (back.version, int(back)) != (fam, v) or (_ip.ip_address(a).version, int(_ip.ip_address(a))) != (fam, v):
                bad.append((fam, v, "text / object form does not map back to the same address"))
        return Result("C01.cross[ipaddress model]", "proved" if not bad else "refuted", f"{len(bad)} disagreement(s): {bad[:3]}" if bad else "", paths=n_)

    pack.add(Obligation("C01.cross[ipaddress model]", run_cross_ip, kind="cross"))

    def run_sweep(tier):
        args = {"seed": seed, "n": 150 if tier == "quick" else 3000}
        res = native_replay({"call": "c01_sweep", "args": args}, timeout=3000)
        r = Result("C01.roundtrip_sweep", "refuted" if res.get("violates") else ("proved" if "error" not in res else "error"), str(res.get("detail") or res.get("error") or "")[:300], paths=res.get("cases", 0))
        r.native, r.confirmed, r.request, r.witness = res, bool(res.get("violates")), {"call": "c01_sweep", "args": args}, res.get("witness")
        return r

    pack.add(Obligation("C01.roundtrip_sweep", run_sweep, kind="bounded", note="native run: random record sequences over every serialisable type (scalar and list, boundary / extreme / random values, None), several descriptors, nested and grouped records, "
                        "written by RecordWriter and read by RecordReader, compared by deep observation; bound 150 (quick) / 3000 (thorough) sequences", functions=FU))
    pack.assumptions += ["ipaddress contract (pyvc/models/ip.py): an address is (version, value); ip_address(int) picks IPv4 below 2**32, IPv6 below 2**128; int() / str() are inverted by ip_address() within a family (sampled by C01.cross[ipaddress model])", "msgpack tree model (strings are the identity on the surrogateescape-encodable domain)", "datetime / pathlib / shlex / ipaddress / urllib behaviour of the standard library on the representative values (executed natively by the engine)"]
    pack.not_covered = ["path / command / uri / ip / datetime values beyond the representative ones (their parsing and normalisation is the standard library's): covered by the bounded native sweep only",
                        "generalisation from the representative descriptors to every descriptor rests on the template structure proved in C06 (names only at identifier positions) and on renaming invariance"]
    return pack
